#!/usr/bin/env python3
"""Regenerates /verif/MANIFEST.json from the table below (single source of truth)."""
import json
import os
import subprocess

HERE = os.path.dirname(os.path.dirname(os.path.abspath(__file__)))

CHECKS = {
    "C02": dict(level="exploration", engine="progspace", design="5/C02",
                technique="enumeration of std entry points x canonical receivers x hostile argument products, of the runnable corpus and of its "
                          "integer-literal mutants, each executed on both code generators (differential + defined-ending oracle)",
                text="Signatures are extracted from pkgs/std in the current tree; every public function/method whose parameters are "
                     "sweepable is called on canonical receivers with the full product of boundary values (extreme lengths, indices, shift "
                     "amounts, conversions incl. NaN/inf, 4-byte characters, 140 KB strings); every call the front end accepts is compiled "
                     "with the baseline and the optimizing generator and run. Every test/rt program runs with its directives, and literal "
                     "mutants of them that the front end still accepts. stdout, status and first stderr line must agree and the ending must "
                     "be exit or a documented trap with its message -- never a signal, runtime panic or compiler crash.",
                note="programs using time, randomness, threads, files/sockets are excluded by rule (listed count); runs that exceed the time "
                     "limit on both generators are listed, not judged; arm64 output is not executable here"),
    "C03": dict(level="fault_enumeration", engine="progspace", design="5/C03",
                technique="bounded-exhaustive enumeration executed on real executables: (a) every object graph of n nodes x root subset x "
                          "collection plan, generated in-language per carrier x root mode x generator x collector x run-time configuration; "
                          "(b) fault-point enumeration: a forced minor/full collection injected before EVERY allocation (and every pair, for "
                          "small programs) through a cfg-gated hook; (c) corpus x configuration matrix; (d) reclamation runs",
                text="A Dora program enumerates every graph of n<=2 (3 in parts; all 4096 in thorough) nodes with two reference slots x every "
                     "non-empty root subset x collection plans (none/minor/full after each build step; all 3^(n+2) plans or four), for seven "
                     "carriers (class fields, arrays, nested structs/tuples, enum payloads, Vec+String, lambda environments, trait objects) x "
                     "roots in locals / an array / globals, builds it with the planned collections interleaved, promotes survivors, makes an "
                     "old node point to a fresh young one, and verifies reachability, edges, payloads and identity after every phase; counts "
                     "and checksum are recomputed independently in Python. Run for both generators x {copy, sweep, swiper, zero} x flags "
                     "(gc-stress, gc-stress-minor, TLAB off, gc-verify, workers 1/2/8, heap/young sizes) on a debug-assertion runtime "
                     "(protected from-space) and a release runtime with the heap verifier. For allocation-heavy programs every allocation "
                     "k (and pairs k1<k2) becomes a collection point via DORA_VERIF_GC_AT; output and status must equal the undisturbed run. "
                     "Corpus programs agree across the collector/flag matrix; garbage-only allocation of several heaps' worth must finish. Arrays whose byte size is at, and one/two words around, every allocator/collector size threshold (read from the sources) are built, promoted, written with young references and verified under every collector.",
                note="single-threaded programs only (multi-threaded allocation under OS scheduling cannot be enumerated: protocol-level C04/C12); "
                     "quick tier: 9 of 21 carrier/root combinations, n=3 only under copy/sweep, 4 of 12 injection programs; a corpus run "
                     "exceeding the time limit under a stress mode is listed as inconclusive"),
    "C04": dict(level="model_checking", engine="sched", design="5/C04",
                technique="stateless model checking of the real runtime code with loom (DPOR, preemption-bounded for >2 threads) "
                          "through a cfg-gated synchronisation shim",
                text="11 scenarios of 2-4 registered threads (polls, heap accesses, native calls, simultaneous stop-the-world "
                     "and collection requests, thread start, exit and join, re-armed barrier) run the real threads.rs / "
                     "safepoint.rs / gc.rs::collect_garbage under every schedule loom generates (all schedules for the basic "
                     "2-thread scenario, preemption bound 3-6 quick / 3-9 thorough otherwise); heap cells are loom-tracked so any "
                     "access during the operation or without happens-before to it, any runtime assert, deadlock or livelock fails.",
                note="trusted: loom's memory model and the shim's faithful forwarding; polls are modelled at harness level; "
                     "std atomics outside the shim are not scheduling points"),
    "C07": dict(level="exploration", engine="encspace", design="5/C07",
                technique="bounded-exhaustive enumeration (no sampling) of every public instruction method x full product of finite "
                          "operand domains, differential against llvm-mc (LLVM 14) as reference decoder/assembler",
                text="Every instruction-emitting pub fn of dora-asm's AssemblerX64 (209, parsed from the current source; unknown "
                     "methods are listed as uncovered) and the 213 instruction methods of the Dora twin pkgs/boots/assembler/x64.dora "
                     "are called for the complete product of: all 16 GPRs / 16 XMM registers per register operand, every addressing "
                     "shape (base+disp, base+index*scale+disp, index*scale+disp, RIP+disp; all bases/indexes incl. rsp/r12 and "
                     "rbp/r13, scales 1/2/4/8, disp8/disp32 boundaries), boundary immediates of each width incl. out-of-range probes "
                     "that must be refused, all 28 condition variants, rounding immediates, has_avx2 off and on; label references "
                     "backward/forward/multiple at 0,1,126,127,128,129,65536 bytes. For every emitted case llvm-mc decodes exactly the "
                     "case's bytes and the text must equal llvm-mc's decoding of its own assembly of the requested instruction; "
                     "branch/label displacements must hit the bound position. Quick ~4.5M + 0.5M (twin) compared cases, thorough ~21M + 7M.",
                note="finite product completed; bounded by the boundary sets for 32-bit displacements/immediates and the padding "
                     "distances; trusts llvm-mc 14; [1*r+d] and [r+d] print identically; three printer aliases normalised on both sides"),
    "C08": dict(level="exploration", engine="encspace", design="5/C08",
                technique="bounded-exhaustive operand-space enumeration on the real assembler, with llvm-mc (assembler direction, "
                          "bit-exact) as the independent reference encoder/decoder, plus a small interpreter for sequences",
                text="Every public method of dora-asm's AssemblerArm64 (parsed from the current source; 294 covered, 0 uncovered) is "
                     "executed on complete cartesian products of its operand domains (33 registers incl. zr/sp, every Cond/Extend/"
                     "Shift, whole immediate/offset/shift/bit-field ranges with non-encodable neighbours, all 5334+1302 bitmask "
                     "immediates, label distances at the ends of every branch range). Each emitted word is compared bit-exactly with "
                     "llvm-mc 14's encoding of the requested instruction; non-encodable operands must be refused. mov_imm, "
                     "ldr_mem_*/str_mem_* and label branches are decoded by llvm-mc and evaluated. The 254 same-named methods of "
                     "arm64.dora are compared with llvm-mc on a reduced product. quick 5.3e6 cases, thorough 6.6e7. Operand tuples without encoding (refused by arm64.rs, not assemblable) nearest to the encodable range are offered to the Dora twin one per process and must be refused.",
                note="a refusal (assert) of an operand the ISA could encode is counted, not a violation (the API may be narrower than the "
                     "ISA); beyond the quick products register numbers are covered only in combination with boundary immediates; the "
                     "Dora twin runs only tuples the Rust assembler accepts; driver built like a release build"),
    "C09": dict(level="model_checking", engine="sched", design="5/C09",
                technique="loom model checking of Mutex/Condition interpreted from thread.dora over the real wait-list code; "
                          "explicit-state BFS of the real wait table against a reference map",
                text="10 scenarios (mutual exclusion with 2-3 threads, condition hand-off, notify_all, no stored permit, join "
                     "visibility, bounded queue, lock objects moved by a stop-the-world collection while threads are queued) "
                     "under all schedules (2 threads) / preemption bound 3 (quick) or 5 (thorough); the Dora side is interpreted "
                     "from the current pkgs/std/thread.dora, the runtime side is the real code. The address-keyed wait table is "
                     "explored breadth-first (insert/remove/lookup-absent/epoch actions) against a BTreeMap. The wait-table search includes a moving-collection action (keys relocated in place through visit_roots).",
                note="atomic intrinsics are modelled as SeqCst RMWs; real OS scheduling of compiled programs is out of scope"),
    "C10": dict(level="exploration", engine="progspace", design="5/C10",
                technique="exhaustive static analysis of every function of every emitted assembly file in a declared corpus x code "
                          "generators x targets x collectors: metadata tables decoded, code disassembled with llvm-mc, per-call-site "
                          "data-flow of the frame extent; no sampling inside a file",
                text="For hello/std, the optimizing compiler's own image (and its test image), the runnable corpus and generator units, "
                     "compiled by the baseline generator (x64) and the optimizing generator (x64 and arm64) for the collectors: every call "
                     "to managed code, a runtime entry, the safepoint or allocation slow path and every indirect call has a stack map at "
                     "its return offset; every map sits at the return offset of some call (or offset 0 of a trampoline); slots are "
                     "distinct, 8-aligned and inside the frame as it is at that call (interior pairs likewise, disjoint from plain "
                     "slots); code ranges are disjoint, ordered, one per symbol; gcpoint/location/inlined tables partition exactly; "
                     "locations are strictly increasing, inside the function, on instruction boundaries, inlined chains acyclic; no "
                     "collecting call before the entry poll and every loop contains a poll. quick: 187 files / 13k functions / 105k "
                     "required sites; thorough: 5 959 files / 203k functions / 1.87M required sites.",
                note="a map that is present and well-formed but names too few slots is not detectable statically (C03's collection-point "
                     "enumeration covers that); `--cannon --target arm64` is not a supported configuration and is excluded; array zero-fill "
                     "and ll/sc micro loops have no poll by design; trusts llvm-mc 14"),
    "C12": dict(level="model_checking", engine="sched", design="5/C12",
                technique="loom model checking of the real Terminator with 2-4 workers per enumerated publish pattern",
                text="For every rooted forest over <= 3 (4 thorough) work items with every local/shared assignment of its "
                     "edges (+ mark-bit diamonds), 2 workers under all schedules and 3-4 workers preemption-bounded run the "
                     "marking worker loop against the real termination detector; termination is only ever observed with zero "
                     "outstanding items, every item is processed exactly once, nobody sleeps forever or spins.",
                note="the work pool (deques, injector, stealing) is abstracted to one shared stack; the detector is the real code"),
    "C05": dict(level="exploration", engine="progspace+seqmc", design="5/C05",
                technique="enumeration of all single-fault mutants (10 rule classes x every applicable position) of generator programs "
                          "through the real front end; all generator programs through front end, verifier and both code generators",
                text="~3000 well-typed generator programs (expression shapes, statement lists, generic/trait/visibility programs, "
                     "family cases) must pass Sema + check_program + emit_program (bytecode verifier) and compile with both code "
                     "generators; every single-fault mutant (~3500 quick) of ten static-rule classes at every typed hole must be "
                     "rejected with >= 1 diagnostic, through the API and through `dora compile -c` (no package emitted). Two reference-decided families: impl matching (impl target patterns with repeated type parameters x use-site type arguments, unification) and definite return (statement lists over returning / possibly-returning statements).",
                note="mutants are ill-typed by construction; positions where the replacement would stay well typed are not generated"),
    "C06": dict(level="exploration", engine="seqmc", design="5/C06",
                technique="bounded-exhaustive enumeration of a lexeme text space and of all single-token edits of "
                          "repository files, executed on the real lexer/parser/semantic analysis",
                text="Every string over a 110-lexeme alphabet up to length 3 (4 over a 55-lexeme core alphabet, 6 over the "
                     "delimiter alphabet in the thorough tier) in 12 syntactic contexts, every repository source file and "
                     "every single-token edit of it go through the real parser; the shorter texts and all repository files "
                     "also through the real semantic analysis; oracle: no panic, no hang, diagnostic spans inside the file, "
                     "status == !has_errors, CLI exits 1 with messages. Exhaustive inside the bounds, nothing beyond. Every pair of mutually referring alias/struct (thorough: enum, class, trait-alias) declarations over all type expressions of depth <= 1 goes through `dora compile -c`, one process each.",
                note="trusted: the harness' catch_unwind/watchdog; texts beyond the bounds are only represented by repository "
                     "files and their edits"),
    "C01": dict(level="exploration", engine="progspace", design="5/C01",
                technique="enumeration of program families (operator x boundary operands x provenance, expression shapes, control "
                          "flow, data, collections, calls, compositions) executed on both code generators against a reference evaluator",
                text="Every case of seven generator families -- all integer/float operators over boundary operand pairs in constant, "
                     "variable and mixed provenance; all expression shapes up to the depth bound with evaluation-order tracers; all "
                     "statement blocks of the control-flow grammar; struct/tuple/enum/class/trait/generic data shapes; Vec/Array/"
                     "HashMap/String operation sequences; call shapes; pairwise family compositions -- is compiled with the baseline "
                     "and the optimizing generator and run; stdout and the ending (normal or the specific trap) of every case must "
                     "equal the generator's own reference evaluation, case by case.",
                note="the reference evaluator is the generator's Python model of the documented semantics; unspecified behaviours "
                     "(argument aliasing through assignment inside arguments) are not generated"),
    "C11": dict(level="model_checking", engine="seqmc", design="5/C11",
                technique="bounded-exhaustive enumeration of pattern matrices (rows x guard placements) over finite scrutinee types; real "
                          "checker's diagnostics compared with brute force over all values; accepted matrices executed on both generators",
                text="22 pattern spaces over Bool, enums with and without payloads, Option, tuples, positional/named structs and classes, "
                     "nested up to depth 3, with wildcards, bindings, literals, `..` rest patterns and alternatives, plus Int64/Int32/Char/"
                     "String literal scrutinees: every matrix of up to 2-4 rows x guard placements is checked by the real front end; "
                     "NON_EXHAUSTIVE_MATCH and every USELESS_PATTERN (line and column, down to the alternative) must equal brute force "
                     "over all values; every accepted matrix of the small types is compiled with both generators and called with every "
                     "value x every guard mask: the arm taken and the values bound must equal the first matching row. Dense literal spaces (all 4-row matrices over three literals and a wildcard) are executed with boundary scrutinee values (literal +- 2^32, sign bit, min, max).",
                note="row and depth bounds per space are listed in the evidence; literal domains are the three literals plus one other value"),
    "C13": dict(level="exploration", engine="progspace", design="5/C13",
                technique="enumeration of frame shape x recursion kind x thread and of allocation entry x element type x hostile length, "
                          "executed on both code generators and the collectors",
                text="Unbounded recursion with every frame shape (locals, by-value structs up to 8^j words, many arguments, expression "
                     "temporaries) x recursion kind (direct, mutual, lambda, trait object, generic) x thread (main, spawned, nested) "
                     "must end with status 107 'stack overflow' (and the same program bounded to a small depth finishes); every "
                     "allocation entry point x element type x hostile length must end in a documented trap identically on both "
                     "generators; live growth past a 16M heap must trap 106; garbage-only allocation must finish.",
                note="the trap text of other kinds is C14's"),
    "C14": dict(level="exploration", engine="progspace", design="5/C14",
                technique="enumeration of trap kind x callee-shape chains with generator-known frame lists, executed on both code generators",
                text="13 trap kinds x 7 callee shapes (plain, generic, method, static, lambda, trait-object thunk, inlinable leaf) x "
                     "chain depth 1-2 (3 thorough): message, exit status, every frame's function name and source line, and the stdout "
                     "written before the trap must equal what the generator recorded, for both code generators (and both must print "
                     "identical reports incl. columns). Two further kinds trap inside a reference-producing element access whose set-up sits on the previous source line.",
                note="stack overflow / out-of-memory reports are covered by C13; columns only compared between generators"),
    "C15": dict(level="exploration", engine="progspace", design="5/C15",
                technique="enumeration of the owned nondeterminism space -- hash seeds (getrandom interposition) x working directory x output "
                          "neighbours x ASLR x concurrency -- for every program x code generator x artefact kind on the real tool chain; "
                          "byte comparison of all builds; bootstrap chains per seed and first-stage builder",
                text="Every program (hand-written feature-rich programs, a program with five external packages passed in unsorted order, a "
                     "manifest-driven `dora build` project with five path dependencies, a generator unit, a stride of the runnable corpus) "
                     "is built as package, assembly and executable by both code generators once per hash seed (3 quick / 24 thorough; the "
                     "seeds of every Rust process in the pipeline are set through an LD_PRELOAD getrandom shim that is verified effective) x "
                     "environment variant (cwd /, short, deep; 60 neighbour files; ASLR off), 14 builds at a time: all members of a group "
                     "must be byte-identical. The optimizing compiler is bootstrapped per seed with first stages linked against two "
                     "collectors: stage2 == stage3 as executable and assembly, and stage2's assembly is the same across chains. Files sharing the output's stem must survive a build untouched, and builds for four collectors started at the same moment into one directory with one stem must equal the builds made alone.",
                note="seeds enumerate hash functions, not all iteration orders; release and debug-assertion tool chains are different "
                     "compiler configurations (is_debug changes emitted self-checks) and are compared only with themselves; gcc/ld trusted"),
    "C16": dict(level="exploration", engine="seqmc", design="5/C16",
                technique="bounded-exhaustive enumeration of texts x separator styles, oracle evaluated on the real parser's tree",
                text="The same text space as C06 with all line-ending/separator styles and multi-byte lexemes, plus all "
                     "repository files and their token edits: byte round trip, node length sums, gap-free tiling of token "
                     "spans, error spans inside the text, equal tree on re-parse -- checked on every text. A node's span must run from its first to its last code token on character boundaries; comments with multi-byte characters are part of the alphabet; every separator style incl. lone CR at the shorter bound.",
                note="exhaustive only up to the stated length bounds"),
    "C17": dict(level="exploration", engine="seqmc", design="5/C17",
                technique="exhaustive enumeration of layout mutants (comment/line break at every token boundary) and of the "
                          "clean texts of the lexeme space through the real formatter",
                text="Every repository file at 2-7 widths, every layout mutant of the smaller files, every error-free text of "
                     "the lexeme space: output parses, canonical token sequence and comments preserved, idempotent.",
                note="canonical form treats order of use declarations / modifiers and optional trailing separators as "
                     "insignificant; behavioural equality is inferred from token equality"),
    "C20": dict(level="model_checking", engine="lsmc", design="5/C20",
                technique="explicit enumeration of all texts up to a bound x all offsets x all positions on the real position.rs, against an independent reference; symbol trees of the lexeme text space",
                text="All 19 608 (137 257 thorough) texts over a, 2-/3-/4-byte characters, LF, CR, space up to length 5 (6): every boundary offset round-trips and agrees with an independent line/UTF-16 reference, every (line, character) incl. out-of-range ones maps into the document; symbol trees of ~10^5 (10^7) declaration texts and all repository files satisfy the containment rules and never panic.",
                note="language-server modules mounted unchanged into the harness; mid-surrogate positions only required to stay on their line"),
    "C18": dict(level="fault_enumeration", engine="seqmc+progspace", design="5/C18",
                technique="bounded-exhaustive enumeration on the real writer/reader/serializer: every emit method x boundary operand "
                          "product, every ordered instruction pair x width classes, jump distances and pool sizes around every width "
                          "boundary; every truncation length and every single-bit flip in declared windows of real packages through "
                          "the real decoder and code generators",
                text="All 70 emit methods of BytecodeWriter (parsed from the current source; uncovered list must be empty) x 17 boundary "
                     "values per operand, 4 900 ordered pairs x 9 width classes, forward/backward jumps and loops over 15 paddings up to "
                     "70 000 bytes, jump tables up to 300 targets, 19 constant-pool kinds x boundary ids: read back by the real reader "
                     "and by the Dora reader twin (generated @Test in a copy of pkgs/boots), compared with an independent LEB/offset "
                     "model. Packages of hello, hand-written programs, generator units, corpus files and boots: decode(encode(p)) "
                     "re-encodes identically, dumps identically, equals the in-process program, trailing bytes refused; source->exe and "
                     "source->package->exe give identical assembly and executables. Damage: every truncation length and bit flips in "
                     "declared windows/strides -> decoder (child processes under an address-space limit) and the real generators on "
                     "every outcome class: refused with a message or a valid encoding of another program, never a crash. A program printing constants of every kind and bit-pattern class is built from source and from its package by both generators and must print what was written (covers the Dora-side deserializer).",
                note="a damaged package that still decodes to an inconsistent program can panic the generators (known finding: nothing "
                     "validates a decoded program; a checksum would be a format change); non-minimal integer encodings accepted by bincode "
                     "are classed ok-noncanonical; operands above 2^32-1 out of scope; the Dora-side builder/deserializer are not driven"),
    "C19": dict(level="model_checking", engine="seqmc", design="5/C19",
                technique="explicit-state exploration (prefix-closed BFS over names) of the real mangler; cap sweep; label sets of emitted assembly",
                text="All names up to length 4 (5 thorough) over a 16-symbol alphabet are mangled by the real function; "
                     "injectivity, charset, demangle round trip and purity hold in every state; the length cap is swept "
                     "parametrically (34..40) and at the production value with long common prefixes; emitted .s files have "
                     "pairwise distinct, valid global labels. Over-long names differing in exactly one character at every position must get different shortened symbols; a program of callables that differ in exactly one name component each is compiled, linked and run on both back ends.",
                note="names longer than the bound differ only by more symbols of the same classes (mangling is byte-wise)"),
}

PENDING = {}

NOT_APPLICABLE = {}


def main():
    props = [json.loads(l)["id"] for l in open(os.path.join(HERE, "properties.jsonl"))]
    checks = []
    for pid in props:
        if pid not in CHECKS:
            continue
        c = CHECKS[pid]
        checks.append({
            "property_id": pid,
            "quick_cmd": "./bin/check %s --tier quick" % pid,
            "thorough_cmd": "./bin/check %s --tier thorough" % pid,
            "evidence_file": "/verif/evidence/%s.json" % pid,
            "replay_cmd_template": "./bin/check %s --replay {path}" % pid,
            "engine": c["engine"],
            "level_claimed": {"category": c["level"], "text": c["text"], "design_ref": c["design"]},
            "level_note": c["note"],
            "technique": c["technique"],
        })
    na = []
    for pid in props:
        if pid in CHECKS:
            continue
        reason = NOT_APPLICABLE.get(pid) or PENDING.get(pid) or \
            "no check registered yet: the engine for this property is still under construction (see DESIGN.md section 10)"
        na.append({"property_id": pid, "reason": reason})
    hooks_commits = []
    try:
        out = subprocess.run(["git", "-C", "/repo", "log", "--format=%h %s"], stdout=subprocess.PIPE).stdout.decode()
        for line in out.splitlines():
            if line.split(" ", 1)[1].startswith("verif-hook:"):
                hooks_commits.append(line.split()[0])
    except Exception:
        pass
    m = {
        "version": 1,
        "setup_cmd": "./bin/setup",
        "hooks": {
            "guard": "dinfuehr_dora_verif",
            "enable": "RUSTFLAGS='--cfg dinfuehr_dora_verif --cfg dinfuehr_dora_verif=\"sched\"' (CARGO_TARGET_DIR=/verif/.build/sched: sync shim + re-exports, loom harness) or "
                      "'--cfg dinfuehr_dora_verif --cfg dinfuehr_dora_verif=\"inject\"' (/verif/.build/inject: collection-point injection in Gc::alloc); "
                      "set by the checks that need them (C04 C09 C12 / C03)",
            "baseline_off_cmd": "cd /repo && cargo test --workspace --no-fail-fast --offline",
            "source_commits": hooks_commits,
            "add_only": True,
        },
        "engines": [
            {"name": "seqmc", "path": "engines/seqmc", "serves_properties": ["C06", "C11", "C16", "C17", "C18", "C19"],
             "kind_free_text": "Rust: bounded-exhaustive / explicit-state explorers calling the real crates of /repo"},
            {"name": "lsmc", "path": "engines/lsmc", "serves_properties": ["C20"],
             "kind_free_text": "Rust: mounts the language-server modules and enumerates texts x offsets x positions"},
            {"name": "sched", "path": "engines/sched", "serves_properties": ["C04", "C09", "C12"],
             "kind_free_text": "Rust: loom back end for the cfg-gated sync shim of dora-runtime; real protocol code under all schedules"},
            {"name": "encspace", "path": "engines/encspace", "serves_properties": ["C07", "C08"],
             "kind_free_text": "generated operand-product drivers for both assemblers, llvm-mc as reference decoder"},
            {"name": "progspace", "path": "engines/progspace",
             "serves_properties": ["C01", "C02", "C03", "C05", "C10", "C13", "C14", "C15", "C18"],
             "kind_free_text": "Python: enumerated program families, reference evaluator, configuration/collection-point matrix on real executables"},
        ],
        "checks": checks,
        "not_applicable": na,
        "notes": "All checks are bounded-exhaustive enumerations executed on the real code; see DESIGN.md.",
    }
    with open(os.path.join(HERE, "MANIFEST.json"), "w") as f:
        json.dump(m, f, indent=1)
    print("wrote MANIFEST.json with %d checks, %d not_applicable" % (len(checks), len(na)))


main()
