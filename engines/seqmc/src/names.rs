//! C19: explicit-state exploration of the name space of the symbol mangler.
use std::collections::HashMap;

use dora_symbol::{demangle_name, mangle_name, mangle_name_with_max_len};

use crate::pool::{guarded, Report};
use crate::Args;

const SYMS: &[&str] = &["a", "Z", "0", "5", "F", "_", ":", "[", "]", ",", " ", "$", "#", "<", "ä", "😀"];

fn valid_symbol(s: &str) -> bool {
    // what every assembler accepts: [A-Za-z0-9_]+ not starting with a digit
    !s.is_empty() && !s.as_bytes()[0].is_ascii_digit() && s.bytes().all(|b| b.is_ascii_alphanumeric() || b == b'_')
}

pub fn run(args: &Args) -> Report {
    let maxlen = args.num("maxlen", 4) as usize;
    let cap_lo = args.num("cap-lo", 34) as usize;
    let cap_hi = args.num("cap-hi", 40) as usize;
    let mut rep = Report::default();

    // (1) prefix-closed BFS over all names up to maxlen: states = names, transition = append symbol
    let mut seen: HashMap<String, String> = HashMap::new(); // mangled -> name
    let mut frontier: Vec<String> = vec![String::new()];
    let mut states: u64 = 0;
    let mut transitions: u64 = 0;
    let mut escaped_states: u64 = 0;
    for depth in 0..=maxlen {
        let mut next = Vec::new();
        for name in &frontier {
            states += 1;
            let r = guarded(|| {
                let m = mangle_name(name);
                let m2 = mangle_name(name);
                let m200 = mangle_name_with_max_len(name, 200);
                let d = demangle_name(&m);
                (m, m2, m200, d)
            });
            match r {
                Err(p) => rep.add(p.key(), name, &p.message),
                Ok((m, m2, m200, d)) => {
                    if m != m2 {
                        rep.add("c19:not-deterministic".into(), name, &m);
                    }
                    if !valid_symbol(&m) {
                        rep.add("c19:bad-charset".into(), name, &m);
                    }
                    if m.len() <= 200 && m200 != m {
                        rep.add("c19:short-name-changed-by-cap".into(), name, &m200);
                    }
                    if d.as_deref() != Some(name.as_str()) {
                        rep.add("c19:demangle-mismatch".into(), name, &format!("{:?} -> {:?}", m, d));
                    }
                    if m.len() != name.len() + 5 {
                        escaped_states += 1;
                    }
                    if let Some(prev) = seen.insert(m.clone(), name.clone()) {
                        if prev != *name {
                            rep.add("c19:collision".into(), name, &format!("{:?} and {:?} both mangle to {}", prev, name, m));
                        }
                    }
                }
            }
            if depth < maxlen {
                for s in SYMS {
                    transitions += 1;
                    next.push(format!("{}{}", name, s));
                }
            }
        }
        frontier = next;
    }
    rep.evaluations += states;
    rep.bump("states", states);
    rep.bump("transitions", transitions);
    rep.bump("names_needing_escapes", escaped_states);

    // (2) length cap: for each cap L, all names over a 5-symbol alphabet whose mangled length is
    // around L, with a long common prefix, must stay distinct, valid, <= L, deterministic.
    let cap_syms = ["a", "b", "_", ":", "ä"];
    let cap_len = args.num("cap-len", 5) as usize;
    let mut cap_cases: u64 = 0;
    let mut shortened: u64 = 0;
    for cap in cap_lo..=cap_hi {
        let mut outputs: HashMap<String, String> = HashMap::new();
        for prefix_len in [cap.saturating_sub(12), cap.saturating_sub(8), cap.saturating_sub(5), cap] {
            let prefix: String = std::iter::repeat('p').take(prefix_len).collect();
            let mut stack: Vec<String> = vec![String::new()];
            while let Some(sfx) = stack.pop() {
                let name = format!("{}{}", prefix, sfx);
                cap_cases += 1;
                let r = guarded(|| (mangle_name_with_max_len(&name, cap), mangle_name_with_max_len(&name, cap), mangle_name(&name)));
                match r {
                    Err(p) => rep.add(p.key(), &name, &p.message),
                    Ok((m, m2, full)) => {
                        if m != m2 {
                            rep.add("c19:cap-not-deterministic".into(), &name, &m);
                        }
                        if m.len() > cap {
                            rep.add("c19:cap-exceeded".into(), &name, &format!("{} > {}", m.len(), cap));
                        }
                        if !valid_symbol(&m) {
                            rep.add("c19:cap-bad-charset".into(), &name, &m);
                        }
                        if full.len() <= cap {
                            if m != full {
                                rep.add("c19:cap-changed-fitting-name".into(), &name, &m);
                            }
                            if demangle_name(&m).as_deref() != Some(name.as_str()) {
                                rep.add("c19:cap-demangle".into(), &name, &m);
                            }
                        } else {
                            shortened += 1;
                        }
                        if let Some(prev) = outputs.insert(m.clone(), name.clone()) {
                            if prev != name {
                                rep.add("c19:cap-collision".into(), &name, &format!("cap {}: {:?} and {:?} -> {}", cap, prev, name, m));
                            }
                        }
                    }
                }
                if sfx.chars().count() < cap_len {
                    for s in cap_syms {
                        stack.push(format!("{}{}", sfx, s));
                    }
                }
            }
        }
    }
    rep.evaluations += cap_cases;
    rep.bump("cap_cases", cap_cases);
    rep.bump("cap_shortened", shortened);

    // (3) production cap 200 with 160-character common prefixes
    let fam = args.num("family", 2000);
    let mut outputs: HashMap<String, String> = HashMap::new();
    let prefix: String = "std::collections::HashMap[std::string::String, std::collections::Vec[(Int64, std::string::String)]]#".repeat(2);
    let mut fam_short = 0u64;
    for i in 0..fam {
        for tail in [format!("{}", i), format!("[{}]", i), format!("_{}", i), format!("{}:", i)] {
            let name = format!("{}{}", prefix, tail);
            let m = mangle_name_with_max_len(&name, 200);
            if m.len() > 200 || !valid_symbol(&m) {
                rep.add("c19:cap200-invalid".into(), &name, &m);
            }
            if mangle_name(&name).len() > 200 {
                fam_short += 1;
            }
            if let Some(prev) = outputs.insert(m.clone(), name.clone()) {
                if prev != name {
                    rep.add("c19:cap200-collision".into(), &name, &format!("{:?} vs {:?}", prev, name));
                }
            }
            rep.evaluations += 1;
        }
    }
    rep.bump("cap200_cases", fam * 4);
    rep.bump("cap200_shortened", fam_short);

    // (4) difference-position sweep: over-long names that differ in exactly ONE character, at EVERY position of the
    // name in turn (so also names sharing a long prefix AND a long suffix), must get different shortened symbols --
    // the digest has to depend on every part of the name.  Production cap and the small caps of (2).
    let mut sweep_cases = 0u64;
    for (cap, base) in [
        (200usize, "pkg::module::submodule::generic_function_name[std::collections::HashMap[Int64, std::string::String], (Int64, Int64)]#".repeat(4)),
        (200usize, "x".repeat(520)),
        (40usize, "abcdefghijklmnopqrstuvwxyz_0123456789".repeat(4)),
        (34usize, "q:[,]ä".repeat(20)),
    ] {
        let chars: Vec<char> = base.chars().collect();
        let mut outputs: HashMap<String, String> = HashMap::new();
        outputs.insert(mangle_name_with_max_len(&base, cap), base.clone());
        for p in 0..chars.len() {
            for repl in ['Q', '_', ':'] {
                if chars[p] == repl {
                    continue;
                }
                let mut v = chars.clone();
                v[p] = repl;
                let name: String = v.into_iter().collect();
                sweep_cases += 1;
                match guarded(|| mangle_name_with_max_len(&name, cap)) {
                    Err(pn) => rep.add(pn.key(), &name, &pn.message),
                    Ok(m) => {
                        if m.len() > cap || !valid_symbol(&m) {
                            rep.add("c19:sweep-invalid".into(), &name, &m);
                        }
                        if let Some(prev) = outputs.insert(m.clone(), name.clone()) {
                            if prev != name {
                                rep.add(
                                    "c19:shortened-collision".into(),
                                    &format!("position {} of {}", p, chars.len()),
                                    &format!("cap {}: two names differing only at character {} -> {}", cap, p, m),
                                );
                            }
                        }
                    }
                }
            }
        }
    }
    rep.evaluations += sweep_cases;
    rep.bump("difference_position_sweep_cases", sweep_cases);
    rep.samples = vec!["a:[".into(), "_5F".into(), "Z,ä😀".into(), format!("{}17", &prefix[..40])];
    rep
}
