//! C18, parts 2 and 4: the program (package) codec and the enumeration of damaged package files.
use std::collections::{BTreeMap, BTreeSet};
use std::io::Write;
use std::path::PathBuf;
use std::sync::Mutex;

use dora_bytecode::{
    decode_program_from_bytes, display_fct, dump, BytecodeReader, FunctionId, Program, TypeParamMode,
};
use dora_frontend::sema::{Sema, SemaCreationParams};

use crate::codec::{model_operand_bytes, normalize};
use crate::pool::{self, guarded, Report};
use crate::Args;

pub fn encode(p: &Program) -> Vec<u8> {
    bincode::encode_to_vec(p, bincode::config::standard()).expect("program serialization failed")
}

/// Text of all function bodies as the repository's own dumper prints them.
pub fn dump_all(p: &Program) -> String {
    let mut out: Vec<u8> = Vec::new();
    for (i, f) in p.functions.iter().enumerate() {
        if let Some(bc) = &f.bytecode {
            let id: FunctionId = i.into();
            writeln!(out, "Bytecode for {}:", display_fct(p, id)).unwrap();
            dump(&mut out, p, bc, TypeParamMode::Unknown).unwrap();
        }
    }
    String::from_utf8_lossy(&out).into_owned()
}

fn first_diff(a: &str, b: &str) -> String {
    let (ab, bb) = (a.as_bytes(), b.as_bytes());
    let n = ab.iter().zip(bb.iter()).take_while(|(x, y)| x == y).count();
    let lo = n.saturating_sub(60);
    let cut = |s: &[u8]| String::from_utf8_lossy(&s[lo.min(s.len())..(n + 60).min(s.len())]).into_owned();
    format!("first difference at byte {} of {}/{}: {:?} vs {:?}", n, ab.len(), bb.len(), cut(ab), cut(bb))
}

static OPCODES_SEEN: Mutex<BTreeMap<&'static str, u64>> = Mutex::new(BTreeMap::new());

/// Every function body of a program: the real reader's view re-encoded by the model equals the bytes.
fn check_bodies(p: &Program, name: &str, rep: &mut Report) {
    let mut seen: BTreeMap<&'static str, u64> = BTreeMap::new();
    let mut functions = 0u64;
    let mut insts = 0u64;
    for (i, f) in p.functions.iter().enumerate() {
        let Some(bc) = &f.bytecode else { continue };
        functions += 1;
        let code = bc.code();
        let mut all: Vec<(usize, u8, &'static str, Vec<u64>)> = Vec::new();
        for (off, opc, inst) in BytecodeReader::new(code) {
            let (n, v) = normalize(inst);
            all.push((off, opc.into(), n, v));
        }
        let starts: BTreeSet<usize> = all.iter().map(|a| a.0).collect();
        for k in 0..all.len() {
            let (off, opc, n, v) = &all[k];
            let end = if k + 1 < all.len() { all[k + 1].0 } else { code.len() };
            *seen.entry(n).or_default() += 1;
            insts += 1;
            if code[*off] != *opc || code[off + 1..end] != model_operand_bytes(n, v)[..] {
                rep.add(
                    format!("c18:program:reader-vs-model:{}", n),
                    &format!("{} function #{} offset {}", name, i, off),
                    &format!("bytes {:?} are read as {} {:?}", &code[*off..end.min(off + 24)], n, &v[..v.len().min(8)]),
                );
            }
            let t = match *n {
                "jump" => Some(off + v[0] as usize),
                "jump_if_false" | "jump_if_true" => Some(off + v[1] as usize),
                "jump_loop" => off.checked_sub(v[0] as usize),
                _ => None,
            };
            if let Some(t) = t {
                if !starts.contains(&t) {
                    rep.add(
                        format!("c18:program:jump-target:{}", n),
                        &format!("{} function #{} offset {}", name, i, off),
                        &format!("target {} is not an instruction start", t),
                    );
                }
            }
        }
    }
    rep.bump("functions_with_bytecode", functions);
    rep.bump("real_instructions_read_back", insts);
    let mut g = OPCODES_SEEN.lock().unwrap();
    for (k, v) in seen {
        *g.entry(k).or_default() += v;
    }
}

fn check_one(name: &str, pkg: &str, src: &str, mode: &str, rep: &mut Report) {
    let b = match std::fs::read(pkg) {
        Ok(b) => b,
        Err(e) => {
            rep.add("c18:machinery:package-unreadable".into(), name, &e.to_string());
            return;
        }
    };
    rep.bump("package_bytes", b.len() as u64);
    let p1 = match decode_program_from_bytes(&b) {
        Ok(p) => p,
        Err(e) => {
            rep.add("c18:program:decode-refused-valid-package".into(), name, &e);
            return;
        }
    };
    let e1 = encode(&p1);
    if e1 != b {
        let n = e1.iter().zip(b.iter()).take_while(|(x, y)| x == y).count();
        rep.add(
            "c18:program:reencode-differs".into(),
            name,
            &format!("encode(decode(file)) differs from the file at byte {} ({} vs {} bytes)", n, e1.len(), b.len()),
        );
    }
    let d1 = format!("{:?}", p1);
    let u1 = dump_all(&p1);
    match decode_program_from_bytes(&e1) {
        Ok(p2) => {
            let d2 = format!("{:?}", p2);
            if d1 != d2 {
                rep.add("c18:program:second-decode-differs".into(), name, &first_diff(&d1, &d2));
            }
            let u2 = dump_all(&p2);
            if u1 != u2 {
                rep.add("c18:program:dump-differs".into(), name, &first_diff(&u1, &u2));
            }
        }
        Err(e) => rep.add("c18:program:decode-refused-own-encoding".into(), name, &e),
    }
    // one byte too many must be refused
    let mut longer = b.clone();
    longer.push(0);
    match decode_program_from_bytes(&longer) {
        Err(_) => rep.bump("trailing_byte_refused", 1),
        Ok(_) => rep.add("c18:program:trailing-byte-accepted".into(), name, "file + one zero byte decodes successfully"),
    }
    check_bodies(&p1, name, rep);
    rep.bump("packages", 1);

    if src.is_empty() {
        return;
    }
    // the program as the front end built it, before any encoding
    let mut params = SemaCreationParams::new().set_program_path(PathBuf::from(src));
    if mode == "boots" {
        params = params.set_boots(true);
    }
    let mut sa = Sema::new(params);
    let ok = dora_frontend::check_program(&mut sa);
    if !ok {
        rep.add("c18:machinery:source-does-not-compile".into(), name, src);
        return;
    }
    let p0 = dora_frontend::emit_program(sa);
    let d0 = format!("{:?}", p0);
    let u0 = dump_all(&p0);
    let b0 = encode(&p0);
    if b0 == b {
        rep.bump("inprocess_bytes_equal_file", 1);
    }
    match decode_program_from_bytes(&b0) {
        Ok(q) => {
            let dq = format!("{:?}", q);
            if dq != d0 {
                rep.add("c18:program:decoded-differs-from-encoded".into(), name, &first_diff(&d0, &dq));
            }
            let uq = dump_all(&q);
            if uq != u0 {
                rep.add("c18:program:dump-differs-from-original".into(), name, &first_diff(&u0, &uq));
            }
            if encode(&q) != b0 {
                rep.add("c18:program:reencode-differs".into(), name, "encode(decode(encode(p))) != encode(p)");
            }
        }
        Err(e) => rep.add("c18:program:decode-refused-own-encoding".into(), name, &e),
    }
    if b0 == b && d0 != d1 {
        rep.add("c18:program:decoded-differs-from-encoded".into(), name, &first_diff(&d0, &d1));
    }
    rep.bump("programs_compared_with_original", 1);
    rep.bump("debug_text_bytes", d0.len() as u64);
}

pub fn run_pkg(args: &Args) -> Report {
    let list = std::fs::read_to_string(args.get("list", "")).expect("list file");
    let entries: Vec<Vec<String>> = list
        .lines()
        .filter(|l| !l.trim().is_empty())
        .map(|l| l.split('\t').map(|s| s.to_string()).collect())
        .collect();
    let mut rep = pool::run_space(
        entries.len() as u64,
        crate::threads(args),
        std::time::Duration::from_secs(args.num("hang-s", 300)),
        |i, rep| {
            let e = &entries[i as usize];
            let (name, pkg, src, mode) = (e[0].as_str(), e[1].as_str(), e.get(2).map(|s| s.as_str()).unwrap_or(""), e.get(3).map(|s| s.as_str()).unwrap_or(""));
            match guarded(|| {
                let mut r = Report::default();
                check_one(name, pkg, src, mode, &mut r);
                r
            }) {
                Ok(r) => rep.merge(r),
                Err(p) => rep.add(format!("c18:program:{}", p.key()), name, &format!("{} at {}", p.message, p.location)),
            }
        },
        |i| entries[i as usize][0].clone(),
    );
    let seen = OPCODES_SEEN.lock().unwrap();
    crate::set_extra("opcodes_seen", seen.iter().map(|(k, v)| format!("{}={}", k, v)).collect::<Vec<_>>().join(","));
    rep.bump("distinct_opcodes_in_real_code", seen.len() as u64);
    for e in entries.iter().take(4) {
        rep.samples.push(e[0].clone());
    }
    rep
}

// ------------------------------------------------------------------------------------------------
// damage

fn norm_msg(m: &str) -> String {
    let mut s: String = m.chars().map(|c| if c.is_ascii_digit() { '#' } else { c }).collect();
    while s.contains("##") {
        s = s.replace("##", "#");
    }
    s.chars().take(90).collect()
}

/// The declared set of indices for one (package, mode).
pub fn damage_indices(len: usize, mode: &str, head: usize, tail: usize, stride: usize) -> Vec<u64> {
    let mut v = Vec::new();
    match mode {
        // index = length of the kept prefix, strictly shorter than the file
        "trunc" => {
            for l in 0..len {
                if l < head || l + tail >= len || l % stride == 0 {
                    v.push(l as u64);
                }
            }
        }
        // index = bit number (byte * 8 + bit)
        "flip" => {
            for bit in 0..len * 8 {
                let byte = bit / 8;
                if byte < head || byte + tail >= len || bit % stride == 0 {
                    v.push(bit as u64);
                }
            }
        }
        _ => panic!("unknown damage mode"),
    }
    v
}

pub fn damaged(orig: &[u8], mode: &str, idx: u64) -> Vec<u8> {
    match mode {
        "trunc" => orig[..idx as usize].to_vec(),
        "flip" => {
            let mut b = orig.to_vec();
            b[(idx / 8) as usize] ^= 1 << (idx % 8);
            b
        }
        _ => panic!("unknown damage mode"),
    }
}

/// For replays: where and how the re-encoding of successfully decoded damaged bytes differs.
pub fn explain(bytes: &[u8]) -> String {
    match guarded(|| match decode_program_from_bytes(bytes) {
        Err(e) => format!("decode error: {}", e),
        Ok(p) => {
            let e = encode(&p);
            if e == bytes {
                "decodes; re-encoding reproduces the bytes".to_string()
            } else {
                let n = e.iter().zip(bytes.iter()).take_while(|(x, y)| x == y).count();
                let lo = n.saturating_sub(8);
                format!(
                    "decodes; re-encoding differs at byte {} (lengths {} -> {}): input {:?} re-encoded {:?}",
                    n,
                    bytes.len(),
                    e.len(),
                    &bytes[lo..(n + 12).min(bytes.len())],
                    &e[lo..(n + 12).min(e.len())]
                )
            }
        }
    }) {
        Ok(c) => c,
        Err(p) => format!("panic: {} at {} in {}", p.message, p.location, p.function),
    }
}

fn minimal_varint(val: u128) -> Vec<u8> {
    // the variable-length integer format of the serialization library (little endian payloads)
    if val < 251 {
        vec![val as u8]
    } else if val < 1 << 16 {
        let mut v = vec![251];
        v.extend_from_slice(&(val as u16).to_le_bytes());
        v
    } else if val < 1 << 32 {
        let mut v = vec![252];
        v.extend_from_slice(&(val as u32).to_le_bytes());
        v
    } else if val < 1 << 64 {
        let mut v = vec![253];
        v.extend_from_slice(&(val as u64).to_le_bytes());
        v
    } else {
        let mut v = vec![254];
        v.extend_from_slice(&val.to_le_bytes());
        v
    }
}

/// True iff the re-encoding `c` equals the input `b` except that ONE integer near byte `around`, written in
/// `b` with a wider form than its value needs (marker + payload), appears in `c` in its minimal form.
/// Then `b` denotes exactly the program that was decoded; only the spelling of one number is not canonical.
pub fn explained_by_noncanonical_integer(b: &[u8], c: &[u8], around: usize) -> bool {
    if b.is_empty() {
        return false;
    }
    // (the marker may also follow the flipped byte: a former marker whose payload began with a marker value)
    for k in around.saturating_sub(16)..=(around + 8).min(b.len() - 1) {
        let w = match b[k] {
            251 => 2,
            252 => 4,
            253 => 8,
            254 => 16,
            _ => continue,
        };
        if k + 1 + w > b.len() {
            continue;
        }
        let mut val: u128 = 0;
        for (j, byte) in b[k + 1..k + 1 + w].iter().enumerate() {
            val |= (*byte as u128) << (8 * j);
        }
        let min = minimal_varint(val);
        if min.len() >= 1 + w {
            continue;
        }
        if c.len() + (1 + w) == b.len() + min.len()
            && c[..k] == b[..k]
            && c[k..k + min.len()] == min[..]
            && c[k + min.len()..] == b[k + 1 + w..]
        {
            return true;
        }
    }
    false
}

pub fn classify(bytes: &[u8], around: Option<usize>) -> String {
    match guarded(|| match decode_program_from_bytes(bytes) {
        Err(e) => format!("err:{}", norm_msg(&e)),
        Ok(p) => {
            let c = encode(&p);
            if c == bytes {
                "ok-same".to_string()
            } else if around.map(|a| explained_by_noncanonical_integer(bytes, &c, a)).unwrap_or(false) {
                "ok-noncanonical".to_string()
            } else {
                "ok-diff".to_string()
            }
        }
    }) {
        Ok(c) => c,
        // the decoder has one entry point: the message identifies the class
        Err(p) => format!("panic:{}", p.message.lines().next().unwrap_or("").chars().take(60).map(|c| if c.is_ascii_digit() { '#' } else { c }).collect::<String>()),
    }
}

/// Single-threaded on purpose: one process per shard, so that an allocation failure (abort) of the
/// decoder takes down only this shard; the parent reads the progress file to learn the culprit.
pub fn run_damage(args: &Args) -> Report {
    let pkg = args.get("pkg", "");
    let mode = args.get("mode", "trunc");
    let orig = std::fs::read(&pkg).expect("package file");
    let mut rep = Report::default();
    let explicit = args.get("indices", "");
    let indices: Vec<u64> = if !explicit.is_empty() {
        explicit.split(',').map(|s| s.parse().expect("index")).collect()
    } else {
        let all = damage_indices(
            orig.len(),
            &mode,
            args.num("head", 8192) as usize,
            args.num("tail", 8192) as usize,
            args.num("stride", 64).max(1) as usize,
        );
        let (k, n) = (args.num("shard", 0), args.num("shards", 1));
        all.into_iter().enumerate().filter(|(i, _)| (*i as u64) % n == k).map(|(_, x)| x).collect()
    };
    let start_after: Option<u64> = args.map.get("start-after").map(|s| s.parse().expect("start-after"));
    let progress = args.get("progress", "");
    let out_path = args.get("out", "");
    let mut out = if out_path.is_empty() {
        None
    } else {
        Some(std::fs::OpenOptions::new().create(true).append(true).open(&out_path).expect("results file"))
    };
    let prog = if progress.is_empty() { None } else { Some(std::fs::File::create(&progress).expect("progress file")) };
    let mut started = start_after.is_none();
    let mut classes: BTreeMap<String, (u64, u64)> = BTreeMap::new();
    for idx in indices {
        if !started {
            if Some(idx) == start_after {
                started = true;
            }
            continue;
        }
        if let Some(f) = prog.as_ref() {
            use std::os::unix::fs::FileExt;
            f.write_at(format!("{:<20}", idx).as_bytes(), 0).ok();
        }
        let bytes = damaged(&orig, &mode, idx);
        let cls = classify(&bytes, if mode == "flip" { Some((idx / 8) as usize) } else { None });
        if args.map.contains_key("explain") {
            eprintln!("{} {} {}: {} :: {}", pkg, mode, idx, cls, explain(&bytes));
        }
        if let Some(f) = out.as_mut() {
            // unbuffered: survives an abort in a later case
            f.write_all(format!("{}\t{}\n", idx, cls).as_bytes()).ok();
        }
        let e = classes.entry(cls).or_insert((0, idx));
        e.0 += 1;
        rep.evaluations += 1;
    }
    if let Some(f) = prog.as_ref() {
        use std::os::unix::fs::FileExt;
        f.write_at(format!("{:<20}", "done").as_bytes(), 0).ok();
    }
    for (cls, (n, first)) in classes {
        rep.bump(&format!("class {}", cls), n);
        if cls.starts_with("panic:") || cls == "ok-diff" {
            rep.add(format!("c18:decode:{}", cls), &format!("{} {} {}", pkg, mode, first), &cls);
        }
    }
    rep
}
