//! The bounded text space shared by the explorers: lexeme alphabets, syntactic contexts, enumeration.
/// One lexeme per token kind of dora-parser/src/token.rs plus lexer-error shapes.
pub const SIGMA: &[&str] = &[
    // literals
    "\"s\"", "\"a${", "}b\"", "'c'", "1", "1.5", "x", "true", "false",
    // big shapes
    "class", "enum", "struct", "trait", "impl", "mod", "use", "package", "extern",
    // small shapes
    "fn", "let", "mut", "const",
    // control flow
    "return", "if", "else", "while", "for", "in", "break", "continue", "match",
    // qualifiers
    "self", "super", "pub", "static", "mutating", "as", "is",
    // operators
    "+", "-", "*", "/", "%", "!", "|", "&", "^", "&&", "||",
    "==", "!=", "===", "!==", "<", "<=", ">", ">=",
    "+=", "-=", "*=", "/=", "%=", "|=", "&=", "^=", ">>=", ">>>=", "<<=",
    ">>", ">>>", "<<",
    "=", ",", ";", ".", "..", "...", ":", "::", "@", "->", "=>",
    "(", ")", "[", "]", "{", "}",
    "type", "where", "Self", "_", "ref",
    // trivia
    "//c\n", "/*c*/", "//\u{e4}\u{20ac}\n", "/*\u{1f600}*/",
    // unknown / lexer errors / non-ascii
    "\\", "$", "#", "\"u", "'", "/*", "ä", "1i32", "'\\q'", "0x", "1.5f32", "Foo", "😀",
];

/// Smaller alphabet of delimiters / recovery symbols for longer strings.
pub const DELIMS: &[&str] = &["(", ")", "{", "}", "[", "]", ",", ";", ":", "=>", "|", "\"${", "x", "."];

/// The "interesting" sub-alphabet used for longer strings in expensive oracles.
pub const CORE: &[&str] = &[
    "x", "1", "\"s\"", "true", "fn", "let", "mut", "if", "else", "match", "for", "in", "while", "return",
    "class", "struct", "enum", "impl", "trait", "use", "mod", "pub", "self", "Self", "as", "is",
    "+", "-", "!", "|", "||", "<", ">", "=", ",", ";", ".", "..", ":", "::", "@", "->", "=>",
    "(", ")", "[", "]", "{", "}", "_", "ref", "type", "where", "const", "static",
];

pub const CONTEXTS: &[(&str, &str, &str)] = &[
    ("top", "", ""),
    ("fnbody", "fn f() { ", " }"),
    ("matcharms", "fn f() { match x { ", " } }"),
    ("classbody", "class C { ", " }"),
    ("type", "fn f(a: ", ") {}"),
    ("pattern", "fn f() { let ", " = 1; }"),
    ("args", "fn f() { g(", "); }"),
    ("implbody", "impl T for X { ", " }"),
    ("use", "use ", ";"),
    ("typeparams", "fn f[", "]() {}"),
    ("enumbody", "enum E { ", " }"),
    ("traitbody", "trait T { ", " }"),
];

pub const SEPS: &[&str] = &[" ", "\n", "\r\n", "\r", "\t", ""];

pub struct Space {
    pub alphabet: Vec<String>,
    /// blocks: (length, context index, separator index, first global index)
    pub blocks: Vec<(usize, usize, usize, u64)>,
    pub total: u64,
}

impl Space {
    pub fn new(alphabet: &[&str], max_len: usize, contexts: &[usize], seps: &[usize], min_len: usize) -> Space {
        let mut blocks = Vec::new();
        let mut total: u64 = 0;
        let n = alphabet.len() as u64;
        for len in min_len..=max_len {
            for &c in contexts {
                for &s in seps {
                    if len < 2 && s != seps[0] {
                        continue; // separators are irrelevant below two lexemes
                    }
                    blocks.push((len, c, s, total));
                    total += n.pow(len as u32);
                }
            }
        }
        Space { alphabet: alphabet.iter().map(|s| s.to_string()).collect(), blocks, total }
    }

    pub fn text(&self, index: u64) -> (String, String) {
        let bi = match self.blocks.binary_search_by(|b| b.3.cmp(&index)) {
            Ok(i) => i,
            Err(i) => i - 1,
        };
        let (len, c, s, first) = self.blocks[bi];
        let mut k = index - first;
        let n = self.alphabet.len() as u64;
        let mut parts: Vec<&str> = Vec::with_capacity(len);
        for _ in 0..len {
            parts.push(&self.alphabet[(k % n) as usize]);
            k /= n;
        }
        parts.reverse();
        let inner = parts.join(SEPS[s]);
        let (name, pre, post) = CONTEXTS[c];
        (format!("{}{}{}", pre, inner, post), name.to_string())
    }
}

