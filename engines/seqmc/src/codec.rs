//! C18, part 1: the bytecode codec.  Every `emit_*` method of the real `BytecodeWriter` is driven over
//! boundary operands, every ordered pair of instruction kinds, jumps over padding, jump tables, constant
//! pools and register files on both sides of every width boundary; the result of `generate()` is sent
//! through the bincode encoding of `BytecodeBody`, read back with the real `BytecodeReader` and compared
//! with an independent model (instruction kinds, operand values, offsets, jump targets, pool contents).
use std::collections::BTreeSet;

use dora_bytecode::{
    BytecodeBody, BytecodeInstruction, BytecodeOffset, BytecodeReader, BytecodeTraitType, BytecodeType,
    BytecodeTypeArray, BytecodeWriter, ClassId, ConstId, ConstPoolEntry, ConstPoolIdx, EnumId, FunctionId,
    GlobalId, Label, Location, Register, StructId, TraitId,
};

use crate::pool::{self, guarded, Report};
use crate::Args;

// ------------------------------------------------------------------------------------------------
// the case language

#[derive(Clone, Debug, PartialEq)]
pub enum Item {
    /// plain instruction; vals in the order the bytes are laid out
    Op { name: String, vals: Vec<u64> },
    /// invoke-like instruction: dest, pool index, `nargs` arguments derived from `argv`
    Invoke { name: String, dest: u64, idx: u64, nargs: u64, argv: u64 },
    /// const_char/int32/int64/float32/float64/string: value goes to the pool, instruction gets its index
    ConstVal { name: String, reg: u64, val: i128 },
    JumpFwd { name: String, reg: Option<u64>, target: usize },
    JumpLoop { target: usize },
    Switch { reg: u64, targets: Vec<usize>, default: usize },
    /// exactly n bytes of filler instructions
    Pad(usize),
    /// n Int32 filler constants
    Fill(usize),
    /// one constant-pool entry of a kind, parameterised by n (id value / length)
    Pool { kind: String, n: u64 },
    /// n registers of rotating types
    Regs(usize),
}

pub fn arg_of(argv: u64, i: u64) -> u64 {
    // distinct consecutive values so that reordered/dropped arguments are seen, staying inside u32
    if argv >= (1 << 31) { argv - (i % 1024) } else { argv + (i % 1024) }
}

pub fn case_text(items: &[Item]) -> String {
    let mut parts = Vec::new();
    for it in items {
        parts.push(match it {
            Item::Op { name, vals } => {
                let mut s = name.clone();
                for v in vals {
                    s.push_str(&format!(" {}", v));
                }
                s
            }
            Item::Invoke { name, dest, idx, nargs, argv } => format!("{} {} {} args={}x{}", name, dest, idx, nargs, argv),
            Item::ConstVal { name, reg, val } => format!("{} {} ={}", name, reg, val),
            Item::JumpFwd { name, reg: Some(r), target } => format!("{} {} ->{}", name, r, target),
            Item::JumpFwd { name, reg: None, target } => format!("{} ->{}", name, target),
            Item::JumpLoop { target } => format!("jump_loop ->{}", target),
            Item::Switch { reg, targets, default } => format!(
                "switch {} ->{}/{}",
                reg,
                targets.iter().map(|t| t.to_string()).collect::<Vec<_>>().join(","),
                default
            ),
            Item::Pad(n) => format!("pad {}", n),
            Item::Fill(n) => format!("fill {}", n),
            Item::Pool { kind, n } => format!("pool {} {}", kind, n),
            Item::Regs(n) => format!("regs {}", n),
        });
    }
    parts.join(" ; ")
}

pub fn parse_case(text: &str) -> Result<Vec<Item>, String> {
    let mut items = Vec::new();
    for part in text.split(';') {
        let toks: Vec<&str> = part.split_whitespace().collect();
        if toks.is_empty() {
            continue;
        }
        let name = toks[0].to_string();
        let num = |s: &str| -> Result<u64, String> { s.parse::<u64>().map_err(|_| format!("bad number {:?}", s)) };
        let item = match name.as_str() {
            "pad" => Item::Pad(num(toks[1])? as usize),
            "fill" => Item::Fill(num(toks[1])? as usize),
            "regs" => Item::Regs(num(toks[1])? as usize),
            "pool" => Item::Pool { kind: toks[1].to_string(), n: num(toks[2])? },
            "jump_loop" => Item::JumpLoop { target: num(toks[1].trim_start_matches("->"))? as usize },
            "jump" => Item::JumpFwd { name, reg: None, target: num(toks[1].trim_start_matches("->"))? as usize },
            "jump_if_true" | "jump_if_false" => Item::JumpFwd {
                name,
                reg: Some(num(toks[1])?),
                target: num(toks[2].trim_start_matches("->"))? as usize,
            },
            "switch" => {
                let spec = toks[2].trim_start_matches("->");
                let (ts, d) = spec.split_once('/').ok_or("switch needs ->a,b/d")?;
                let mut targets = Vec::new();
                for t in ts.split(',').filter(|t| !t.is_empty()) {
                    targets.push(num(t)? as usize);
                }
                Item::Switch { reg: num(toks[1])?, targets, default: num(d)? as usize }
            }
            _ if toks.len() == 3 && toks[2].starts_with('=') => Item::ConstVal {
                name,
                reg: num(toks[1])?,
                val: toks[2][1..].parse::<i128>().map_err(|_| "bad value".to_string())?,
            },
            _ if toks.len() == 4 && toks[3].starts_with("args=") => {
                let (n, v) = toks[3][5..].split_once('x').ok_or("args=NxV")?;
                Item::Invoke { name, dest: num(toks[1])?, idx: num(toks[2])?, nargs: num(n)?, argv: num(v)? }
            }
            _ => {
                let mut vals = Vec::new();
                for t in &toks[1..] {
                    vals.push(num(t)?);
                }
                Item::Op { name, vals }
            }
        };
        items.push(item);
    }
    Ok(items)
}

// ------------------------------------------------------------------------------------------------
// the method table (what this harness drives); shapes give the operand kinds

#[derive(Copy, Clone, PartialEq, Debug)]
pub enum Shape {
    R3,
    R2,
    R1,
    R2I,
    NewTrait,
    R1G,
    R1C,
    R1U8,
    ConstVal,
    Invoke,
    JumpFwd(bool),
    JumpLoop,
    LoopStart,
    Switch,
}

pub const METHODS: &[(&str, Shape)] = &[
    ("add", Shape::R3), ("and", Shape::R3), ("or", Shape::R3), ("xor", Shape::R3), ("div", Shape::R3),
    ("mod", Shape::R3), ("checked_add", Shape::R3), ("checked_sub", Shape::R3), ("checked_mul", Shape::R3),
    ("checked_div", Shape::R3), ("checked_mod", Shape::R3), ("mul", Shape::R3), ("shl", Shape::R3),
    ("shr", Shape::R3), ("sar", Shape::R3), ("sub", Shape::R3), ("test_identity", Shape::R3),
    ("test_eq", Shape::R3), ("test_ne", Shape::R3), ("test_gt", Shape::R3), ("test_ge", Shape::R3),
    ("test_lt", Shape::R3), ("test_le", Shape::R3), ("store_array", Shape::R3), ("load_array", Shape::R3),
    ("get_array_ref", Shape::R3),
    ("not", Shape::R2), ("checked_neg", Shape::R2), ("neg", Shape::R2), ("mov", Shape::R2),
    ("array_length", Shape::R2), ("store_ref", Shape::R2), ("load_ref", Shape::R2), ("get_register_ref", Shape::R2),
    ("const_true", Shape::R1), ("const_false", Shape::R1), ("ret", Shape::R1),
    ("load_field", Shape::R2I), ("store_field", Shape::R2I), ("load_enum_element", Shape::R2I),
    ("load_enum_variant", Shape::R2I), ("get_field_ref", Shape::R2I), ("new_array", Shape::R2I),
    ("new_trait_object", Shape::NewTrait),
    ("load_global", Shape::R1G), ("store_global", Shape::R1G), ("get_global_ref", Shape::R1G),
    ("load_const", Shape::R1C),
    ("const_uint8", Shape::R1U8),
    ("const_char", Shape::ConstVal), ("const_int32", Shape::ConstVal), ("const_int64", Shape::ConstVal),
    ("const_float32", Shape::ConstVal), ("const_float64", Shape::ConstVal), ("const_string", Shape::ConstVal),
    ("invoke_direct", Shape::Invoke), ("invoke_virtual", Shape::Invoke), ("invoke_static", Shape::Invoke),
    ("invoke_generic_static", Shape::Invoke), ("invoke_generic_direct", Shape::Invoke),
    ("new_object", Shape::Invoke), ("new_tuple", Shape::Invoke), ("new_enum", Shape::Invoke),
    ("new_struct", Shape::Invoke),
    ("jump_if_false", Shape::JumpFwd(true)), ("jump_if_true", Shape::JumpFwd(true)), ("jump", Shape::JumpFwd(false)),
    ("jump_loop", Shape::JumpLoop), ("loop_start", Shape::LoopStart), ("switch", Shape::Switch),
];

fn shape_of(name: &str) -> Option<Shape> {
    METHODS.iter().find(|(n, _)| *n == name).map(|(_, s)| *s)
}

/// Calls the real writer.  Returns false for an unknown method name.
fn emit_plain(w: &mut BytecodeWriter, name: &str, v: &[u64]) -> bool {
    let r = |i: usize| Register(v[i] as usize);
    let ix = |i: usize| ConstPoolIdx(v[i] as u32);
    let g = |i: usize| GlobalId::from(v[i] as usize);
    match name {
        "add" => w.emit_add(r(0), r(1), r(2)),
        "and" => w.emit_and(r(0), r(1), r(2)),
        "or" => w.emit_or(r(0), r(1), r(2)),
        "xor" => w.emit_xor(r(0), r(1), r(2)),
        "div" => w.emit_div(r(0), r(1), r(2)),
        "mod" => w.emit_mod(r(0), r(1), r(2)),
        "checked_add" => w.emit_checked_add(r(0), r(1), r(2)),
        "checked_sub" => w.emit_checked_sub(r(0), r(1), r(2)),
        "checked_mul" => w.emit_checked_mul(r(0), r(1), r(2)),
        "checked_div" => w.emit_checked_div(r(0), r(1), r(2)),
        "checked_mod" => w.emit_checked_mod(r(0), r(1), r(2)),
        "mul" => w.emit_mul(r(0), r(1), r(2)),
        "shl" => w.emit_shl(r(0), r(1), r(2)),
        "shr" => w.emit_shr(r(0), r(1), r(2)),
        "sar" => w.emit_sar(r(0), r(1), r(2)),
        "sub" => w.emit_sub(r(0), r(1), r(2)),
        "test_identity" => w.emit_test_identity(r(0), r(1), r(2)),
        "test_eq" => w.emit_test_eq(r(0), r(1), r(2)),
        "test_ne" => w.emit_test_ne(r(0), r(1), r(2)),
        "test_gt" => w.emit_test_gt(r(0), r(1), r(2)),
        "test_ge" => w.emit_test_ge(r(0), r(1), r(2)),
        "test_lt" => w.emit_test_lt(r(0), r(1), r(2)),
        "test_le" => w.emit_test_le(r(0), r(1), r(2)),
        "store_array" => w.emit_store_array(r(0), r(1), r(2)),
        "load_array" => w.emit_load_array(r(0), r(1), r(2)),
        "get_array_ref" => w.emit_get_array_ref(r(0), r(1), r(2)),
        "not" => w.emit_not(r(0), r(1)),
        "checked_neg" => w.emit_checked_neg(r(0), r(1)),
        "neg" => w.emit_neg(r(0), r(1)),
        "mov" => w.emit_mov(r(0), r(1)),
        "array_length" => w.emit_array_length(r(0), r(1)),
        "store_ref" => w.emit_store_ref(r(0), r(1)),
        "load_ref" => w.emit_load_ref(r(0), r(1)),
        "get_register_ref" => w.emit_get_register_ref(r(0), r(1)),
        "const_true" => w.emit_const_true(r(0)),
        "const_false" => w.emit_const_false(r(0)),
        "ret" => w.emit_ret(r(0)),
        "load_field" => w.emit_load_field(r(0), r(1), ix(2)),
        "store_field" => w.emit_store_field(r(0), r(1), ix(2)),
        "load_enum_element" => w.emit_load_enum_element(r(0), r(1), ix(2)),
        "load_enum_variant" => w.emit_load_enum_variant(r(0), r(1), ix(2)),
        "get_field_ref" => w.emit_get_field_ref(r(0), r(1), ix(2)),
        "new_array" => w.emit_new_array(r(0), r(1), ix(2)),
        // vals are in byte order (dest, src, idx); the method takes (dest, idx, src)
        "new_trait_object" => w.emit_new_trait_object(r(0), ix(2), r(1)),
        "load_global" => w.emit_load_global(r(0), g(1)),
        "store_global" => w.emit_store_global(r(0), g(1)),
        "get_global_ref" => w.emit_get_global_ref(r(0), g(1)),
        "load_const" => w.emit_load_const(r(0), ConstId::from(v[1] as usize)),
        "const_uint8" => w.emit_const_uint8(r(0), v[1] as u8),
        "loop_start" => w.emit_loop_start(),
        _ => return false,
    }
    true
}

fn emit_invoke(w: &mut BytecodeWriter, name: &str, dest: Register, idx: ConstPoolIdx, args: &[Register]) -> bool {
    match name {
        "invoke_direct" => w.emit_invoke_direct(dest, idx, args),
        "invoke_virtual" => w.emit_invoke_virtual(dest, idx, args),
        "invoke_static" => w.emit_invoke_static(dest, idx, args),
        "invoke_generic_static" => w.emit_invoke_generic_static(dest, idx, args),
        "invoke_generic_direct" => w.emit_invoke_generic_direct(dest, idx, args),
        "new_object" => w.emit_new_object(dest, idx, args),
        "new_tuple" => w.emit_new_tuple(dest, idx, args),
        "new_enum" => w.emit_new_enum(dest, idx, args),
        "new_struct" => w.emit_new_struct(dest, idx, args),
        _ => return false,
    }
    true
}

fn const_entry(name: &str, val: i128) -> Option<ConstPoolEntry> {
    Some(match name {
        "const_char" => ConstPoolEntry::Char(char::from_u32(val as u32)?),
        "const_int32" => ConstPoolEntry::Int32(val as i32),
        "const_int64" => ConstPoolEntry::Int64(val as i64),
        "const_float32" => ConstPoolEntry::Float32(f32::from_bits(val as u32)),
        "const_float64" => ConstPoolEntry::Float64(f64::from_bits(val as u64)),
        "const_string" => ConstPoolEntry::String(make_string(val as usize)),
        _ => return None,
    })
}

fn emit_const(w: &mut BytecodeWriter, name: &str, reg: Register, val: i128) -> bool {
    match name {
        "const_char" => match char::from_u32(val as u32) {
            Some(c) => w.emit_const_char(reg, c),
            None => return false,
        },
        "const_int32" => w.emit_const_int32(reg, val as i32),
        "const_int64" => w.emit_const_int64(reg, val as i64),
        "const_float32" => w.emit_const_float32(reg, f32::from_bits(val as u32)),
        "const_float64" => w.emit_const_float64(reg, f64::from_bits(val as u64)),
        "const_string" => w.emit_const_string(reg, make_string(val as usize)),
        _ => return false,
    }
    true
}

fn make_string(len: usize) -> String {
    // ASCII plus a 2-byte and a 4-byte character at the front when there is room; byte length == len
    let mut s = String::with_capacity(len);
    if len >= 6 {
        s.push('\u{e4}');
        s.push('\u{1f600}');
    }
    while s.len() < len {
        s.push((b'a' + (s.len() % 26) as u8) as char);
    }
    s
}

pub const POOL_KINDS: &[&str] = &[
    "string", "float32", "float64", "int32", "int64", "char", "class", "class_field", "fct",
    "trait_object_method", "generic", "enum", "enum_variant", "enum_element", "struct", "struct_field",
    "trait_object", "tuple_element", "tuple",
];

fn some_type(n: u64) -> BytecodeType {
    let id = (n & 0xffff_ffff) as usize;
    match n % 9 {
        0 => BytecodeType::Int64,
        1 => BytecodeType::Class(ClassId::from(id), BytecodeTypeArray::one(BytecodeType::TypeParam(n as u32))),
        2 => BytecodeType::Tuple(BytecodeTypeArray::new(vec![BytecodeType::Bool, BytecodeType::Float32])),
        3 => BytecodeType::Enum(EnumId::from(id), BytecodeTypeArray::empty()),
        4 => BytecodeType::Struct(StructId::from(id), BytecodeTypeArray::one(BytecodeType::UInt8)),
        5 => BytecodeType::TraitObject(
            TraitId::from(id),
            BytecodeTypeArray::one(BytecodeType::Char),
            BytecodeTypeArray::one(BytecodeType::Unit),
        ),
        6 => BytecodeType::Ref(Box::new(BytecodeType::Struct(StructId::from(id), BytecodeTypeArray::empty()))),
        7 => BytecodeType::Float64,
        _ => BytecodeType::Address,
    }
}

fn pool_entry(kind: &str, n: u64) -> Option<ConstPoolEntry> {
    let id = (n & 0xffff_ffff) as usize;
    let n32 = (n & 0xffff_ffff) as u32;
    let tys = || BytecodeTypeArray::new(vec![some_type(n), some_type(n + 1)]);
    Some(match kind {
        "string" => ConstPoolEntry::String(make_string((n as usize).min(1 << 22))),
        "float32" => ConstPoolEntry::Float32(f32::from_bits(n32)),
        "float64" => ConstPoolEntry::Float64(f64::from_bits(n.wrapping_mul(0x0001_0001_0001_0001))),
        "int32" => ConstPoolEntry::Int32(n32 as i32),
        "int64" => ConstPoolEntry::Int64((n as i64).wrapping_mul(-4_294_967_297)),
        "char" => ConstPoolEntry::Char(char::from_u32(n32 % 0x11_0000).unwrap_or('\u{fffd}')),
        "class" => ConstPoolEntry::Class(ClassId::from(id), tys()),
        "class_field" => ConstPoolEntry::ClassField(ClassId::from(id), tys(), n32),
        "fct" => ConstPoolEntry::Fct(FunctionId::from(id), tys()),
        "trait_object_method" => ConstPoolEntry::TraitObjectMethod(some_type(n), FunctionId::from(id)),
        "generic" => ConstPoolEntry::Generic {
            object_type: some_type(n),
            trait_ty: BytecodeTraitType {
                trait_id: TraitId::from(id),
                type_params: tys(),
                bindings: vec![(dora_bytecode::AliasId::from(id), some_type(n + 2))],
            },
            fct_id: FunctionId::from(id),
            fct_type_params: tys(),
        },
        "enum" => ConstPoolEntry::Enum(EnumId::from(id), tys()),
        "enum_variant" => ConstPoolEntry::EnumVariant(EnumId::from(id), tys(), n32),
        "enum_element" => ConstPoolEntry::EnumElement(EnumId::from(id), tys(), n32, n32 ^ 0x5555),
        "struct" => ConstPoolEntry::Struct(StructId::from(id), tys()),
        "struct_field" => ConstPoolEntry::StructField(StructId::from(id), tys(), n32),
        "trait_object" => ConstPoolEntry::TraitObject { trait_ty: some_type(n + 5), actual_object_ty: some_type(n + 1) },
        "tuple_element" => ConstPoolEntry::TupleElement(some_type(n + 2), n32),
        "tuple" => ConstPoolEntry::Tuple(BytecodeTypeArray::new(
            (0..(n as usize).min(1 << 17)).map(|i| some_type(i as u64)).collect(),
        )),
        _ => return None,
    })
}

// ------------------------------------------------------------------------------------------------
// the independent model: LEB128 lengths and expected read-back

pub fn leb_len(v: u64) -> usize {
    let mut n = 1;
    let mut v = v >> 7;
    while v != 0 {
        n += 1;
        v >>= 7;
    }
    n
}

pub fn leb_bytes(mut v: u64, out: &mut Vec<u8>) {
    loop {
        let b = (v & 0x7f) as u8;
        v >>= 7;
        if v != 0 {
            out.push(b | 0x80);
        } else {
            out.push(b);
            break;
        }
    }
}

#[derive(Clone, Debug, PartialEq)]
pub struct RInst {
    pub off: usize,
    pub name: &'static str,
    pub vals: Vec<u64>,
}

fn regs3(d: Register, a: Register, b: Register) -> Vec<u64> {
    vec![d.0 as u64, a.0 as u64, b.0 as u64]
}
fn regs2(d: Register, a: Register) -> Vec<u64> {
    vec![d.0 as u64, a.0 as u64]
}
fn inv(d: Register, i: ConstPoolIdx, args: Vec<Register>) -> Vec<u64> {
    let mut v = vec![d.0 as u64, i.0 as u64, args.len() as u64];
    v.extend(args.iter().map(|r| r.0 as u64));
    v
}

/// Normal form of a read-back instruction: snake-case kind name + operand values in byte order.
pub fn normalize(inst: BytecodeInstruction) -> (&'static str, Vec<u64>) {
    use BytecodeInstruction as I;
    match inst {
        I::Add { dest, lhs, rhs } => ("add", regs3(dest, lhs, rhs)),
        I::Sub { dest, lhs, rhs } => ("sub", regs3(dest, lhs, rhs)),
        I::Neg { dest, src } => ("neg", regs2(dest, src)),
        I::Mul { dest, lhs, rhs } => ("mul", regs3(dest, lhs, rhs)),
        I::Div { dest, lhs, rhs } => ("div", regs3(dest, lhs, rhs)),
        I::Mod { dest, lhs, rhs } => ("mod", regs3(dest, lhs, rhs)),
        I::CheckedAdd { dest, lhs, rhs } => ("checked_add", regs3(dest, lhs, rhs)),
        I::CheckedSub { dest, lhs, rhs } => ("checked_sub", regs3(dest, lhs, rhs)),
        I::CheckedNeg { dest, src } => ("checked_neg", regs2(dest, src)),
        I::CheckedMul { dest, lhs, rhs } => ("checked_mul", regs3(dest, lhs, rhs)),
        I::CheckedDiv { dest, lhs, rhs } => ("checked_div", regs3(dest, lhs, rhs)),
        I::CheckedMod { dest, lhs, rhs } => ("checked_mod", regs3(dest, lhs, rhs)),
        I::And { dest, lhs, rhs } => ("and", regs3(dest, lhs, rhs)),
        I::Or { dest, lhs, rhs } => ("or", regs3(dest, lhs, rhs)),
        I::Xor { dest, lhs, rhs } => ("xor", regs3(dest, lhs, rhs)),
        I::Not { dest, src } => ("not", regs2(dest, src)),
        I::Shl { dest, lhs, rhs } => ("shl", regs3(dest, lhs, rhs)),
        I::Shr { dest, lhs, rhs } => ("shr", regs3(dest, lhs, rhs)),
        I::Sar { dest, lhs, rhs } => ("sar", regs3(dest, lhs, rhs)),
        I::Mov { dest, src } => ("mov", regs2(dest, src)),
        I::LoadEnumElement { dest, src, idx } => ("load_enum_element", vec![dest.0 as u64, src.0 as u64, idx.0 as u64]),
        I::LoadEnumVariant { dest, src, idx } => ("load_enum_variant", vec![dest.0 as u64, src.0 as u64, idx.0 as u64]),
        I::LoadField { dest, obj, field } => ("load_field", vec![dest.0 as u64, obj.0 as u64, field.0 as u64]),
        I::StoreField { src, obj, field } => ("store_field", vec![src.0 as u64, obj.0 as u64, field.0 as u64]),
        I::LoadGlobal { dest, global_id } => ("load_global", vec![dest.0 as u64, global_id.index() as u64]),
        I::StoreGlobal { src, global_id } => ("store_global", vec![src.0 as u64, global_id.index() as u64]),
        I::LoadConst { dest, const_id } => ("load_const", vec![dest.0 as u64, const_id.index() as u64]),
        I::ConstTrue { dest } => ("const_true", vec![dest.0 as u64]),
        I::ConstFalse { dest } => ("const_false", vec![dest.0 as u64]),
        I::ConstUInt8 { dest, value } => ("const_uint8", vec![dest.0 as u64, value as u64]),
        I::ConstChar { dest, idx } => ("const_char", vec![dest.0 as u64, idx.0 as u64]),
        I::ConstInt32 { dest, idx } => ("const_int32", vec![dest.0 as u64, idx.0 as u64]),
        I::ConstInt64 { dest, idx } => ("const_int64", vec![dest.0 as u64, idx.0 as u64]),
        I::ConstFloat32 { dest, idx } => ("const_float32", vec![dest.0 as u64, idx.0 as u64]),
        I::ConstFloat64 { dest, idx } => ("const_float64", vec![dest.0 as u64, idx.0 as u64]),
        I::ConstString { dest, idx } => ("const_string", vec![dest.0 as u64, idx.0 as u64]),
        I::TestIdentity { dest, lhs, rhs } => ("test_identity", regs3(dest, lhs, rhs)),
        I::TestEq { dest, lhs, rhs } => ("test_eq", regs3(dest, lhs, rhs)),
        I::TestNe { dest, lhs, rhs } => ("test_ne", regs3(dest, lhs, rhs)),
        I::TestGt { dest, lhs, rhs } => ("test_gt", regs3(dest, lhs, rhs)),
        I::TestGe { dest, lhs, rhs } => ("test_ge", regs3(dest, lhs, rhs)),
        I::TestLt { dest, lhs, rhs } => ("test_lt", regs3(dest, lhs, rhs)),
        I::TestLe { dest, lhs, rhs } => ("test_le", regs3(dest, lhs, rhs)),
        I::JumpLoop { offset } => ("jump_loop", vec![offset as u64]),
        I::LoopStart => ("loop_start", vec![]),
        I::Jump { offset } => ("jump", vec![offset as u64]),
        I::JumpIfFalse { opnd, offset } => ("jump_if_false", vec![opnd.0 as u64, offset as u64]),
        I::JumpIfTrue { opnd, offset } => ("jump_if_true", vec![opnd.0 as u64, offset as u64]),
        I::Switch { opnd, idx } => ("switch", vec![opnd.0 as u64, idx.0 as u64]),
        I::InvokeDirect { dest, fct, arguments } => ("invoke_direct", inv(dest, fct, arguments)),
        I::InvokeVirtual { dest, fct, arguments } => ("invoke_virtual", inv(dest, fct, arguments)),
        I::InvokeStatic { dest, fct, arguments } => ("invoke_static", inv(dest, fct, arguments)),
        I::InvokeGenericStatic { dest, fct, arguments } => ("invoke_generic_static", inv(dest, fct, arguments)),
        I::InvokeGenericDirect { dest, fct, arguments } => ("invoke_generic_direct", inv(dest, fct, arguments)),
        I::NewObject { dest, cls, arguments } => ("new_object", inv(dest, cls, arguments)),
        I::NewArray { dest, length, idx } => ("new_array", vec![dest.0 as u64, length.0 as u64, idx.0 as u64]),
        I::NewTuple { dest, idx, arguments } => ("new_tuple", inv(dest, idx, arguments)),
        I::NewEnum { dest, idx, arguments } => ("new_enum", inv(dest, idx, arguments)),
        I::NewStruct { dest, idx, arguments } => ("new_struct", inv(dest, idx, arguments)),
        I::NewTraitObject { dest, src, idx } => ("new_trait_object", vec![dest.0 as u64, src.0 as u64, idx.0 as u64]),
        I::ArrayLength { dest, arr } => ("array_length", regs2(dest, arr)),
        I::LoadArray { dest, arr, idx } => ("load_array", regs3(dest, arr, idx)),
        I::StoreArray { src, arr, idx } => ("store_array", regs3(src, arr, idx)),
        I::GetArrayRef { dest, arr, idx } => ("get_array_ref", regs3(dest, arr, idx)),
        I::GetFieldRef { dest, obj, field } => ("get_field_ref", vec![dest.0 as u64, obj.0 as u64, field.0 as u64]),
        I::StoreRef { src, reference } => ("store_ref", regs2(src, reference)),
        I::LoadRef { dest, reference } => ("load_ref", regs2(dest, reference)),
        I::GetRegisterRef { dest, src } => ("get_register_ref", regs2(dest, src)),
        I::GetGlobalRef { dest, global_id } => ("get_global_ref", vec![dest.0 as u64, global_id.index() as u64]),
        I::Ret { opnd } => ("ret", vec![opnd.0 as u64]),
    }
}

/// Model length in bytes of a normalised instruction (independent of writer and reader).
pub fn model_len(name: &str, vals: &[u64]) -> usize {
    match name {
        "jump" => 1 + 4,
        "jump_if_false" | "jump_if_true" => 1 + leb_len(vals[0]) + 4,
        "const_uint8" => 1 + leb_len(vals[0]) + 1,
        _ => 1 + vals.iter().map(|v| leb_len(*v)).sum::<usize>(),
    }
}

/// Model encoding of the operand bytes (everything after the opcode byte).
pub fn model_operand_bytes(name: &str, vals: &[u64]) -> Vec<u8> {
    let mut out = Vec::new();
    let fixed = |v: u64, out: &mut Vec<u8>| out.extend_from_slice(&(v as u32).to_le_bytes());
    match name {
        "jump" => fixed(vals[0], &mut out),
        "jump_if_false" | "jump_if_true" => {
            leb_bytes(vals[0], &mut out);
            fixed(vals[1], &mut out);
        }
        "const_uint8" => {
            leb_bytes(vals[0], &mut out);
            out.push(vals[1] as u8);
        }
        _ => {
            for v in vals {
                leb_bytes(*v, &mut out);
            }
        }
    }
    out
}

fn reg_type(i: usize) -> BytecodeType {
    some_type(i as u64)
}

fn item_len(it: &Item, off: usize, item_off: &[usize]) -> Result<usize, String> {
    Ok(match it {
        Item::Op { name, vals } => model_len(name, vals),
        Item::Invoke { dest, idx, nargs, argv, .. } => {
            1 + leb_len(*dest) + leb_len(*idx) + leb_len(*nargs) + (0..*nargs).map(|i| leb_len(arg_of(*argv, i))).sum::<usize>()
        }
        Item::ConstVal { .. } => 0, // needs the pool position: handled by the caller
        Item::JumpFwd { reg, .. } => 1 + reg.map(leb_len).unwrap_or(0) + 4,
        Item::JumpLoop { target } => {
            let t = *item_off.get(*target).ok_or("jump_loop target must precede the jump")?;
            1 + leb_len((off - t) as u64)
        }
        Item::Switch { .. } => 0, // needs the pool position
        Item::Pad(n) => *n,
        Item::Fill(_) | Item::Pool { .. } | Item::Regs(_) => 0,
    })
}

pub struct Outcome {
    pub instructions: u64,
    pub code_len: usize,
    pub wide: bool,
}

/// Emits the case with the real writer, sends the body through its bincode encoding, reads it back with
/// the real reader and compares with the model.  Err(kind, detail) describes the first disagreement.
pub fn run_case(items: &[Item]) -> Result<Outcome, (String, String)> {
    run_case_impl(items, false).map(|(o, _)| o)
}

pub fn run_case_body(items: &[Item]) -> Result<BytecodeBody, (String, String)> {
    run_case_impl(items, true).map(|(_, b)| b.expect("body"))
}

fn run_case_impl(items: &[Item], body_only: bool) -> Result<(Outcome, Option<BytecodeBody>), (String, String)> {
    let bad = |k: &str, d: String| Err((k.to_string(), d));
    // ---- pass 1: model offsets and pool positions
    let n = items.len();
    let mut item_off = Vec::with_capacity(n + 1);
    let mut off = 0usize;
    let mut pool_len = 0u64;
    let mut pool_pos: Vec<u64> = vec![0; n];
    let mut wide = false;
    for (i, it) in items.iter().enumerate() {
        item_off.push(off);
        let len = match it {
            Item::ConstVal { reg, .. } => {
                pool_pos[i] = pool_len;
                pool_len += 1;
                1 + leb_len(*reg) + leb_len(pool_pos[i])
            }
            Item::Switch { reg, .. } => {
                pool_pos[i] = pool_len;
                pool_len += 1;
                1 + leb_len(*reg) + leb_len(pool_pos[i])
            }
            Item::Fill(k) => {
                pool_len += *k as u64;
                0
            }
            Item::Pool { .. } => {
                pool_pos[i] = pool_len;
                pool_len += 1;
                0
            }
            other => match item_len(other, off, &item_off) {
                Ok(l) => l,
                Err(e) => return bad("case-malformed", e),
            },
        };
        if len > 0 && !matches!(it, Item::Pad(_)) {
            let opnds = len - 1;
            let nopnds = match it {
                Item::Op { vals, .. } => vals.len(),
                Item::Invoke { nargs, .. } => 3 + *nargs as usize,
                Item::ConstVal { .. } | Item::Switch { .. } => 2,
                Item::JumpFwd { .. } | Item::JumpLoop { .. } => usize::MAX,
                _ => 0,
            };
            if nopnds == usize::MAX || opnds > nopnds {
                wide = true;
            }
        }
        off += len;
    }
    item_off.push(off);
    let total_len = off;

    // ---- pass 2: drive the real writer, build the expectation
    let mut w = BytecodeWriter::new();
    let mut expected: Vec<RInst> = Vec::new();
    let mut exp_pool: Vec<ConstPoolEntry> = Vec::new();
    let mut exp_regs: Vec<BytecodeType> = Vec::new();
    let mut exp_locs: Vec<(usize, Location)> = Vec::new();
    // labels: forward/switch targets are created up front and bound when their item starts;
    // loop headers are defined when their item starts
    let mut bind_at: Vec<Vec<Label>> = vec![Vec::new(); n + 1];
    let mut header_label: Vec<Option<Label>> = vec![None; n + 1];
    let mut is_header = vec![false; n + 1];
    let mut switch_labels: Vec<Option<(Vec<Label>, Label)>> = vec![None; n];
    let mut fwd_label: Vec<Option<Label>> = vec![None; n];
    for (i, it) in items.iter().enumerate() {
        match it {
            Item::JumpFwd { target, .. } => {
                if *target <= i || *target >= n {
                    return bad("case-malformed", format!("forward jump at {} needs a later target", i));
                }
                let l = w.create_label();
                bind_at[*target].push(l);
                fwd_label[i] = Some(l);
            }
            Item::JumpLoop { target } => {
                if *target > i {
                    return bad("case-malformed", "jump_loop needs an earlier target".into());
                }
                is_header[*target] = true;
            }
            Item::Switch { targets, default, .. } => {
                let mut ls = Vec::new();
                for t in targets.iter().chain(std::iter::once(default)) {
                    if *t >= n {
                        return bad("case-malformed", "switch target out of range".into());
                    }
                    let l = w.create_label();
                    bind_at[*t].push(l);
                    ls.push(l);
                }
                let d = ls.pop().unwrap();
                switch_labels[i] = Some((ls, d));
            }
            _ => {}
        }
    }
    let mut serial = 0u32;
    let mut next_loc = |w: &mut BytecodeWriter| -> Location {
        serial += 1;
        let loc = Location::new(serial, serial % 7 + 1);
        w.set_location(loc);
        loc
    };
    for (i, it) in items.iter().enumerate() {
        for l in std::mem::take(&mut bind_at[i]) {
            w.bind_label(l);
        }
        if is_header[i] {
            header_label[i] = Some(w.define_label());
        }
        let off = item_off[i];
        match it {
            Item::Op { name, vals } => {
                let loc = next_loc(&mut w);
                let need = match shape_of(name) {
                    Some(Shape::R3) => 3,
                    Some(Shape::R2) => 2,
                    Some(Shape::R1) => 1,
                    Some(Shape::R2I) | Some(Shape::NewTrait) => 3,
                    Some(Shape::R1G) | Some(Shape::R1C) | Some(Shape::R1U8) => 2,
                    Some(Shape::LoopStart) => 0,
                    _ => return bad("case-malformed", format!("{} is not a plain instruction", name)),
                };
                if vals.len() != need || vals.iter().any(|v| *v > u32::MAX as u64) {
                    return bad("case-malformed", format!("{} takes {} operands below 2^32", name, need));
                }
                if !emit_plain(&mut w, name, vals) {
                    return bad("case-malformed", format!("unknown method {}", name));
                }
                let sname = METHODS.iter().find(|(m, _)| m == name).unwrap().0;
                expected.push(RInst { off, name: sname, vals: vals.clone() });
                exp_locs.push((off, loc));
            }
            Item::Invoke { name, dest, idx, nargs, argv } => {
                let loc = next_loc(&mut w);
                let args: Vec<Register> = (0..*nargs).map(|k| Register(arg_of(*argv, k) as usize)).collect();
                if !emit_invoke(&mut w, name, Register(*dest as usize), ConstPoolIdx(*idx as u32), &args) {
                    return bad("case-malformed", format!("unknown invoke method {}", name));
                }
                let sname = METHODS.iter().find(|(m, _)| m == name).unwrap().0;
                let mut vals = vec![*dest, *idx, *nargs];
                vals.extend((0..*nargs).map(|k| arg_of(*argv, k)));
                expected.push(RInst { off, name: sname, vals });
                exp_locs.push((off, loc));
            }
            Item::ConstVal { name, reg, val } => {
                let loc = next_loc(&mut w);
                let entry = match const_entry(name, *val) {
                    Some(e) => e,
                    None => return bad("case-malformed", format!("bad constant {} {}", name, val)),
                };
                if !emit_const(&mut w, name, Register(*reg as usize), *val) {
                    return bad("case-malformed", format!("unknown const method {}", name));
                }
                let sname = METHODS.iter().find(|(m, _)| m == name).unwrap().0;
                expected.push(RInst { off, name: sname, vals: vec![*reg, pool_pos[i]] });
                exp_pool.push(entry);
                exp_locs.push((off, loc));
            }
            Item::JumpFwd { name, reg, target } => {
                let loc = next_loc(&mut w);
                let l = fwd_label[i].unwrap();
                let rel = (item_off[*target] - off) as u64;
                match (name.as_str(), reg) {
                    ("jump", None) => {
                        w.emit_jump(l);
                        expected.push(RInst { off, name: "jump", vals: vec![rel] });
                    }
                    ("jump_if_false", Some(r)) => {
                        w.emit_jump_if_false(Register(*r as usize), l);
                        expected.push(RInst { off, name: "jump_if_false", vals: vec![*r, rel] });
                    }
                    ("jump_if_true", Some(r)) => {
                        w.emit_jump_if_true(Register(*r as usize), l);
                        expected.push(RInst { off, name: "jump_if_true", vals: vec![*r, rel] });
                    }
                    _ => return bad("case-malformed", format!("bad forward jump {}", name)),
                }
                exp_locs.push((off, loc));
            }
            Item::JumpLoop { target } => {
                let loc = next_loc(&mut w);
                w.emit_jump_loop(header_label[*target].unwrap());
                expected.push(RInst { off, name: "jump_loop", vals: vec![(off - item_off[*target]) as u64] });
                exp_locs.push((off, loc));
            }
            Item::Switch { reg, targets, default } => {
                let loc = next_loc(&mut w);
                let (ls, d) = switch_labels[i].take().unwrap();
                let idx = w.add_const_jump_table(ls, d);
                if idx.0 as u64 != pool_pos[i] {
                    return bad("pool-index", format!("add_const_jump_table returned {} for position {}", idx.0, pool_pos[i]));
                }
                w.emit_switch(Register(*reg as usize), idx);
                expected.push(RInst { off, name: "switch", vals: vec![*reg, pool_pos[i]] });
                exp_pool.push(ConstPoolEntry::JumpTable {
                    targets: targets.iter().map(|t| item_off[*t] as u32).collect(),
                    default_target: item_off[*default] as u32,
                });
                exp_locs.push((off, loc));
            }
            Item::Pad(k) => {
                let mut o = off;
                if k % 2 == 1 {
                    let loc = next_loc(&mut w);
                    w.emit_loop_start();
                    expected.push(RInst { off: o, name: "loop_start", vals: vec![] });
                    exp_locs.push((o, loc));
                    o += 1;
                }
                for _ in 0..k / 2 {
                    let loc = next_loc(&mut w);
                    w.emit_const_true(Register(0));
                    expected.push(RInst { off: o, name: "const_true", vals: vec![0] });
                    exp_locs.push((o, loc));
                    o += 2;
                }
            }
            Item::Fill(k) => {
                for j in 0..*k {
                    let e = ConstPoolEntry::Int32(j as i32);
                    w.add_const(e.clone());
                    exp_pool.push(e);
                }
            }
            Item::Pool { kind, n } => {
                let e = match pool_entry(kind, *n) {
                    Some(e) => e,
                    None => return bad("case-malformed", format!("unknown pool kind {}", kind)),
                };
                let idx = w.add_const(e.clone());
                if idx.0 as u64 != pool_pos[i] {
                    return bad("pool-index", format!("add_const returned {} for position {}", idx.0, pool_pos[i]));
                }
                exp_pool.push(e);
            }
            Item::Regs(k) => {
                for _ in 0..*k {
                    let ty = reg_type(exp_regs.len());
                    let r = w.add_register(ty.clone());
                    if r.0 != exp_regs.len() {
                        return bad("register-number", format!("add_register returned {} for the {}th register", r.0, exp_regs.len()));
                    }
                    exp_regs.push(ty);
                }
            }
        }
    }
    let body = w.generate();
    if body_only {
        return Ok((Outcome { instructions: 0, code_len: total_len, wide }, Some(body)));
    }

    // ---- bincode round trip of the function body
    let cfg = bincode::config::standard();
    let enc1 = match bincode::encode_to_vec(&body, cfg) {
        Ok(b) => b,
        Err(e) => return bad("body-encode-failed", format!("{}", e)),
    };
    let (body2, used): (BytecodeBody, usize) = match bincode::decode_from_slice(&enc1, cfg) {
        Ok(x) => x,
        Err(e) => return bad("body-decode-failed", format!("{}", e)),
    };
    if used != enc1.len() {
        return bad("body-decode-length", format!("decode consumed {} of {} bytes", used, enc1.len()));
    }
    let enc2 = bincode::encode_to_vec(&body2, cfg).map_err(|e| ("body-encode-failed".to_string(), format!("{}", e)))?;
    if enc1 != enc2 {
        return bad("body-reencode-differs", format!("{} vs {} bytes", enc1.len(), enc2.len()));
    }
    if body.code() != body2.code() {
        return bad("body-roundtrip:code", "code bytes differ after decode".into());
    }
    if body.const_pool_entries().len() != body2.const_pool_entries().len()
        || !body.const_pool_entries().iter().zip(body2.const_pool_entries()).all(|(a, b)| pool_eq(a, b))
    {
        return bad("body-roundtrip:pool", "constant pool differs after decode".into());
    }
    if body.registers() != body2.registers() {
        return bad("body-roundtrip:registers", "register types differ after decode".into());
    }
    if body.locations() != body2.locations() {
        return bad("body-roundtrip:locations", "location table differs after decode".into());
    }
    let body = body2;

    // ---- compare with the model
    if body.code().len() != total_len {
        return bad("code-length", format!("code is {} bytes, model says {}", body.code().len(), total_len));
    }
    let mut got: Vec<RInst> = Vec::with_capacity(expected.len());
    let mut need_loc: Vec<bool> = Vec::with_capacity(expected.len());
    for (o, opc, inst) in BytecodeReader::new(body.code()) {
        let (name, vals) = normalize(inst);
        need_loc.push(opc.needs_location());
        got.push(RInst { off: o, name, vals });
    }
    if got.len() != expected.len() {
        return bad("instruction-count", format!("read back {} instructions, emitted {}", got.len(), expected.len()));
    }
    for (k, (g, e)) in got.iter().zip(expected.iter()).enumerate() {
        if g != e {
            let what = if g.name != e.name {
                "kind"
            } else if g.off != e.off {
                "offset"
            } else {
                "operands"
            };
            let show = |r: &RInst| format!("@{} {} {:?}", r.off, r.name, &r.vals[..r.vals.len().min(8)]);
            return bad(
                &format!("readback-{}:{}", what, e.name),
                format!("instruction {}: emitted {} read back {}", k, show(e), show(g)),
            );
        }
        // bytes of the instruction agree with the model encoding
        let end = if k + 1 < got.len() { got[k + 1].off } else { body.code().len() };
        let ob = model_operand_bytes(e.name, &e.vals);
        if end < g.off + 1 || body.code()[g.off + 1..end] != ob[..] {
            return bad(&format!("operand-bytes:{}", e.name), format!("instruction {} @{} is not encoded as the model says", k, g.off));
        }
    }
    // jump targets resolve to an instruction start
    let starts: BTreeSet<usize> = got.iter().map(|g| g.off).collect();
    for g in &got {
        let t = match g.name {
            "jump" => Some(g.off + g.vals[0] as usize),
            "jump_if_false" | "jump_if_true" => Some(g.off + g.vals[1] as usize),
            "jump_loop" => g.off.checked_sub(g.vals[0] as usize),
            _ => None,
        };
        if let Some(t) = t {
            if !starts.contains(&t) {
                return bad(&format!("jump-target:{}", g.name), format!("jump at {} leads to {} which is not an instruction start", g.off, t));
            }
        } else if matches!(g.name, "jump" | "jump_if_false" | "jump_if_true" | "jump_loop") {
            return bad(&format!("jump-target:{}", g.name), format!("jump at {} leads before the function", g.off));
        }
    }
    // pool
    let gp = body.const_pool_entries();
    if gp.len() != exp_pool.len() {
        return bad("pool-size", format!("pool has {} entries, expected {}", gp.len(), exp_pool.len()));
    }
    for (k, (g, e)) in gp.iter().zip(exp_pool.iter()).enumerate() {
        if !pool_eq(g, e) {
            let s = |x: &ConstPoolEntry| format!("{:?}", x).chars().take(120).collect::<String>();
            return bad("pool-entry", format!("entry {}: expected {} got {}", k, s(e), s(g)));
        }
        if let ConstPoolEntry::JumpTable { targets, default_target } = g {
            for t in targets.iter().chain(std::iter::once(default_target)) {
                if !starts.contains(&(*t as usize)) {
                    return bad("jump-target:switch", format!("table entry {} is not an instruction start", t));
                }
            }
        }
    }
    for g in &got {
        if matches!(g.name, "const_char" | "const_int32" | "const_int64" | "const_float32" | "const_float64" | "const_string" | "switch") {
            let e = body.const_pool(ConstPoolIdx(g.vals[1] as u32));
            let ok = match (g.name, e) {
                ("const_char", ConstPoolEntry::Char(_)) | ("const_int32", ConstPoolEntry::Int32(_)) |
                ("const_int64", ConstPoolEntry::Int64(_)) | ("const_float32", ConstPoolEntry::Float32(_)) |
                ("const_float64", ConstPoolEntry::Float64(_)) | ("const_string", ConstPoolEntry::String(_)) |
                ("switch", ConstPoolEntry::JumpTable { .. }) => true,
                _ => false,
            };
            if !ok {
                return bad(&format!("pool-kind:{}", g.name), format!("instruction at {} refers to pool entry {} of another kind", g.off, g.vals[1]));
            }
        }
    }
    // registers
    if body.registers() != &exp_regs[..] {
        return bad("registers", format!("{} register types read back, {} added", body.registers().len(), exp_regs.len()));
    }
    // locations: every instruction that needs one reports the one that was set for it
    for (k, g) in got.iter().enumerate() {
        if need_loc[k] {
            let l = body.offset_location(g.off as u32);
            if l != exp_locs[k].1 {
                return bad(&format!("location:{}", g.name), format!("instruction at {} reports {} instead of {}", g.off, l, exp_locs[k].1));
            }
        }
    }
    for win in body.locations().windows(2) {
        if win[0].0 >= win[1].0 {
            return bad("location-table-order", "location table offsets are not increasing".into());
        }
    }
    let _ = BytecodeOffset(0);
    Ok((Outcome { instructions: got.len() as u64, code_len: total_len, wide }, None))
}

fn pool_eq(a: &ConstPoolEntry, b: &ConstPoolEntry) -> bool {
    match (a, b) {
        // bit-exact for floats (NaN payloads count)
        (ConstPoolEntry::Float32(x), ConstPoolEntry::Float32(y)) => x.to_bits() == y.to_bits(),
        (ConstPoolEntry::Float64(x), ConstPoolEntry::Float64(y)) => x.to_bits() == y.to_bits(),
        _ => a == b,
    }
}

// ------------------------------------------------------------------------------------------------
// the declared space

pub const BOUNDS: &[u64] = &[
    0, 1, 127, 128, 255, 256, 16383, 16384, 65535, 65536,
    (1 << 21) - 1, 1 << 21, (1 << 21) + 1, (1 << 28) - 1, 1 << 28, (1 << 28) + 1, (1 << 32) - 1,
];
pub const U8_BOUNDS: &[u64] = &[0, 1, 127, 128, 255];
pub const PADS: &[usize] = &[0, 1, 126, 127, 128, 129, 254, 255, 256, 16382, 16383, 16384, 65535, 65536, 70000];
pub const SIZES: &[u64] = &[0, 1, 127, 128, 250, 251, 255, 256, 16383, 16384, 65535, 65536];
pub const CLASSES: &[u64] = &[1, 300, (1 << 28) + 1];

fn const_values(name: &str) -> Vec<i128> {
    match name {
        "const_char" => vec![0, 0x7f, 0x80, 0x7ff, 0x800, 0xd7ff, 0xe000, 0xffff, 0x10000, 0x10ffff],
        "const_int32" => vec![0, 1, -1, 127, 128, -128, -129, i32::MAX as i128, i32::MIN as i128],
        "const_int64" => vec![0, 1, -1, 250, 251, 65535, 65536, i32::MAX as i128 + 1, i64::MAX as i128, i64::MIN as i128],
        "const_float32" => vec![0, 0x8000_0000, 0x3f80_0000, 0x7f80_0000, 0x7fc0_0001, 0xffff_ffff, 1],
        "const_float64" => vec![0, 1 << 63, 0x3ff0_0000_0000_0000, 0x7ff0_0000_0000_0000, 0x7ff8_0000_0000_0001, 1],
        "const_string" => vec![0, 1, 5, 6, 127, 128, 250, 251, 255, 256, 65535, 65536, 70000],
        _ => vec![],
    }
}

struct Cat {
    name: &'static str,
    count: u64,
    make: Box<dyn Fn(u64) -> Vec<Item> + Sync + Send>,
}

fn op(name: &str, vals: &[u64]) -> Item {
    Item::Op { name: name.to_string(), vals: vals.to_vec() }
}

/// One instruction of a kind with all operands from class `c`, in the 4-item frame
/// [0: loop_start, 1: A, 2: B, 3: ret] (forward jumps go to 3, backward ones to 0).
fn inst_in_frame(kind: usize, c: u64) -> Item {
    let (name, shape) = METHODS[kind];
    match shape {
        Shape::R3 => op(name, &[c, c + 1, c + 2]),
        Shape::R2 => op(name, &[c, c + 1]),
        Shape::R1 => op(name, &[c]),
        Shape::R2I | Shape::NewTrait => op(name, &[c, c + 1, c + 2]),
        Shape::R1G | Shape::R1C => op(name, &[c, c + 1]),
        Shape::R1U8 => op(name, &[c, (c & 0xff) ^ 0x80]),
        Shape::ConstVal => Item::ConstVal { name: name.to_string(), reg: c, val: if name == "const_char" { 0x41 } else { (c as i128) % 1000 } },
        Shape::Invoke => Item::Invoke { name: name.to_string(), dest: c, idx: c + 1, nargs: 3, argv: c + 2 },
        Shape::JumpFwd(true) => Item::JumpFwd { name: name.to_string(), reg: Some(c), target: 3 },
        Shape::JumpFwd(false) => Item::JumpFwd { name: name.to_string(), reg: None, target: 3 },
        Shape::JumpLoop => Item::JumpLoop { target: 0 },
        Shape::LoopStart => op(name, &[]),
        Shape::Switch => Item::Switch { reg: c, targets: vec![0, 3, 2], default: 3 },
    }
}

fn categories(full: bool) -> Vec<Cat> {
    let mut cats: Vec<Cat> = Vec::new();
    let nb = BOUNDS.len() as u64;
    // 1. every method x every combination of boundary operands
    for (mi, (name, shape)) in METHODS.iter().enumerate() {
        let name: &'static str = name;
        match *shape {
            Shape::R3 | Shape::R2I | Shape::NewTrait => cats.push(Cat {
                name: "single",
                count: nb * nb * nb,
                make: Box::new(move |i| {
                    vec![op(name, &[BOUNDS[(i % nb) as usize], BOUNDS[(i / nb % nb) as usize], BOUNDS[(i / nb / nb) as usize]])]
                }),
            }),
            Shape::R2 | Shape::R1G | Shape::R1C => cats.push(Cat {
                name: "single",
                count: nb * nb,
                make: Box::new(move |i| vec![op(name, &[BOUNDS[(i % nb) as usize], BOUNDS[(i / nb) as usize]])]),
            }),
            Shape::R1 => cats.push(Cat { name: "single", count: nb, make: Box::new(move |i| vec![op(name, &[BOUNDS[i as usize]])]) }),
            Shape::R1U8 => cats.push(Cat {
                name: "single",
                count: nb * 256,
                make: Box::new(move |i| vec![op(name, &[BOUNDS[(i % nb) as usize], i / nb])]),
            }),
            Shape::ConstVal => {
                let vals = const_values(name);
                let nv = vals.len() as u64;
                // register boundary x value x position of the new entry in the pool (positions up to 256);
                // positions around 2^14 and 2^16 x value with one wide register (thorough: full product)
                let small: Vec<u64> = SIZES.iter().cloned().filter(|s| *s <= 256 || full).collect();
                let big: Vec<u64> = SIZES.iter().cloned().filter(|s| *s > 256 && !full).collect();
                let ns = small.len() as u64;
                let vals2 = vals.clone();
                cats.push(Cat {
                    name: "single",
                    count: nb * nv * ns,
                    make: Box::new(move |i| {
                        let reg = BOUNDS[(i % nb) as usize];
                        let val = vals[(i / nb % nv) as usize];
                        let fill = small[(i / nb / nv) as usize] as usize;
                        vec![Item::Fill(fill), Item::ConstVal { name: name.to_string(), reg, val }]
                    }),
                });
                let nbig = big.len() as u64;
                cats.push(Cat {
                    name: "single",
                    count: nv * nbig,
                    make: Box::new(move |i| {
                        let val = vals2[(i % nv) as usize];
                        let fill = big[(i / nv) as usize] as usize;
                        vec![Item::Fill(fill), Item::ConstVal { name: name.to_string(), reg: 300, val }]
                    }),
                });
            }
            Shape::Invoke => {
                const SMALL: &[u64] = &[0, 1, 2, 3];
                const LARGE: &[u64] = &[126, 127, 128, 129, 255, 256, 16383, 16384];
                let nsm = SMALL.len() as u64;
                cats.push(Cat {
                    name: "single",
                    count: nb * nb * nsm * nb,
                    make: Box::new(move |i| {
                        vec![Item::Invoke {
                            name: name.to_string(),
                            dest: BOUNDS[(i % nb) as usize],
                            idx: BOUNDS[(i / nb % nb) as usize],
                            nargs: SMALL[(i / nb / nb % nsm) as usize],
                            argv: BOUNDS[(i / nb / nb / nsm) as usize],
                        }]
                    }),
                });
                let nl = LARGE.len() as u64;
                cats.push(Cat {
                    name: "single",
                    count: nl * nb * 3,
                    make: Box::new(move |i| {
                        let c = CLASSES[(i / nl / nb) as usize];
                        vec![Item::Invoke { name: name.to_string(), dest: c, idx: c + 1, nargs: LARGE[(i % nl) as usize], argv: BOUNDS[(i / nl % nb) as usize] }]
                    }),
                });
            }
            Shape::JumpFwd(cond) => cats.push(Cat {
                name: "single",
                count: if cond { nb } else { 1 },
                make: Box::new(move |i| {
                    vec![
                        Item::JumpFwd { name: name.to_string(), reg: if cond { Some(BOUNDS[i as usize]) } else { None }, target: 1 },
                        op("ret", &[0]),
                    ]
                }),
            }),
            Shape::JumpLoop => cats.push(Cat { name: "single", count: 1, make: Box::new(|_| vec![Item::JumpLoop { target: 0 }]) }),
            Shape::LoopStart => cats.push(Cat { name: "single", count: 1, make: Box::new(move |_| vec![op(name, &[])]) }),
            Shape::Switch => cats.push(Cat {
                name: "single",
                count: nb * SIZES.len() as u64,
                make: Box::new(move |i| {
                    vec![
                        Item::Fill(SIZES[(i / nb) as usize] as usize),
                        Item::Switch { reg: BOUNDS[(i % nb) as usize], targets: vec![1, 2], default: 2 },
                        op("ret", &[0]),
                    ]
                }),
            }),
        }
        let _ = mi;
    }
    // 2. every ordered pair of kinds x operand classes
    let nk = METHODS.len() as u64;
    let nc = CLASSES.len() as u64;
    cats.push(Cat {
        name: "pair",
        count: nk * nk * nc * nc,
        make: Box::new(move |i| {
            let a = (i % nk) as usize;
            let b = (i / nk % nk) as usize;
            let ca = CLASSES[(i / nk / nk % nc) as usize];
            let cb = CLASSES[(i / nk / nk / nc) as usize];
            vec![op("loop_start", &[]), inst_in_frame(a, ca), inst_in_frame(b, cb), op("ret", &[0])]
        }),
    });
    // 3. jumps over padding
    let np = PADS.len() as u64;
    for (name, cond) in [("jump", false), ("jump_if_false", true), ("jump_if_true", true)] {
        cats.push(Cat {
            name: "jump",
            count: np * if cond { nb } else { 1 },
            make: Box::new(move |i| {
                vec![
                    Item::JumpFwd { name: name.to_string(), reg: if cond { Some(BOUNDS[(i / np) as usize]) } else { None }, target: 2 },
                    Item::Pad(PADS[(i % np) as usize]),
                    op("ret", &[7]),
                ]
            }),
        });
    }
    // backward jumps: distance = 1 + pad (+ more) crosses every LEB width, including 2^21
    const BACK_PADS: &[usize] = &[
        0, 1, 125, 126, 127, 128, 254, 255, 256, 16381, 16382, 16383, 16384, 65534, 65535, 65536, 70000,
        (1 << 21) - 3, (1 << 21) - 2, (1 << 21) - 1, 1 << 21,
    ];
    cats.push(Cat {
        name: "jump",
        count: BACK_PADS.len() as u64,
        make: Box::new(|i| vec![op("loop_start", &[]), Item::Pad(BACK_PADS[i as usize]), Item::JumpLoop { target: 0 }, op("ret", &[0])]),
    });
    // a forward jump over a loop and a loop around a forward jump, all pad combinations
    cats.push(Cat {
        name: "jump",
        count: np * np * 2,
        make: Box::new(move |i| {
            let p = PADS[(i % np) as usize];
            let q = PADS[(i / np % np) as usize];
            if i / np / np == 0 {
                vec![
                    Item::JumpFwd { name: "jump_if_true".into(), reg: Some(300), target: 6 },
                    Item::Pad(q),
                    op("loop_start", &[]),
                    Item::Pad(p),
                    Item::JumpLoop { target: 2 },
                    Item::Pad(q),
                    op("ret", &[1]),
                ]
            } else {
                vec![
                    op("loop_start", &[]),
                    Item::Pad(q),
                    Item::JumpFwd { name: "jump".into(), reg: None, target: 4 },
                    Item::Pad(p),
                    Item::JumpLoop { target: 0 },
                    op("ret", &[1]),
                ]
            }
        }),
    });
    // 4. jump tables: number of targets x spacing between the targets x pool position
    const NT: &[usize] = &[0, 1, 2, 127, 128, 250, 251, 300];
    const SPACING: &[usize] = &[0, 1, 127, 128, 600];
    cats.push(Cat {
        name: "switch",
        count: (NT.len() * SPACING.len() * 3 * 2) as u64,
        make: Box::new(move |i| {
            let i = i as usize;
            let nt = NT[i % NT.len()];
            let sp = SPACING[i / NT.len() % SPACING.len()];
            let mut fill = [0usize, 251, 65536][i / NT.len() / SPACING.len() % 3];
            if !full && fill == 65536 && !(nt == 1 || nt == 128) {
                fill = 250;
            }
            let before = i / NT.len() / SPACING.len() / 3 == 1;
            // layout: [fill, (switch first | targets first), nt x (ret k, pad sp), final ret]
            let mut items = vec![Item::Fill(fill)];
            let first_target;
            let mut body = Vec::new();
            for k in 0..nt {
                body.push(op("ret", &[k as u64]));
                body.push(Item::Pad(sp));
            }
            body.push(op("ret", &[9999]));
            if before {
                // targets lie before the switch (backward table)
                first_target = 1;
                items.extend(body);
                let default = first_target + 2 * nt;
                items.push(Item::Switch { reg: 300, targets: (0..nt).map(|k| first_target + 2 * k).collect(), default });
                items.push(op("ret", &[0]));
            } else {
                first_target = 2;
                let default = first_target + 2 * nt;
                items.push(Item::Switch { reg: 300, targets: (0..nt).map(|k| first_target + 2 * (nt - 1 - k)).collect(), default });
                items.extend(body);
            }
            items
        }),
    });
    // 5. constant pool: every kind x id/size boundary x position in the pool
    let nkinds = POOL_KINDS.len() as u64;
    const POOL_N: &[u64] = &[
        0, 1, 127, 128, 250, 251, 255, 256, 16383, 16384, 65535, 65536, (1 << 21) - 1, (1 << 21) + 1, (1 << 28) - 1,
        (1 << 28) + 1, (1 << 32) - 1,
    ];
    const POOL_AT: &[usize] = &[0, 1, 250, 251, 65535, 65536];
    cats.push(Cat {
        name: "pool",
        count: nkinds * POOL_N.len() as u64 * POOL_AT.len() as u64,
        make: Box::new(move |i| {
            let kind = POOL_KINDS[(i % nkinds) as usize];
            let mut n = POOL_N[(i / nkinds % POOL_N.len() as u64) as usize];
            let at = POOL_AT[(i / nkinds / POOL_N.len() as u64) as usize];
            if (kind == "string" || kind == "tuple") && n > 70000 {
                n = 70000 + (n % 7);
            }
            if !full && at > 251 && n != 1 && n != 251 && n != (1 << 32) - 1 {
                // quick tier: behind a long pool only three id/size values per kind
                return vec![op("ret", &[0])];
            }
            vec![Item::Fill(at), Item::Pool { kind: kind.to_string(), n }, op("ret", &[0])]
        }),
    });
    // all kinds in one pool, every rotation
    cats.push(Cat {
        name: "pool",
        count: nkinds,
        make: Box::new(move |i| {
            let mut items: Vec<Item> = (0..nkinds).map(|k| Item::Pool { kind: POOL_KINDS[((k + i) % nkinds) as usize].to_string(), n: 250 + k }).collect();
            items.push(Item::ConstVal { name: "const_string".into(), reg: 1, val: 300 });
            items.push(op("ret", &[1]));
            items
        }),
    });
    // 6. register files and code lengths on both sides of the container-length boundaries
    cats.push(Cat {
        name: "sizes",
        count: (SIZES.len() * PADS.len()) as u64,
        make: Box::new(|i| {
            let r = SIZES[i as usize % SIZES.len()] as usize;
            let p = PADS[i as usize / SIZES.len()];
            vec![Item::Regs(r), Item::Pad(p), op("ret", &[r.saturating_sub(1) as u64])]
        }),
    });
    for extra in [249usize, 250, 251, 252] {
        cats.push(Cat { name: "sizes", count: 1, make: Box::new(move |_| vec![Item::Pad(extra - 2), op("ret", &[0])]) });
    }
    cats
}

fn locate(cats: &[Cat], mut i: u64) -> (usize, u64) {
    for (k, c) in cats.iter().enumerate() {
        if i < c.count {
            return (k, i);
        }
        i -= c.count;
    }
    panic!("index outside the space");
}

pub fn run(args: &Args) -> Report {
    // replay of one recorded case
    let replay = args.get("case", "");
    if !replay.is_empty() {
        let mut rep = Report::default();
        match parse_case(&replay) {
            Ok(items) => evaluate(&items, &mut rep),
            Err(e) => rep.add("c18:codec:case-malformed".into(), &replay, &e),
        }
        rep.evaluations = 1;
        return rep;
    }
    // completeness gate: methods of the current tree vs. methods driven here
    let in_source: BTreeSet<String> = args.list("methods", "").into_iter().collect();
    let driven: BTreeSet<String> = METHODS.iter().map(|(n, _)| n.to_string()).collect();
    let uncovered: Vec<String> = in_source.difference(&driven).cloned().collect();
    crate::set_extra("uncovered", uncovered.join(","));
    crate::set_extra("driven", driven.iter().cloned().collect::<Vec<_>>().join(","));
    crate::set_extra("bounds", BOUNDS.iter().map(|b| b.to_string()).collect::<Vec<_>>().join(","));
    crate::set_extra("pads", PADS.iter().map(|b| b.to_string()).collect::<Vec<_>>().join(","));

    let cats = categories(args.get("tier", "quick") == "thorough");
    let total: u64 = cats.iter().map(|c| c.count).sum();
    crate::set_extra("space_total", total.to_string());
    let only = args.get("only", "");
    // visit the space in a scattered order (i -> i * P mod total, a bijection) so that the few heavy
    // cases, which are neighbours in the enumeration, spread over all workers
    fn gcd(a: u64, b: u64) -> u64 { if b == 0 { a } else { gcd(b, a % b) } }
    let mut stride_p = 1_000_003u64 % total.max(1);
    while total > 1 && gcd(stride_p.max(1), total) != 1 {
        stride_p += 1;
    }
    let stride_p = stride_p.max(1);
    let perm = move |i: u64| ((i as u128 * stride_p as u128) % total as u128) as u64;
    let mut rep = pool::run_space(
        total,
        crate::threads(args),
        std::time::Duration::from_secs(args.num("hang-s", 60)),
        |i, rep| {
            let (k, j) = locate(&cats, perm(i));
            if !only.is_empty() && cats[k].name != only {
                return;
            }
            let items = (cats[k].make)(j);
            rep.bump(&format!("cases_{}", cats[k].name), 1);
            evaluate(&items, rep);
        },
        |i| {
            let (k, j) = locate(&cats, perm(i));
            case_text(&(cats[k].make)(j)).chars().take(400).collect()
        },
    );
    rep.bump("instruction_pairs", (METHODS.len() * METHODS.len()) as u64);
    rep.bump("methods_driven", METHODS.len() as u64);
    // samples: one per category
    let mut base = 0u64;
    let mut seen: BTreeSet<&str> = BTreeSet::new();
    rep.samples.clear();
    for c in &cats {
        if c.count > 0 && (seen.insert(c.name) || c.name == "single" && base % 7 == 3) {
            if rep.samples.len() < 12 {
                let t = case_text(&(c.make)(c.count / 2));
                rep.samples.push(t.chars().take(300).collect());
            }
        }
        base += c.count;
    }
    rep
}

fn evaluate(items: &[Item], rep: &mut Report) {
    match guarded(|| run_case(items)) {
        Ok(Ok(o)) => {
            rep.bump("instructions_read_back", o.instructions);
            if o.wide {
                rep.bump("cases_multibyte_or_jump", 1);
            }
            if o.code_len > 65535 {
                rep.bump("cases_code_over_64k", 1);
            }
        }
        Ok(Err((kind, detail))) => {
            let text = case_text(items);
            rep.add(format!("c18:codec:{}", kind), &clip(&text), &detail);
        }
        Err(p) => {
            let text = case_text(items);
            rep.add(format!("c18:codec:{}", p.key()), &clip(&text), &format!("{} at {}", p.message, p.location));
        }
    }
}

fn clip(t: &str) -> String {
    // replay files keep the whole case unless it is absurdly long
    if t.len() > 200_000 { t.chars().take(200_000).collect() } else { t.to_string() }
}

// ------------------------------------------------------------------------------------------------
// twin: the same bytes for the reader written in Dora (pkgs/boots/bytecode/reader.dora)

pub const TWIN_H0: i64 = 1469598103934665603;

pub fn twin_mix(h: i64, v: i64) -> i64 {
    (h ^ v).wrapping_mul(1099511628211)
}

/// Checksum over what a reader reports for one function: per instruction start, opcode byte, size and
/// the operands in byte order (32-bit values taken as unsigned).
pub fn twin_checksum(code: &[u8]) -> (u64, i64) {
    let mut all: Vec<(usize, u8, Vec<u64>)> = Vec::new();
    for (off, opc, inst) in BytecodeReader::new(code) {
        let (_, v) = normalize(inst);
        all.push((off, opc.into(), v));
    }
    let mut h = TWIN_H0;
    for k in 0..all.len() {
        let end = if k + 1 < all.len() { all[k + 1].0 } else { code.len() };
        h = twin_mix(h, all[k].0 as i64);
        h = twin_mix(h, all[k].1 as i64);
        h = twin_mix(h, (end - all[k].0) as i64);
        for v in &all[k].2 {
            h = twin_mix(h, (*v & 0xffff_ffff) as i64);
        }
    }
    (all.len() as u64, h)
}

/// Writes `cases.bin` (u32 length + code bytes per case), `expected.txt` (index, instruction count, checksum)
/// and `cases.txt` (index, case text) for the declared subset of the codec space.
pub fn run_twin_gen(args: &Args) -> Report {
    use std::io::Write;
    let full = args.get("tier", "quick") == "thorough";
    let max_len = args.num("max-len", 20000) as usize;
    let single_stride = args.num("single-stride", if full { 1 } else { 23 });
    let cats = categories(full);
    let mut bin = std::io::BufWriter::new(std::fs::File::create(args.get("out-bin", "cases.bin")).expect("out-bin"));
    let mut exp = std::io::BufWriter::new(std::fs::File::create(args.get("out-exp", "expected.txt")).expect("out-exp"));
    let mut txt = std::io::BufWriter::new(std::fs::File::create(args.get("out-cases", "cases.txt")).expect("out-cases"));
    let mut rep = Report::default();
    let one = args.get("case", "");
    if !one.is_empty() {
        // replay: exactly this case
        let items = parse_case(&one).expect("case text");
        let code = emit_code_only(&items).expect("case cannot be emitted");
        let (n, h) = twin_checksum(&code);
        bin.write_all(&(code.len() as u32).to_le_bytes()).unwrap();
        bin.write_all(&code).unwrap();
        writeln!(exp, "0 {} {}", n, h).unwrap();
        writeln!(txt, "0\t{}", one).unwrap();
        rep.evaluations = 1;
        return rep;
    }
    // the selected (category, index) list, evaluated in parallel, written in order
    let mut sel: Vec<(usize, u64)> = Vec::new();
    for (k, c) in cats.iter().enumerate() {
        if c.name == "pool" {
            continue; // constant pools do not reach the instruction reader
        }
        for j in 0..c.count {
            if c.name == "single" && j % single_stride != 0 {
                continue;
            }
            sel.push((k, j));
        }
    }
    let nthreads = crate::threads(args).max(1);
    let chunk = (sel.len() + nthreads - 1) / nthreads.max(1);
    let mut parts: Vec<Vec<(usize, Vec<u8>, String)>> = Vec::new();
    std::thread::scope(|sc| {
        let mut hs = Vec::new();
        for piece in sel.chunks(chunk.max(1)) {
            let cats = &cats;
            hs.push(sc.spawn(move || {
                let mut out = Vec::new();
                for (k, j) in piece {
                    let items = (cats[*k].make)(*j);
                    let approx: usize = items
                        .iter()
                        .map(|it| match it {
                            Item::Pad(n) => *n,
                            Item::Invoke { nargs, .. } => *nargs as usize * 2,
                            _ => 4,
                        })
                        .sum();
                    if approx > max_len || items.iter().any(|it| matches!(it, Item::Fill(n) if *n > 300)) {
                        continue;
                    }
                    let code = match guarded(|| emit_code_only(&items)) {
                        Ok(Some(code)) => code,
                        _ => continue,
                    };
                    if code.is_empty() || code.len() > max_len {
                        continue;
                    }
                    out.push((*k, code, case_text(&items).chars().take(2000).collect::<String>()));
                }
                out
            }));
        }
        for h in hs {
            parts.push(h.join().expect("twin worker"));
        }
    });
    let mut idx = 0u64;
    for part in parts {
        for (k, code, text) in part {
            let (n, h) = twin_checksum(&code);
            bin.write_all(&(code.len() as u32).to_le_bytes()).unwrap();
            bin.write_all(&code).unwrap();
            writeln!(exp, "{} {} {}", idx, n, h).unwrap();
            writeln!(txt, "{}\t{}", idx, text).unwrap();
            rep.bump("twin_instructions", n);
            rep.bump(&format!("twin_cases_{}", cats[k].name), 1);
            idx += 1;
        }
    }
    rep.evaluations = idx;
    rep
}

/// The code bytes the real writer produces for a case (no checks: the codec part does those).
fn emit_code_only(items: &[Item]) -> Option<Vec<u8>> {
    match run_case_body(items) {
        Ok(body) => Some(body.code().to_vec()),
        Err(_) => None,
    }
}
