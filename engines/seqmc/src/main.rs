//! seqmc: bounded-exhaustive explorers over the sequential code of dinfuehr/dora.
//! Every subcommand enumerates a declared finite space completely, evaluates its oracle on every
//! element on the real crates of /repo, and prints one JSON report on stdout.
mod codec;
mod files;
mod names;
mod pkgcodec;
mod pool;
mod sema;
mod text;
mod textspace;

use std::collections::BTreeMap;
use std::time::Duration;

use pool::Report;

pub fn json_escape(s: &str) -> String {
    let mut o = String::with_capacity(s.len() + 2);
    o.push('"');
    for c in s.chars() {
        match c {
            '"' => o.push_str("\\\""),
            '\\' => o.push_str("\\\\"),
            '\n' => o.push_str("\\n"),
            '\r' => o.push_str("\\r"),
            '\t' => o.push_str("\\t"),
            c if (c as u32) < 0x20 => o.push_str(&format!("\\u{:04x}", c as u32)),
            c => o.push(c),
        }
    }
    o.push('"');
    o
}

pub fn report_json(rep: &Report, extra: &BTreeMap<String, String>) -> String {
    let mut o = String::new();
    o.push_str("{\n");
    o.push_str(&format!(" \"evaluations\": {},\n", rep.evaluations));
    o.push_str(" \"counters\": {");
    let mut first = true;
    for (k, v) in &rep.counters {
        if !first {
            o.push_str(", ");
        }
        first = false;
        o.push_str(&format!("{}: {}", json_escape(k), v));
    }
    o.push_str("},\n");
    o.push_str(" \"extra\": {");
    first = true;
    for (k, v) in extra {
        if !first {
            o.push_str(", ");
        }
        first = false;
        o.push_str(&format!("{}: {}", json_escape(k), json_escape(v)));
    }
    o.push_str("},\n");
    o.push_str(" \"samples\": [");
    first = true;
    for s in &rep.samples {
        if !first {
            o.push_str(", ");
        }
        first = false;
        o.push_str(&json_escape(s));
    }
    o.push_str("],\n");
    match &rep.hang {
        Some(h) => o.push_str(&format!(" \"hang\": {},\n", json_escape(h))),
        None => o.push_str(" \"hang\": null,\n"),
    }
    o.push_str(" \"findings\": {\n");
    first = true;
    for (k, f) in &rep.findings {
        if !first {
            o.push_str(",\n");
        }
        first = false;
        o.push_str(&format!(
            "  {}: {{\"count\": {}, \"example\": {}, \"detail\": {}}}",
            json_escape(k),
            f.count,
            json_escape(&f.example),
            json_escape(&f.detail.chars().take(2000).collect::<String>())
        ));
    }
    o.push_str("\n }\n}\n");
    o
}

static EXTRA: std::sync::Mutex<BTreeMap<String, String>> = std::sync::Mutex::new(BTreeMap::new());

pub fn set_extra(k: &str, v: String) {
    EXTRA.lock().unwrap().insert(k.to_string(), v);
}

pub fn emit_and_exit(rep: Report) -> ! {
    let extra = EXTRA.lock().unwrap().clone();
    use std::io::Write;
    let text = report_json(&rep, &extra);
    match std::env::var("SEQMC_OUT") {
        Ok(p) => std::fs::write(p, text).expect("write report"),
        Err(_) => {
            print!("{}", text);
            std::io::stdout().flush().ok();
        }
    }
    std::process::exit(0);
}

pub struct Args {
    pub map: BTreeMap<String, String>,
}

impl Args {
    pub fn get(&self, k: &str, default: &str) -> String {
        self.map.get(k).cloned().unwrap_or(default.to_string())
    }
    pub fn num(&self, k: &str, default: u64) -> u64 {
        self.map.get(k).map(|v| v.parse().expect("numeric argument")).unwrap_or(default)
    }
    pub fn list(&self, k: &str, default: &str) -> Vec<String> {
        self.get(k, default).split(',').filter(|s| !s.is_empty()).map(|s| s.to_string()).collect()
    }
}

pub fn threads(args: &Args) -> usize {
    args.num("threads", std::thread::available_parallelism().map(|n| n.get()).unwrap_or(4) as u64) as usize
}

pub fn hang_after(args: &Args) -> Duration {
    // CPU seconds of the worker thread on one case (see pool.rs); the largest repository file (814 KB) takes ~10 s
    // to format at two widths, so the default leaves an order of magnitude of head room
    Duration::from_secs(args.num("hang-s", 120))
}

fn main() {
    let argv: Vec<String> = std::env::args().collect();
    if argv.len() < 2 {
        eprintln!("usage: seqmc <text|files|sema|names|...> [--key value]...");
        std::process::exit(2);
    }
    let mut map = BTreeMap::new();
    let mut i = 2;
    while i + 1 < argv.len() + 0 {
        if let Some(k) = argv[i].strip_prefix("--") {
            map.insert(k.to_string(), argv[i + 1].clone());
            i += 2;
        } else {
            eprintln!("bad argument {}", argv[i]);
            std::process::exit(2);
        }
    }
    let args = Args { map };
    pool::install_panic_hook();
    let rep = match argv[1].as_str() {
        "text" => text_cmd(&args),
        "files" => files::run(&args),
        "sema" => sema::run(&args),
        "verdicts" => sema::verdicts(&args),
        "names" => names::run(&args),
        "codec" => codec::run(&args),
        "twin-gen" => codec::run_twin_gen(&args),
        "pkg" => pkgcodec::run_pkg(&args),
        "damage" => pkgcodec::run_damage(&args),
        "semadump" => {
            let t = std::fs::read_to_string(args.get("file", "/dev/stdin")).unwrap();
            let mut rep = Report::default();
            let r = sema::check_sema(&t, &t, &mut rep);
            println!("result: {:?}", r.map(|r| (r.ok, r.errors)));
            for (k, f) in &rep.findings {
                println!("{} :: {}", k, f.detail);
            }
            std::process::exit(0);
        }
        "dump" => {
            let t = std::fs::read_to_string(args.get("file", "/dev/stdin")).unwrap();
            let (f, e) = text::parse(&t);
            let mut o = String::new();
            text::dump_green(f.root().green(), &mut o);
            println!("{}\nerrors: {:?}", o, e);
            std::process::exit(0);
        }
        other => {
            eprintln!("unknown subcommand {}", other);
            std::process::exit(2);
        }
    };
    emit_and_exit(rep);
}

pub fn alphabet(name: &str) -> &'static [&'static str] {
    match name {
        "sigma" => text::SIGMA,
        "core" => text::CORE,
        "delims" => text::DELIMS,
        _ => panic!("unknown alphabet"),
    }
}

pub fn context_indices(args: &Args) -> Vec<usize> {
    let c = args.get("contexts", "all");
    if c == "all" {
        (0..text::CONTEXTS.len()).collect()
    } else {
        c.split(',')
            .map(|n| text::CONTEXTS.iter().position(|x| x.0 == n).expect("unknown context"))
            .collect()
    }
}

fn text_cmd(args: &Args) -> Report {
    let oracle = args.get("oracle", "c06");
    let alpha = alphabet(&args.get("alphabet", "sigma"));
    let maxlen = args.num("maxlen", 2) as usize;
    let minlen = args.num("minlen", 0) as usize;
    let ctxs = context_indices(args);
    let seps: Vec<usize> = args
        .list("seps", "0")
        .iter()
        .map(|s| s.parse().unwrap())
        .collect();
    let widths: Vec<u32> = args.list("widths", "1,20,90").iter().map(|s| s.parse().unwrap()).collect();
    let space = text::Space::new(alpha, maxlen, &ctxs, &seps, minlen);
    set_extra("space_total", space.total.to_string());
    set_extra("alphabet_size", alpha.len().to_string());
    let c16 = oracle == "c16";
    let c17 = oracle == "c17";
    let mut rep = pool::run_space(
        space.total,
        threads(args),
        hang_after(args),
        |i, rep| {
            let (t, ctx) = space.text(i);
            let clean = text::check_parse(&t, &ctx, rep, c16);
            if c17 && clean == Some(true) {
                text::check_format(&t, "", &widths, rep, false);
            }
        },
        |i| space.text(i).0,
    );
    for k in [0u64, space.total / 3, space.total / 2, space.total.saturating_sub(1)] {
        if k < space.total {
            rep.samples.push(space.text(k).0);
        }
    }
    rep
}
