//! C06 (semantic analysis part): check_program on every text of the bounded text space.
use dora_frontend::sema::{Sema, SemaCreationParams};

use crate::pool::{self, guarded, Report};
use crate::text;
use crate::Args;

pub struct SemaResult {
    pub ok: bool,
    pub errors: usize,
}

/// Runs the real front end on one program text.  Reports panics, status mismatch and
/// diagnostics whose span lies outside their file.
pub fn check_sema(text: &str, ex: &str, rep: &mut Report) -> Option<SemaResult> {
    let r = guarded(|| {
        let params = SemaCreationParams::new().set_program_content(text.to_string());
        let mut sa = Sema::new(params);
        let ok = dora_frontend::check_program(&mut sa);
        let mut problems: Vec<String> = Vec::new();
        let has_errors = sa.diag.borrow().has_errors();
        if ok == has_errors {
            problems.push(format!("status-mismatch: check_program={} has_errors={}", ok, has_errors));
        }
        let diag = sa.diag.borrow();
        let n = diag.errors().len();
        for e in diag.errors().iter().chain(diag.warnings().iter()) {
            if let (Some(fid), Some(span)) = (e.file_id, e.span) {
                let f = sa.file(fid);
                let len = f.content.len() as u32;
                if span.start() > len || span.end() > len {
                    problems.push(format!("diag-span-outside-file: {} in file of {} bytes", span, len));
                } else if !f.content.is_char_boundary(span.start() as usize)
                    || !f.content.is_char_boundary(span.end() as usize)
                {
                    problems.push(format!("diag-span-not-on-char-boundary: {}", span));
                }
            }
        }
        drop(diag);
        // rendering the diagnostics must work as well (line/column computation)
        let rendered = sa.diag.borrow_mut().dump_to_string(&sa, true);
        if n > 0 && rendered.is_empty() {
            problems.push("diag-render-empty: errors present but nothing rendered".to_string());
        }
        (ok, n, problems)
    });
    match r {
        Ok((ok, n, problems)) => {
            for p in problems {
                rep.add(format!("sema:{}", p.split(':').next().unwrap_or("?")), ex, &p);
            }
            if ok {
                rep.bump("accepted", 1);
            } else {
                rep.bump("rejected", 1);
            }
            Some(SemaResult { ok, errors: n })
        }
        Err(p) => {
            rep.add(p.key(), ex, &format!("{} at {}", p.message, p.location));
            rep.bump("panicked", 1);
            None
        }
    }
}

pub fn run(args: &Args) -> Report {
    let list = args.get("list", "");
    if !list.is_empty() {
        // every listed file as a program of its own
        let files = crate::files::load(&list, args.num("max-bytes", 200_000));
        let shard_k = args.num("shard", 0);
        let shard_n = args.num("shards", 1);
        let files: Vec<_> = files
            .into_iter()
            .enumerate()
            .filter(|(i, _)| (*i as u64) % shard_n == shard_k)
            .map(|(_, f)| f)
            .collect();
        crate::set_extra("files", files.len().to_string());
        let mut rep = pool::run_space(
            files.len() as u64,
            crate::threads(args),
            std::time::Duration::from_secs(args.num("hang-s", 60)),
            |i, rep| {
                let (p, c) = &files[i as usize];
                check_sema(c, p, rep);
            },
            |i| files[i as usize].0.clone(),
        );
        for f in files.iter().take(3) {
            rep.samples.push(f.0.clone());
        }
        return rep;
    }
    let alpha = crate::alphabet(&args.get("alphabet", "sigma"));
    let maxlen = args.num("maxlen", 1) as usize;
    let minlen = args.num("minlen", 0) as usize;
    let ctxs = crate::context_indices(args);
    let space = text::Space::new(alpha, maxlen, &ctxs, &[0], minlen);
    crate::set_extra("space_total", space.total.to_string());
    crate::set_extra("alphabet_size", alpha.len().to_string());
    let mut rep = pool::run_space(
        space.total,
        crate::threads(args),
        std::time::Duration::from_secs(args.num("hang-s", 60)),
        |i, rep| {
            let (t, _ctx) = space.text(i);
            check_sema(&t, &t, rep);
        },
        |i| space.text(i).0,
    );
    for k in [0u64, space.total / 3, space.total / 2, space.total.saturating_sub(1)] {
        if k < space.total {
            rep.samples.push(space.text(k).0);
        }
    }
    rep
}


/// `verdicts`: semantic-analysis verdict for every program of an input file (programs separated by
/// a line consisting of the single character U+001E). Writes "index\tok|rejected|panic\tnerrors\tfirst message".
pub fn verdicts(args: &Args) -> Report {
    let input = std::fs::read_to_string(args.get("input", "")).expect("input");
    let out_path = args.get("verdict-out", "");
    let programs: Vec<&str> = input.split("\n\u{1e}\n").collect();
    let emit = args.num("emit", 1) == 1;
    let all_diags = args.num("all-diags", 0) == 1;
    let results: std::sync::Mutex<Vec<(usize, String)>> = std::sync::Mutex::new(Vec::new());
    let mut rep = pool::run_space(
        programs.len() as u64,
        crate::threads(args),
        std::time::Duration::from_secs(args.num("hang-s", 120)),
        |i, rep| {
            let text = programs[i as usize];
            let r = guarded(|| {
                let params = SemaCreationParams::new().set_program_content(text.to_string());
                let mut sa = Sema::new(params);
                let ok = dora_frontend::check_program(&mut sa);
                let n = sa.diag.borrow().errors().len();
                let msg = if n > 0 {
                    let rendered = sa.diag.borrow_mut().dump_to_string(&sa, false);
                    if all_diags {
                        rendered.replace('\n', "\u{1f}")
                    } else {
                        rendered.lines().next().unwrap_or("").to_string()
                    }
                } else {
                    String::new()
                };
                let has_errors = sa.diag.borrow().has_errors();
                if ok && !has_errors && emit {
                    // emission runs the bytecode verifier on every function (panics on a malformed one)
                    let prog = dora_frontend::emit_program(sa);
                    std::hint::black_box(prog.functions.len());
                }
                (ok, has_errors, n, msg)
            });
            let line = match r {
                Ok((ok, has_errors, n, msg)) => {
                    if ok == has_errors {
                        rep.add("sema:status-mismatch".into(), text, "check_program result disagrees with has_errors");
                    }
                    format!("{}\t{}\t{}\t{}", i, if ok { "ok" } else { "rejected" }, n, msg.replace('\t', " "))
                }
                Err(p) => {
                    rep.add(p.key(), text, &format!("{} at {}", p.message, p.location));
                    format!("{}\tpanic\t0\t{}", i, p.message.replace('\n', " ").replace('\t', " "))
                }
            };
            results.lock().unwrap().push((i as usize, line));
        },
        |i| programs[i as usize].chars().take(400).collect(),
    );
    let mut v = results.into_inner().unwrap();
    v.sort();
    let text: String = v.into_iter().map(|(_, l)| l + "\n").collect();
    std::fs::write(out_path, text).expect("write verdicts");
    rep.samples.push(programs[0].chars().take(300).collect());
    rep
}
