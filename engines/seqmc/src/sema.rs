//! C06 (semantic analysis part): check_program on every text of the bounded text space.
use dora_frontend::sema::{Sema, SemaCreationParams};

use crate::pool::{self, guarded, Report};
use crate::text;
use crate::Args;

pub struct SemaResult {
    pub ok: bool,
    pub errors: usize,
}

/// Runs the real front end on one program text.  Reports panics, status mismatch and
/// diagnostics whose span lies outside their file.
pub fn check_sema(text: &str, ex: &str, rep: &mut Report) -> Option<SemaResult> {
    let r = guarded(|| {
        let params = SemaCreationParams::new().set_program_content(text.to_string());
        let mut sa = Sema::new(params);
        let ok = dora_frontend::check_program(&mut sa);
        let mut problems: Vec<String> = Vec::new();
        let has_errors = sa.diag.borrow().has_errors();
        if ok == has_errors {
            problems.push(format!("status-mismatch: check_program={} has_errors={}", ok, has_errors));
        }
        let diag = sa.diag.borrow();
        let n = diag.errors().len();
        for e in diag.errors().iter().chain(diag.warnings().iter()) {
            if let (Some(fid), Some(span)) = (e.file_id, e.span) {
                let f = sa.file(fid);
                let len = f.content.len() as u32;
                if span.start() > len || span.end() > len {
                    problems.push(format!("diag-span-outside-file: {} in file of {} bytes", span, len));
                } else if !f.content.is_char_boundary(span.start() as usize)
                    || !f.content.is_char_boundary(span.end() as usize)
                {
                    problems.push(format!("diag-span-not-on-char-boundary: {}", span));
                }
            }
        }
        drop(diag);
        // rendering the diagnostics must work as well (line/column computation)
        let rendered = sa.diag.borrow_mut().dump_to_string(&sa, true);
        if n > 0 && rendered.is_empty() {
            problems.push("diag-render-empty: errors present but nothing rendered".to_string());
        }
        (ok, n, problems)
    });
    match r {
        Ok((ok, n, problems)) => {
            for p in problems {
                rep.add(format!("sema:{}", p.split(':').next().unwrap_or("?")), ex, &p);
            }
            if ok {
                rep.bump("accepted", 1);
            } else {
                rep.bump("rejected", 1);
            }
            Some(SemaResult { ok, errors: n })
        }
        Err(p) => {
            rep.add(p.key(), ex, &format!("{} at {}", p.message, p.location));
            rep.bump("panicked", 1);
            None
        }
    }
}

pub fn run(args: &Args) -> Report {
    let list = args.get("list", "");
    if !list.is_empty() {
        // every listed file as a program of its own
        let files = crate::files::load(&list, args.num("max-bytes", 200_000));
        let shard_k = args.num("shard", 0);
        let shard_n = args.num("shards", 1);
        let files: Vec<_> = files
            .into_iter()
            .enumerate()
            .filter(|(i, _)| (*i as u64) % shard_n == shard_k)
            .map(|(_, f)| f)
            .collect();
        crate::set_extra("files", files.len().to_string());
        let mut rep = pool::run_space(
            files.len() as u64,
            crate::threads(args),
            std::time::Duration::from_secs(args.num("hang-s", 60)),
            |i, rep| {
                let (p, c) = &files[i as usize];
                check_sema(c, p, rep);
            },
            |i| files[i as usize].0.clone(),
        );
        for f in files.iter().take(3) {
            rep.samples.push(f.0.clone());
        }
        return rep;
    }
    let alpha = crate::alphabet(&args.get("alphabet", "sigma"));
    let maxlen = args.num("maxlen", 1) as usize;
    let minlen = args.num("minlen", 0) as usize;
    let ctxs = crate::context_indices(args);
    let space = text::Space::new(alpha, maxlen, &ctxs, &[0], minlen);
    crate::set_extra("space_total", space.total.to_string());
    crate::set_extra("alphabet_size", alpha.len().to_string());
    let mut rep = pool::run_space(
        space.total,
        crate::threads(args),
        std::time::Duration::from_secs(args.num("hang-s", 60)),
        |i, rep| {
            let (t, _ctx) = space.text(i);
            check_sema(&t, &t, rep);
        },
        |i| space.text(i).0,
    );
    for k in [0u64, space.total / 3, space.total / 2, space.total.saturating_sub(1)] {
        if k < space.total {
            rep.samples.push(space.text(k).0);
        }
    }
    rep
}
