//! Parallel exhaustive runner over an index space with panic capture and a hang watchdog.
use std::backtrace::Backtrace;
use std::cell::RefCell;
use std::collections::BTreeMap;
use std::panic::{self, AssertUnwindSafe};
use std::sync::atomic::{AtomicU64, AtomicUsize, Ordering};
use std::sync::{Arc, Mutex};
use std::time::{Duration, Instant};

#[derive(Clone, Debug)]
pub struct PanicInfo {
    pub message: String,
    pub location: String,
    pub function: String,
}

impl PanicInfo {
    /// Identity of a panic class: message head + innermost repository function (no line numbers).
    pub fn key(&self) -> String {
        let mut head: String = self.message.lines().next().unwrap_or("").chars().take(60).collect();
        // strip volatile numbers/identifiers from the message head
        head = head
            .chars()
            .map(|c| if c.is_ascii_digit() { '#' } else { c })
            .collect();
        format!("panic:{}@{}", head, self.function)
    }
}

thread_local! {
    static LAST_PANIC: RefCell<Option<PanicInfo>> = RefCell::new(None);
}

fn innermost_repo_function(bt: &str) -> String {
    // Backtrace lines look like "  12: dora_parser::parser::Parser::expect\n   at /repo/...".
    // Pick the first frame whose source path is under /repo/ (the innermost repository frame).
    let lines: Vec<&str> = bt.lines().collect();
    let mut i = 0;
    while i < lines.len() {
        let l = lines[i].trim();
        if let Some(pos) = l.find(": ") {
            if l[..pos].chars().all(|c| c.is_ascii_digit()) {
                let sym = &l[pos + 2..];
                let at = if i + 1 < lines.len() { lines[i + 1].trim() } else { "" };
                if at.starts_with("at /repo/") || (at.is_empty() && sym.starts_with("dora_")) {
                    let mut s = sym.to_string();
                    // drop trailing hash
                    if let Some(p) = s.rfind("::h") {
                        if s[p + 3..].chars().all(|c| c.is_ascii_hexdigit()) {
                            s.truncate(p);
                        }
                    }
                    // drop generic args and closure markers for stability
                    let mut s = s.replace("::{{closure}}", "");
                    if let Some(p) = s.find('<') {
                        s.truncate(p);
                    }
                    return s;
                }
            }
        }
        i += 1;
    }
    "?".to_string()
}

pub fn install_panic_hook() {
    panic::set_hook(Box::new(|info| {
        let message = if let Some(s) = info.payload().downcast_ref::<&str>() {
            s.to_string()
        } else if let Some(s) = info.payload().downcast_ref::<String>() {
            s.clone()
        } else {
            "<non-string panic>".to_string()
        };
        let location = info
            .location()
            .map(|l| format!("{}:{}", l.file(), l.line()))
            .unwrap_or_default();
        if std::env::var_os("SEQMC_BT").is_some() {
            eprintln!("PANIC {} at {}\n{}", message, location, Backtrace::force_capture());
        }
        // backtraces are expensive: resolve the innermost repository function once per panic site
        static SITE_CACHE: Mutex<BTreeMap<String, String>> = Mutex::new(BTreeMap::new());
        let site = format!("{}|{}", location, message.chars().take(40).collect::<String>());
        let cached = SITE_CACHE.lock().unwrap().get(&site).cloned();
        let function = match cached {
            Some(f) => f,
            None => {
                let bt = Backtrace::force_capture().to_string();
                let f = innermost_repo_function(&bt);
                SITE_CACHE.lock().unwrap().insert(site, f.clone());
                f
            }
        };
        LAST_PANIC.with(|p| {
            // keep the first panic of a case (later ones are usually consequences)
            let mut p = p.borrow_mut();
            if p.is_none() {
                *p = Some(PanicInfo { message, location, function });
            }
        });
    }));
}

/// Run `f` and return Err(PanicInfo) if it panicked.
pub fn guarded<R>(f: impl FnOnce() -> R) -> Result<R, PanicInfo> {
    LAST_PANIC.with(|p| *p.borrow_mut() = None);
    match panic::catch_unwind(AssertUnwindSafe(f)) {
        Ok(r) => Ok(r),
        Err(_) => Err(LAST_PANIC.with(|p| p.borrow_mut().take()).unwrap_or(PanicInfo {
            message: "<unknown>".into(),
            location: String::new(),
            function: "?".into(),
        })),
    }
}

#[derive(Default, Clone)]
pub struct Finding {
    pub count: u64,
    pub example: String, // shortest example input
    pub detail: String,
}

#[derive(Default)]
pub struct Report {
    pub evaluations: u64,
    pub findings: BTreeMap<String, Finding>,
    pub counters: BTreeMap<String, u64>,
    pub samples: Vec<String>,
    pub hang: Option<String>,
}

impl Report {
    pub fn add(&mut self, key: String, example: &str, detail: &str) {
        if std::env::var_os("SEQMC_VERBOSE").is_some() {
            eprintln!("FINDING {} :: {} :: {}", key, example.chars().take(200).collect::<String>(), detail.chars().take(400).collect::<String>());
        }
        let f = self.findings.entry(key).or_default();
        f.count += 1;
        if f.example.is_empty() || (example.len(), example) < (f.example.len(), f.example.as_str()) {
            f.example = example.to_string();
            f.detail = detail.to_string();
        }
    }
    pub fn bump(&mut self, name: &str, by: u64) {
        *self.counters.entry(name.to_string()).or_default() += by;
    }
    pub fn merge(&mut self, other: Report) {
        self.evaluations += other.evaluations;
        for (k, f) in other.findings {
            let e = self.findings.entry(k).or_default();
            e.count += f.count;
            if e.example.is_empty() || (!f.example.is_empty() && (f.example.len(), f.example.as_str()) < (e.example.len(), e.example.as_str())) {
                e.example = f.example;
                e.detail = f.detail;
            }
        }
        for (k, v) in other.counters {
            *self.counters.entry(k).or_default() += v;
        }
        if self.samples.len() < 8 {
            for s in other.samples {
                if self.samples.len() < 8 {
                    self.samples.push(s);
                }
            }
        }
        if self.hang.is_none() {
            self.hang = other.hang;
        }
    }
}

/// Run `case(index, &mut Report)` for every index in 0..total on `threads` workers.
/// `describe(index)` renders the input for hang reports. A case that runs longer than `hang_after`
/// makes the whole run stop with `hang` set (the stuck thread cannot be killed; the caller exits).
fn rss_bytes() -> u64 {
    std::fs::read_to_string("/proc/self/statm")
        .ok()
        .and_then(|t| t.split_whitespace().nth(1).and_then(|p| p.parse::<u64>().ok()))
        .map(|pages| pages * 4096)
        .unwrap_or(0)
}

fn max_rss_bytes() -> u64 {
    std::env::var("SEQMC_MAX_RSS_GB").ok().and_then(|v| v.parse::<u64>().ok()).unwrap_or(16) << 30
}

/// CPU time consumed so far by the thread with the given pthread id (0 if it cannot be read).
fn thread_cpu_ns(pt: u64) -> u64 {
    unsafe {
        let mut clk: libc::clockid_t = 0;
        if libc::pthread_getcpuclockid(pt as libc::pthread_t, &mut clk) != 0 {
            return 0;
        }
        let mut ts: libc::timespec = std::mem::zeroed();
        if libc::clock_gettime(clk, &mut ts) != 0 {
            return 0;
        }
        ts.tv_sec as u64 * 1_000_000_000 + ts.tv_nsec as u64
    }
}

pub fn run_space<F, D>(total: u64, threads: usize, hang_after: Duration, case: F, describe: D) -> Report
where
    F: Fn(u64, &mut Report) + Sync,
    D: Fn(u64) -> String + Sync,
{
    run_space_chunked(total, threads, hang_after, 64, case, describe)
}

/// Like `run_space` with an explicit work-distribution granularity (1 for heavy, size-sorted cases).
pub fn run_space_chunked<F, D>(total: u64, threads: usize, hang_after: Duration, chunk: u64, case: F, describe: D) -> Report
where
    F: Fn(u64, &mut Report) + Sync,
    D: Fn(u64) -> String + Sync,
{
    let next = AtomicU64::new(0);
    let slots: Vec<(AtomicU64, Mutex<Option<Instant>>)> =
        (0..threads).map(|_| (AtomicU64::new(u64::MAX), Mutex::new(None))).collect();
    // CPU-time watchdog: a case counts as hanging when its worker thread has burnt more than `hang_after` of CPU
    // time on it (wall-clock time says nothing on a loaded machine), or when 30x that much wall time has passed
    // (a blocked case burns no CPU).
    let cpu: Vec<(AtomicU64, AtomicU64)> = (0..threads).map(|_| (AtomicU64::new(0), AtomicU64::new(0))).collect();
    let done = AtomicUsize::new(0);
    let merged = Arc::new(Mutex::new(Report::default()));
    let hang: Mutex<Option<String>> = Mutex::new(None);

    std::thread::scope(|s| {
        for t in 0..threads {
            let next = &next;
            let slots = &slots;
            let done = &done;
            let merged = merged.clone();
            let case = &case;
            let cpu = &cpu;
            s.spawn(move || {
                cpu[t].0.store(unsafe { libc::pthread_self() } as u64, Ordering::SeqCst);
                let mut rep = Report::default();
                loop {
                    let start = next.fetch_add(chunk, Ordering::Relaxed);
                    if start >= total {
                        break;
                    }
                    let end = (start + chunk).min(total);
                    for i in start..end {
                        slots[t].0.store(i, Ordering::Relaxed);
                        cpu[t].1.store(thread_cpu_ns(cpu[t].0.load(Ordering::SeqCst)), Ordering::SeqCst);
                        *slots[t].1.lock().unwrap() = Some(Instant::now());
                        case(i, &mut rep);
                        rep.evaluations += 1;
                    }
                    *slots[t].1.lock().unwrap() = None;
                }
                *slots[t].1.lock().unwrap() = None;
                merged.lock().unwrap().merge(rep);
                done.fetch_add(1, Ordering::SeqCst);
            });
        }
        // watchdog (runs on the scope's owner thread)
        loop {
            if done.load(Ordering::SeqCst) == threads {
                break;
            }
            std::thread::sleep(Duration::from_millis(100));
            // a case that allocates without bound is as much a non-terminating case as one that spins: stop before the
            // machine does, and name the case that has been running longest
            if rss_bytes() > max_rss_bytes() {
                let mut oldest: Option<(Instant, usize)> = None;
                for t in 0..threads {
                    if let Some(st) = *slots[t].1.lock().unwrap() {
                        if oldest.map(|(o, _)| st < o).unwrap_or(true) {
                            oldest = Some((st, t));
                        }
                    }
                }
                let d = match oldest {
                    Some((_, t)) => describe(slots[t].0.load(Ordering::Relaxed)),
                    None => "<no case running>".to_string(),
                };
                let mut rep = Report::default();
                rep.hang = Some(format!("{} [memory use exceeded {} GB]", d, max_rss_bytes() >> 30));
                crate::emit_and_exit(rep);
            }
            for t in 0..threads {
                let started = *slots[t].1.lock().unwrap();
                if let Some(st) = started {
                    let pt = cpu[t].0.load(Ordering::SeqCst);
                    let burnt = if pt != 0 {
                        Duration::from_nanos(thread_cpu_ns(pt).saturating_sub(cpu[t].1.load(Ordering::SeqCst)))
                    } else {
                        Duration::ZERO
                    };
                    // re-read: the worker may have moved on to the next case in between
                    let same = *slots[t].1.lock().unwrap() == Some(st);
                    if same && (burnt > hang_after || st.elapsed() > hang_after * 30) {
                        let idx = slots[t].0.load(Ordering::Relaxed);
                        let d = describe(idx);
                        *hang.lock().unwrap() = Some(d.clone());
                        // cannot kill the thread: emit what we have and leave the process.
                        let mut rep = Report::default();
                        rep.hang = Some(d);
                        crate::emit_and_exit(rep);
                    }
                }
            }
        }
    });
    let mut rep = std::mem::take(&mut *merged.lock().unwrap());
    rep.hang = hang.lock().unwrap().clone();
    rep
}
