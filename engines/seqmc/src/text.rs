//! Bounded-exhaustive text space over a lexeme alphabet, and the oracles of C06 (parse level),
//! C16 (lossless tree) and C17 (formatter) evaluated on every text.
use std::sync::Arc;

use dora_parser::ast::{SyntaxElement, SyntaxNode, SyntaxNodeBase};
use dora_parser::{GreenElement, GreenNode, ParseErrorWithLocation, Parser, TokenKind};

use crate::pool::{guarded, Report};

pub use crate::textspace::{Space, CONTEXTS, CORE, DELIMS, SEPS, SIGMA};

pub fn parse(text: &str) -> (dora_parser::ast::File, Vec<ParseErrorWithLocation>) {
    Parser::from_shared_string(Arc::new(text.to_string())).parse()
}

fn green_sum(node: &GreenNode, problems: &mut Vec<String>) -> u32 {
    let mut sum = 0u32;
    for ch in node.children() {
        match ch {
            GreenElement::Token(t) => sum += t.text.len() as u32,
            GreenElement::Node(n) => {
                let s = green_sum(n, problems);
                sum += s;
            }
        }
    }
    if sum != node.text_length() {
        problems.push(format!(
            "node-length: {:?} text_length {} != sum of children {}",
            node.syntax_kind(),
            node.text_length(),
            sum
        ));
    }
    sum
}

fn red_walk(node: &SyntaxNode, text: &str, pos: &mut u32, problems: &mut Vec<String>, tokens: &mut u64) -> Option<(u32, u32)> {
    if node.offset().value() != *pos {
        problems.push(format!("node-offset: {:?} starts at {} expected {}", node.syntax_kind(), node.offset().value(), *pos));
    }
    let full = node.full_span();
    let start = *pos;
    // extent of the non-trivia tokens below this node
    let mut first: Option<u32> = None;
    let mut last: Option<u32> = None;
    for el in node.children_with_tokens() {
        match el {
            SyntaxElement::Token(t) => {
                *tokens += 1;
                let sp = t.span();
                if sp.start() != *pos {
                    problems.push(format!("token-gap: {:?} at {} expected {}", t.syntax_kind(), sp.start(), *pos));
                }
                let end = sp.end() as usize;
                let st = sp.start() as usize;
                if end > text.len() || st > end || !text.is_char_boundary(st) || !text.is_char_boundary(end) {
                    problems.push(format!("token-span-outside: {:?} {}..{} of {}", t.syntax_kind(), st, end, text.len()));
                } else if &text[st..end] != t.text() {
                    problems.push(format!("token-text: {:?} at {}", t.syntax_kind(), st));
                }
                if !is_ws(t.syntax_kind()) && !is_comment(t.syntax_kind()) {
                    if first.is_none() {
                        first = Some(sp.start());
                    }
                    last = Some(sp.end());
                }
                *pos = sp.end();
            }
            SyntaxElement::Node(n) => {
                if let Some((f, l)) = red_walk(&n, text, pos, problems, tokens) {
                    if first.is_none() {
                        first = Some(f);
                    }
                    last = Some(l);
                }
            }
        }
    }
    if full.start() != start || full.end() != *pos {
        problems.push(format!("node-span: {:?} full_span {} but children cover {}..{}", node.syntax_kind(), full, start, *pos));
    }
    let nt = node.span();
    if !(full.start() <= nt.start() && nt.end() <= full.end()) {
        problems.push(format!("node-nontrivia-span: {:?} {} outside {}", node.syntax_kind(), nt, full));
    } else if !text.is_char_boundary(nt.start() as usize) || !text.is_char_boundary(nt.end() as usize) {
        problems.push(format!("node-nontrivia-span-inside-character: {:?} {}", node.syntax_kind(), nt));
    } else if let (Some(f), Some(l)) = (first, last) {
        // the span diagnostics and the language server use: from the first to the last non-trivia token
        if nt.start() != f || nt.end() != l {
            problems.push(format!("node-nontrivia-span-extent: {:?} span {} but its code tokens cover {}..{}", node.syntax_kind(), nt, f, l));
        }
    }
    match (first, last) {
        (Some(f), Some(l)) => Some((f, l)),
        _ => None,
    }
}

pub fn dump_green(node: &GreenNode, out: &mut String) {
    out.push('(');
    out.push_str(&format!("{:?}", node.syntax_kind()));
    for ch in node.children() {
        match ch {
            GreenElement::Token(t) => {
                out.push(' ');
                out.push_str(&format!("{:?}:{:?}", t.kind, t.text.as_str()));
            }
            GreenElement::Node(n) => {
                out.push(' ');
                dump_green(n, out);
            }
        }
    }
    out.push(')');
}

/// C06 (parser part) + C16 on one text.  Returns whether the text parsed without errors.
pub fn check_parse(text: &str, ctx: &str, rep: &mut Report, c16: bool) -> Option<bool> {
    let ex: &str = if ctx.starts_with('/') { ctx } else { text };
    let res = guarded(|| parse(text));
    let (file, errors) = match res {
        Ok(r) => r,
        Err(p) => {
            rep.add(p.key(), ex, &format!("{} at {} [{}]", p.message, p.location, ctx));
            return None;
        }
    };
    let len = text.len() as u32;
    for e in &errors {
        if e.span.end() > len || e.span.start() > len {
            rep.add("error-span-outside-text".into(), ex, &format!("{:?} span {} len {}", e.error, e.span, len));
        } else if !text.is_char_boundary(e.span.start() as usize) || !text.is_char_boundary(e.span.end() as usize) {
            rep.add("error-span-not-on-char-boundary".into(), ex, &format!("{:?} span {}", e.error, e.span));
        }
    }
    if c16 {
        let r = guarded(|| {
            let mut problems = Vec::new();
            let root = file.root();
            let s = root.green().to_string();
            if s != text {
                problems.push(format!("roundtrip: tree text {:?}", s));
            }
            green_sum(root.green(), &mut problems);
            if root.green().text_length() != len {
                problems.push(format!("root-length: {} != {}", root.green().text_length(), len));
            }
            let mut pos = 0u32;
            let mut tokens = 0u64;
            red_walk(&root, text, &mut pos, &mut problems, &mut tokens);
            if pos != len {
                problems.push(format!("tiling-end: tokens end at {} text len {}", pos, len));
            }
            if errors.is_empty() {
                // reproduced text parsed again gives the same tree
                let (file2, errors2) = parse(&s);
                let mut a = String::new();
                let mut b = String::new();
                dump_green(root.green(), &mut a);
                dump_green(file2.root().green(), &mut b);
                if !errors2.is_empty() || a != b {
                    problems.push("reparse: reproduced text parses differently".to_string());
                }
            }
            (problems, tokens)
        });
        match r {
            Ok((problems, tokens)) => {
                rep.bump("tokens_walked", tokens);
                for p in problems {
                    let key = format!("c16:{}", p.split(':').next().unwrap_or("?"));
                    rep.add(key, ex, &p);
                }
            }
            Err(p) => rep.add(format!("c16:{}", p.key()), ex, &format!("{} at {}", p.message, p.location)),
        }
    }
    if errors.is_empty() {
        rep.bump("clean_texts", 1);
    } else {
        rep.bump("texts_with_errors", 1);
    }
    Some(errors.is_empty())
}

// ------------------------------------------------------------------------------------------
// C17 oracle

#[derive(Debug, Clone)]
pub struct Tok {
    pub text: String,
    pub close: bool,
    pub kind: TokenKind,
    pub parent: TokenKind,
}

impl PartialEq for Tok {
    fn eq(&self, o: &Tok) -> bool {
        self.text == o.text && self.close == o.close
    }
}
impl Eq for Tok {}
impl PartialOrd for Tok {
    fn partial_cmp(&self, o: &Tok) -> Option<std::cmp::Ordering> {
        Some(self.cmp(o))
    }
}
impl Ord for Tok {
    fn cmp(&self, o: &Tok) -> std::cmp::Ordering {
        (&self.text, self.close).cmp(&(&o.text, o.close))
    }
}

fn tk(t: &dora_parser::GreenToken, close: bool, parent: TokenKind) -> Tok {
    Tok { text: t.text.to_string(), close, kind: t.kind, parent }
}

/// A comment with the signature of the syntactic site it sits in.
fn push_comment(comments: &mut Vec<String>, t: &dora_parser::GreenToken, parent: TokenKind, ch: &[GreenElement], i: usize) {
    let before = ch[..i].iter().any(|c| !c.is_trivia());
    let after = ch[i + 1..].iter().any(|c| !c.is_trivia());
    let pos = match (before, after) {
        (false, false) => "only",
        (false, true) => "first",
        (true, true) => "mid",
        (true, false) => "last",
    };
    comments.push(format!("{}\u{1}{:?}:{}", t.text.trim_end(), parent, pos));
}

fn is_ws(k: TokenKind) -> bool {
    matches!(k, TokenKind::WHITESPACE | TokenKind::NEWLINE)
}

fn is_comment(k: TokenKind) -> bool {
    matches!(k, TokenKind::LINE_COMMENT | TokenKind::MULTILINE_COMMENT)
}

fn node_ends_in_block(n: &GreenNode) -> bool {
    for ch in n.children().iter().rev() {
        match ch {
            GreenElement::Token(t) if is_ws(t.kind) || is_comment(t.kind) => continue,
            GreenElement::Token(_) => return false,
            GreenElement::Node(c) => return c.syntax_kind() == TokenKind::BLOCK_EXPR,
        }
    }
    false
}

fn canon_sorted(children: Vec<Vec<Tok>>, out: &mut Vec<Tok>, sep: Option<&str>) {
    let mut items = children;
    items.sort();
    for (i, it) in items.into_iter().enumerate() {
        if i > 0 {
            if let Some(s) = sep {
                out.push(Tok { text: s.to_string(), close: false, kind: TokenKind::COMMA, parent: TokenKind::USE_GROUP });
            }
        }
        out.extend(it);
    }
}

/// Canonical code-token sequence of a tree: the token sequence modulo exactly the changes the
/// formatter is entitled to make (layout; optional trailing separators; the order of `use`
/// declarations inside a run of consecutive `use`s and inside a use group; the order of modifiers).
/// Comment texts are collected separately.
pub fn canon(node: &GreenNode, out: &mut Vec<Tok>, comments: &mut Vec<String>) {
    let kind = node.syntax_kind();
    let ch = node.children();
    let mut i = 0;
    while i < ch.len() {
        match &ch[i] {
            GreenElement::Token(t) => {
                if is_ws(t.kind) {
                } else if is_comment(t.kind) {
                    push_comment(comments, t, kind, ch, i);
                } else if t.kind == TokenKind::COMMA && kind == TokenKind::MATCH_EXPR {
                    // optional after a block-bodied arm, required otherwise (kept)
                    let mut prev_block = false;
                    for p in ch[..i].iter().rev() {
                        match p {
                            GreenElement::Token(t) if is_ws(t.kind) || is_comment(t.kind) => continue,
                            GreenElement::Node(n) if n.syntax_kind() == TokenKind::MATCH_ARM => {
                                prev_block = node_ends_in_block(n);
                                break;
                            }
                            _ => break,
                        }
                    }
                    if !prev_block {
                        out.push(tk(t, false, kind));
                    }
                } else {
                    let close = matches!(t.kind, TokenKind::R_PAREN | TokenKind::R_BRACKET | TokenKind::R_BRACE)
                        || (t.kind == TokenKind::OR && (kind == TokenKind::LAMBDA_PARAM_LIST || kind == TokenKind::PARAM_LIST) && ch[..i].iter().any(|c| !c.is_trivia()));
                    out.push(tk(t, close, kind));
                }
                i += 1;
            }
            GreenElement::Node(n) => {
                let k = n.syntax_kind();
                if k == TokenKind::USE && kind == TokenKind::ELEMENT_LIST {
                    // a run of consecutive use declarations
                    let mut run: Vec<Vec<Tok>> = Vec::new();
                    while i < ch.len() {
                        match &ch[i] {
                            GreenElement::Node(u) if u.syntax_kind() == TokenKind::USE => {
                                let mut v = Vec::new();
                                canon(u, &mut v, comments);
                                run.push(v);
                                i += 1;
                            }
                            GreenElement::Token(t) if is_ws(t.kind) => i += 1,
                            _ => break,
                        }
                    }
                    canon_sorted(run, out, None);
                    continue;
                }
                if k == TokenKind::USE_GROUP {
                    let mut items: Vec<Vec<Tok>> = Vec::new();
                    let mut rest_open: Vec<Tok> = Vec::new();
                    let mut rest_close: Vec<Tok> = Vec::new();
                    for (ci, c) in n.children().iter().enumerate() {
                        match c {
                            GreenElement::Node(li) if li.syntax_kind() == TokenKind::LIST_ITEM => {
                                let mut v = Vec::new();
                                canon(li, &mut v, comments);
                                while v.last().map(|t| t.text == ",").unwrap_or(false) {
                                    v.pop();
                                }
                                items.push(v);
                            }
                            GreenElement::Node(o) => {
                                let mut v = Vec::new();
                                canon(o, &mut v, comments);
                                items.push(v);
                            }
                            GreenElement::Token(t) => {
                                if is_ws(t.kind) {
                                } else if is_comment(t.kind) {
                                    push_comment(comments, t, k, n.children(), ci);
                                } else if t.kind == TokenKind::L_BRACE {
                                    rest_open.push(tk(t, false, k));
                                } else {
                                    rest_close.push(tk(t, t.kind == TokenKind::R_BRACE, k));
                                }
                            }
                        }
                    }
                    out.extend(rest_open);
                    canon_sorted(items, out, Some(","));
                    out.extend(rest_close);
                    i += 1;
                    continue;
                }
                if k == TokenKind::MODIFIER_LIST {
                    let mut items: Vec<Vec<Tok>> = Vec::new();
                    for (ci, c) in n.children().iter().enumerate() {
                        match c {
                            GreenElement::Node(m) => {
                                let mut v = Vec::new();
                                canon(m, &mut v, comments);
                                items.push(v);
                            }
                            GreenElement::Token(t) => {
                                if is_comment(t.kind) {
                                    push_comment(comments, t, k, n.children(), ci);
                                } else if !is_ws(t.kind) {
                                    items.push(vec![tk(t, false, k)]);
                                }
                            }
                        }
                    }
                    canon_sorted(items, out, None);
                    i += 1;
                    continue;
                }
                canon(n, out, comments);
                i += 1;
            }
        }
    }
}

/// Innermost node kind whose full range contains byte offset `off`.
pub fn kind_at(root: &GreenNode, off: u32) -> TokenKind {
    let mut node = root;
    let mut base = 0u32;
    'outer: loop {
        let mut pos = base;
        for c in node.children() {
            match c {
                GreenElement::Token(t) => pos += t.text.len() as u32,
                GreenElement::Node(n) => {
                    if off >= pos && off < pos + n.text_length() {
                        node = n;
                        base = pos;
                        continue 'outer;
                    }
                    pos += n.text_length();
                }
            }
        }
        return node.syntax_kind();
    }
}

/// The comma of a one-element tuple EXPRESSION `(x,)` is not an optional separator: without it the text is a
/// parenthesised expression.  `i` is the index of a comma directly before a closing bracket.
fn mandatory_single_tuple_comma(code: &[Tok], i: usize) -> bool {
    let mut depth = 0usize;
    let mut j = i;
    while j > 0 {
        j -= 1;
        let t = &code[j];
        if t.close {
            depth += 1;
        } else if t.text == "(" || t.text == "[" || t.text == "{" || t.text == "|" {
            if depth == 0 {
                // only in expression position: `(T)` as a type and `(p)` as a pattern are one-element tuples with or
                // without the comma (checked against the front end), `(e)` is a parenthesised expression
                return t.text == "(" && matches!(t.parent, TokenKind::TUPLE_EXPR);
            }
            depth -= 1;
        } else if t.text == "," && depth == 0 {
            return false; // more than one element
        }
    }
    false
}

/// Drop optional trailing commas: a `,` directly before a closing bracket; an empty lambda
/// parameter list `| |` is the same as `||`.
fn normalise(code: &[Tok]) -> Vec<Tok> {
    let mut out: Vec<Tok> = Vec::with_capacity(code.len());
    for (i, t) in code.iter().enumerate() {
        if t.text == "|" && t.close && t.parent == TokenKind::PARAM_LIST {
            if let Some(p) = out.last_mut() {
                if p.text == "|" && !p.close && p.parent == TokenKind::PARAM_LIST {
                    p.text = "||".to_string();
                    continue;
                }
            }
        }
        if t.text == "," && !t.close {
            if let Some(n) = code.get(i + 1) {
                if n.close && !mandatory_single_tuple_comma(code, i) {
                    continue;
                }
            }
        }
        out.push(t.clone());
    }
    out
}

fn collect_tokens(node: &GreenNode, code: &mut Vec<Tok>, comments: &mut Vec<String>) {
    canon(node, code, comments)
}

pub struct FmtOutcome {
    pub formatted: bool,
}

/// C17 on one text that parses without errors.
pub fn check_format(text: &str, id: &str, widths: &[u32], rep: &mut Report, relaxed_order: bool) -> FmtOutcome {
    let ex: &str = if id.is_empty() { text } else { id };
    // unedited repository files get their own key space (suffix), so that a known finding about
    // exotic comment placements can never hide a regression on ordinary files
    let plain = id.ends_with("|plain");
    let mut local = Report::default();
    let out = check_format_inner(text, ex, widths, &mut local, relaxed_order);
    for (k, f) in local.findings {
        let key = if plain { format!("{}|plain-repo-file", k) } else { k };
        for _ in 0..f.count {
            rep.add(key.clone(), &f.example, &f.detail);
        }
    }
    for (k, v) in local.counters {
        rep.bump(&k, v);
    }
    out
}

fn check_format_inner(text: &str, ex: &str, widths: &[u32], rep: &mut Report, relaxed_order: bool) -> FmtOutcome {
    let (file, errors) = parse(text);
    if !errors.is_empty() {
        return FmtOutcome { formatted: false };
    }
    let mut code0 = Vec::new();
    let mut comments0 = Vec::new();
    collect_tokens(file.root().green(), &mut code0, &mut comments0);
    let norm0 = normalise(&code0);
    comments0.sort();
    for &w in widths {
        let r = guarded(|| dora_format::format_source_with_line_length(text, w));
        let out = match r {
            Err(p) => {
                rep.add(format!("c17:{}", p.key()), ex, &format!("width {}: {} at {}", w, p.message, p.location));
                continue;
            }
            Ok(Err(_)) => {
                rep.add("c17:rejected-clean-input".into(), ex, &format!("width {}", w));
                continue;
            }
            Ok(Ok(o)) => o,
        };
        rep.bump("format_runs", 1);
        let (file1, errors1) = parse(&out);
        if !errors1.is_empty() {
            rep.add("c17:output-does-not-parse".into(), ex, &format!("width {}: {:?}", w, out));
            continue;
        }
        let mut code1 = Vec::new();
        let mut comments1 = Vec::new();
        collect_tokens(file1.root().green(), &mut code1, &mut comments1);
        let norm1 = normalise(&code1);
        comments1.sort();
        if norm0 != norm1 {
            let mut same_multiset = false;
            if relaxed_order {
                let mut a: Vec<String> = norm0.iter().map(|t| t.text.clone()).collect();
                let mut b: Vec<String> = norm1.iter().map(|t| t.text.clone()).collect();
                a.sort();
                b.sort();
                same_multiset = a == b;
            }
            if !same_multiset {
                let pos = norm0.iter().zip(norm1.iter()).position(|(a, b)| a != b).unwrap_or(norm0.len().min(norm1.len()));
                let a = norm0.get(pos).map(|t| t.text.clone()).unwrap_or("<end>".into());
                let b = norm1.get(pos).map(|t| t.text.clone()).unwrap_or("<end>".into());
                let sig = format!(
                    "{}:{}->{}",
                    norm0.get(pos).map(|t| format!("{:?}", t.parent)).unwrap_or("<end>".into()),
                    norm0.get(pos).map(|t| format!("{:?}", t.kind)).unwrap_or("<end>".into()),
                    norm1.get(pos).map(|t| format!("{:?}", t.kind)).unwrap_or("<end>".into())
                );
                rep.add(
                    format!("c17:tokens-changed@{}", sig), ex,
                    &format!("width {}: token #{} {:?} became {:?}; output {:?}", w, pos, a, b, out),
                );
            } else {
                rep.bump("reordered_outputs", 1);
            }
        }
        {
            // compare comment texts as multisets; a lost/added comment is keyed by its syntactic site
            let strip = |v: &Vec<String>| -> Vec<String> { let mut o: Vec<String> = v.iter().map(|c| c.split('\u{1}').next().unwrap().to_string()).collect(); o.sort(); o };
            let t0 = strip(&comments0);
            let t1 = strip(&comments1);
            if t0 != t1 {
                let mut rest = t1.clone();
                let mut lost_sig = String::from("added");
                for c in &comments0 {
                    let txt = c.split('\u{1}').next().unwrap().to_string();
                    if let Some(p) = rest.iter().position(|x| *x == txt) {
                        rest.remove(p);
                    } else {
                        lost_sig = c.split('\u{1}').nth(1).unwrap_or("?").to_string();
                        break;
                    }
                }
                rep.add(format!("c17:comments-changed@{}", lost_sig), ex, &format!("width {}: {:?} -> {:?}; output {:?}", w, t0, t1, out));
            }
        }
        let r2 = guarded(|| dora_format::format_source_with_line_length(&out, w));
        match r2 {
            Err(p) => rep.add(format!("c17:second-pass:{}", p.key()), ex, &format!("width {}: {}", w, p.message)),
            Ok(Err(_)) => rep.add("c17:second-pass-rejected".into(), ex, &format!("width {}", w)),
            Ok(Ok(o2)) => {
                if *o2 != *out {
                    let off = out.bytes().zip(o2.bytes()).position(|(a, b)| a != b).unwrap_or(out.len().min(o2.len()));
                    let sig = kind_at(file1.root().green(), off as u32);
                    rep.add(format!("c17:not-idempotent@{:?}", sig), ex, &format!("width {}: first {:?} second {:?}", w, out, o2));
                }
            }
        }
    }
    FmtOutcome { formatted: true }
}
