//! Every repository source file, and every single-token edit / layout mutant of it.
use std::sync::Arc;

use dora_parser::{lex, TokenKind};

use crate::pool::{self, Report};
use crate::text;
use crate::Args;

struct SrcFile {
    path: String,
    content: Arc<String>,
    starts: Vec<u32>, // token starts (without EOF)
    kinds: Vec<TokenKind>,
}

const CHUNK: usize = 32;

pub fn load(list: &str, max_bytes: u64) -> Vec<(String, String)> {
    let mut out = Vec::new();
    for line in std::fs::read_to_string(list).expect("file list").lines() {
        let p = line.trim();
        if p.is_empty() {
            continue;
        }
        if let Ok(bytes) = std::fs::read(p) {
            if bytes.len() as u64 > max_bytes {
                continue;
            }
            if let Ok(s) = String::from_utf8(bytes) {
                out.push((p.to_string(), s));
            }
        }
    }
    out
}

fn token_text<'a>(f: &'a SrcFile, i: usize) -> &'a str {
    let s = f.starts[i] as usize;
    let e = if i + 1 < f.starts.len() { f.starts[i + 1] as usize } else { f.content.len() };
    &f.content[s..e]
}

fn edits(f: &SrcFile, i: usize, out: &mut Vec<(String, String)>) {
    let c = f.content.as_str();
    let s = f.starts[i] as usize;
    let e = if i + 1 < f.starts.len() { f.starts[i + 1] as usize } else { c.len() };
    let tok = &c[s..e];
    // delete
    out.push((format!("delete@{}", i), format!("{}{}", &c[..s], &c[e..])));
    // duplicate
    out.push((format!("dup@{}", i), format!("{}{}{}{}", &c[..s], tok, tok, &c[e..])));
    // swap with the next non-whitespace token
    let mut j = i + 1;
    while j < f.kinds.len() && matches!(f.kinds[j], TokenKind::WHITESPACE | TokenKind::NEWLINE) {
        j += 1;
    }
    if j < f.starts.len() {
        let s2 = f.starts[j] as usize;
        let e2 = if j + 1 < f.starts.len() { f.starts[j + 1] as usize } else { c.len() };
        out.push((
            format!("swap@{}", i),
            format!("{}{}{}{}{}", &c[..s], &c[s2..e2], &c[e..s2], tok, &c[e2..]),
        ));
    }
    // replace by each recovery symbol
    for d in text::DELIMS {
        out.push((format!("replace@{}:{}", i, d), format!("{}{}{}", &c[..s], d, &c[e..])));
    }
    // truncate here
    out.push((format!("truncate@{}", i), c[..s].to_string()));
}

fn layout_mutants(f: &SrcFile, i: usize, out: &mut Vec<(String, String)>) {
    let c = f.content.as_str();
    let s = f.starts[i] as usize;
    // comment insertion at the token boundary before token i
    out.push((format!("blockcomment@{}", i), format!("{}/*c*/{}", &c[..s], &c[s..])));
    out.push((format!("linecomment@{}", i), format!("{}//c\n{}", &c[..s], &c[s..])));
    // split the line at this boundary
    out.push((format!("split@{}", i), format!("{}\n{}", &c[..s], &c[s..])));
    // join: if this token is a NEWLINE, replace it with a single space
    if f.kinds[i] == TokenKind::NEWLINE {
        let e = if i + 1 < f.starts.len() { f.starts[i + 1] as usize } else { c.len() };
        // do not join when the previous non-ws token is a line comment (would swallow code)
        let mut k = i;
        let mut prev_comment = false;
        while k > 0 {
            k -= 1;
            match f.kinds[k] {
                TokenKind::WHITESPACE => continue,
                TokenKind::LINE_COMMENT => {
                    prev_comment = true;
                    break;
                }
                _ => break,
            }
        }
        if !prev_comment {
            out.push((format!("join@{}", i), format!("{} {}", &c[..s], &c[e..])));
        }
    }
}

pub fn run(args: &Args) -> Report {
    let oracle = args.get("oracle", "c06");
    let list = args.get("list", "");
    let max_bytes = args.num("max-bytes", 10_000_000);
    let max_tokens_for_edits = args.num("edit-max-tokens", 0) as usize;
    let widths: Vec<u32> = args.list("widths", "20,90").iter().map(|s| s.parse().unwrap()).collect();
    let edit_widths: Vec<u32> = args.list("edit-widths", "20,90").iter().map(|s| s.parse().unwrap()).collect();
    let shard_k = args.num("shard", 0);
    let shard_n = args.num("shards", 1);

    let mut files: Vec<SrcFile> = Vec::new();
    for (idx, (path, content)) in load(&list, max_bytes).into_iter().enumerate() {
        if (idx as u64) % shard_n != shard_k {
            continue;
        }
        let lr = match pool::guarded(|| lex(&content)) {
            Ok(r) => r,
            Err(_) => {
                // report through the per-file case below (parse will panic again)
                files.push(SrcFile { path, content: Arc::new(content), starts: vec![], kinds: vec![] });
                continue;
            }
        };
        let mut kinds = lr.tokens;
        kinds.pop(); // EOF
        let starts: Vec<u32> = lr.starts.iter().map(|&s| s as u32).collect();
        files.push(SrcFile { path, content: Arc::new(content), starts, kinds });
    }
    files.sort_by(|a, b| b.content.len().cmp(&a.content.len()));

    // index space: one case per file (unedited) + one per CHUNK of token positions for edits
    let mut cases: Vec<(usize, Option<usize>)> = Vec::new();
    for (fi, f) in files.iter().enumerate() {
        cases.push((fi, None));
        if f.kinds.len() <= max_tokens_for_edits {
            let mut c = 0;
            while c < f.kinds.len() {
                cases.push((fi, Some(c)));
                c += CHUNK;
            }
        }
    }
    crate::set_extra("files", files.len().to_string());
    crate::set_extra(
        "files_with_edits",
        files.iter().filter(|f| f.kinds.len() <= max_tokens_for_edits).count().to_string(),
    );
    let c16 = oracle == "c16";
    let c17 = oracle == "c17";
    let mut rep = pool::run_space_chunked(
        cases.len() as u64,
        crate::threads(args),
        crate::hang_after(args),
        1,
        |i, rep| {
            let (fi, chunk) = cases[i as usize];
            let f = &files[fi];
            match chunk {
                None => {
                    let clean = text::check_parse(&f.content, &f.path, rep, c16);
                    rep.bump("files_unedited", 1);
                    if c17 && clean == Some(true) {
                        let before = rep.findings.len();
                        let plain_id = format!("{}|plain", f.path);
                        text::check_format(&f.content, &plain_id, &widths, rep, false);
                        if rep.findings.len() > before {
                            rep.bump("files_with_new_format_findings", 1);
                        }
                        rep.bump("files_formatted", 1);
                    }
                }
                Some(c0) => {
                    let mut muts = Vec::new();
                    for ti in c0..(c0 + CHUNK).min(f.kinds.len()) {
                        if c17 {
                            layout_mutants(f, ti, &mut muts);
                        } else {
                            edits(f, ti, &mut muts);
                        }
                    }
                    for (what, t) in muts {
                        rep.bump("mutants", 1);
                        let label = format!("{} {}", f.path, what);
                        let clean = text::check_parse(&t, &label, rep, c16);
                        if c17 && clean == Some(true) {
                            text::check_format(&t, &label, &edit_widths, rep, false);
                            rep.bump("mutants_formatted", 1);
                        }
                    }
                }
            }
        },
        |i| {
            let (fi, chunk) = cases[i as usize];
            format!("{} chunk {:?}", files[fi].path, chunk)
        },
    );
    for f in files.iter().rev().take(3) {
        rep.samples.push(f.path.clone());
    }
    let _ = token_text;
    rep
}
