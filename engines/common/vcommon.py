"""Shared machinery for all /verif checks: paths, builds from /repo's working
tree, evidence files, known findings, violation reporting, subprocess helpers.

Exit codes of a check:  0 held / 1 violation (with VIOLATION line) / 2 machinery failure.
"""
import fcntl
import hashlib
import json
import os
import shutil
import subprocess
import sys
import time

VERIF = os.path.dirname(os.path.dirname(os.path.dirname(os.path.abspath(__file__))))
REPO = os.environ.get("VERIF_REPO", "/repo")
# VERIF_BUILD: separate build directory (used with VERIF_REPO for mutated source trees, so that their artefacts
# never mix with the ones of /repo)
BUILD = os.environ.get("VERIF_BUILD") or os.path.join(VERIF, ".build")
EVIDENCE = os.path.join(VERIF, "evidence")
REPLAYS = os.path.join(EVIDENCE, "replays")
KNOWN_FILE = os.path.join(VERIF, "known_findings.json")
NCPU = os.cpu_count() or 4

CARGO_ENV = {
    "CARGO_NET_OFFLINE": "true",
    "CARGO_PROFILE_RELEASE_DEBUG_ASSERTIONS": "true",
    "CARGO_PROFILE_RELEASE_OVERFLOW_CHECKS": "true",
    "CARGO_PROFILE_RELEASE_PANIC": "unwind",
    "CARGO_PROFILE_RELEASE_DEBUG": "line-tables-only",
}


class MachineryError(Exception):
    pass


def log(*a):
    print(*a, file=sys.stderr, flush=True)


def seed():
    try:
        return int(os.environ.get("VERIF_SEED", "0"))
    except ValueError:
        return 0


def scratch_dir(tag):
    base = os.environ.get("VERIF_SCRATCH", "/var/tmp")
    d = os.path.join(base, "verif-%s-%d" % (tag, os.getpid()))
    shutil.rmtree(d, ignore_errors=True)
    os.makedirs(d)
    return d


class Lock:
    def __init__(self, name):
        os.makedirs(BUILD, exist_ok=True)
        self.path = os.path.join(BUILD, name + ".lock")

    def __enter__(self):
        self.f = open(self.path, "w")
        fcntl.flock(self.f, fcntl.LOCK_EX)
        return self

    def __exit__(self, *a):
        fcntl.flock(self.f, fcntl.LOCK_UN)
        self.f.close()


def run(cmd, timeout=None, env=None, cwd=None, input=None, check=False):
    e = dict(os.environ)
    if env:
        e.update(env)
    p = subprocess.run(cmd, stdout=subprocess.PIPE, stderr=subprocess.PIPE, env=e, cwd=cwd,
                       timeout=timeout, input=input)
    if check and p.returncode != 0:
        raise MachineryError("command failed (%d): %s\n%s" % (
            p.returncode, " ".join(map(str, cmd)), p.stderr.decode("utf-8", "replace")[-4000:]))
    return p


def ensure_pkgs_link():
    os.makedirs(BUILD, exist_ok=True)
    link = os.path.join(BUILD, "pkgs")
    target = os.path.join(REPO, "pkgs")
    if os.path.islink(link) and os.readlink(link) == target:
        return
    try:
        os.remove(link)
    except FileNotFoundError:
        pass
    os.symlink(target, link)


FAST_ENV = {"CARGO_NET_OFFLINE": "true", "CARGO_PROFILE_RELEASE_PANIC": "unwind"}


def cargo_build_repo(variant, packages, rustflags=None, bins=None, fast=False):
    """Incremental release build of /repo's working tree into .build/<variant>."""
    ensure_pkgs_link()
    tdir = os.path.join(BUILD, variant)
    env = dict(FAST_ENV if fast else CARGO_ENV)
    env["CARGO_TARGET_DIR"] = tdir
    if rustflags:
        env["RUSTFLAGS"] = rustflags
    cmd = ["cargo", "build", "--offline", "--release"]
    for p in packages:
        cmd += ["-p", p]
    with Lock("cargo-" + variant):
        p = run(cmd, env=env, cwd=REPO)
        if p.returncode != 0:
            raise MachineryError("cargo build of /repo failed:\n" + p.stderr.decode("utf-8", "replace")[-6000:])
    return os.path.join(tdir, "release")


def _tree_stamp(paths):
    h = hashlib.sha256()
    for root in paths:
        if os.path.isfile(root):
            st = os.stat(root)
            h.update(("%s:%d:%d\n" % (root, st.st_mtime_ns, st.st_size)).encode())
            continue
        for d, dirs, files in os.walk(root):
            dirs.sort()
            for f in sorted(files):
                fp = os.path.join(d, f)
                try:
                    st = os.stat(fp)
                except FileNotFoundError:
                    continue
                h.update(("%s:%d:%d\n" % (fp, st.st_mtime_ns, st.st_size)).encode())
    return h.hexdigest()


def build_fast(need_boots=True):
    """The same toolchain without debug assertions: used as the *compiler host* for bulk compilation (the
    debug runtime protects/unprotects every young-generation page at every collection, which makes the
    optimizing compiler -- itself a Dora program -- 3x slower and not parallelisable in this sandbox).
    Executables under test are still linked against the debug-assertion runtime of build_plain()."""
    return build_plain(need_boots=need_boots, variant="fast", fast=True)


def build_plain(need_boots=True, variant="plain", rustflags=None, fast=False):
    """Build dora driver, cannon compiler, runtime + startup static libs and (optionally) the boots
    compiler image from /repo's current working tree.  Returns the bin dir."""
    bindir = cargo_build_repo(variant, ["dora", "dora-runtime", "dora-startup"], rustflags=rustflags, fast=fast)
    if need_boots:
        with Lock("boots-" + variant):
            stamp_file = os.path.join(bindir, "dora-boots-compiler.stamp")
            stamp = _tree_stamp([os.path.join(REPO, "pkgs", "boots"), os.path.join(REPO, "pkgs", "std"),
                                 os.path.join(bindir, "dora"), os.path.join(bindir, "dora-cannon-compiler"),
                                 os.path.join(bindir, "libdora_runtime.a"),
                                 os.path.join(bindir, "libdora_startup.a")])
            out = os.path.join(bindir, "dora-boots-compiler")
            old = open(stamp_file).read() if os.path.exists(stamp_file) else ""
            if old != stamp or not os.path.exists(out):
                p = run([os.path.join(bindir, "dora"), "compile", "--internal-compile-boots", "--cannon",
                         os.path.join(REPO, "pkgs/boots/boots.dora"), "-o", out], cwd=bindir, timeout=600,
                        env={"DORA_FLAGS": "--gc-worker 1"})
                if p.returncode != 0:
                    raise MachineryError("building the boots compiler failed:\n" +
                                         p.stderr.decode("utf-8", "replace")[-4000:])
                open(stamp_file, "w").write(stamp)
    return bindir


def cargo_build_harness(crate_dir, variant=None, rustflags=None, features=None, bin=None):
    """Build a harness crate living under /verif/engines (depends on /repo crates by path)."""
    name = os.path.basename(crate_dir.rstrip("/"))
    tdir = os.path.join(BUILD, variant or ("h-" + name))
    env = dict(CARGO_ENV)
    env["CARGO_TARGET_DIR"] = tdir
    if rustflags:
        env["RUSTFLAGS"] = rustflags
    cmd = ["cargo", "build", "--offline", "--release"]
    if features:
        cmd += ["--features", features]
    if bin:
        cmd += ["--bin", bin]
    with Lock("cargo-" + os.path.basename(tdir)):
        p = run(cmd, env=env, cwd=crate_dir)
        if p.returncode != 0:
            raise MachineryError("cargo build of harness %s failed:\n%s" % (
                name, p.stderr.decode("utf-8", "replace")[-8000:]))
    return os.path.join(tdir, "release")


# ---------------------------------------------------------------------------------------------
# known findings

class Known:
    """known_findings.json: list of {property, status: known|fixed, key, what[, commit]}.
    Only status == known suppresses; matching is by exact key string."""

    def __init__(self, prop):
        self.prop = prop
        self.entries = []
        if os.path.exists(KNOWN_FILE):
            for e in json.load(open(KNOWN_FILE)):
                if e.get("property") == prop and e.get("status") == "known":
                    self.entries.append(e)
        self.hit = {}

    def match(self, key):
        for e in self.entries:
            if e["key"] == key:
                self.hit.setdefault(key, e)
                return e
        return None

    def print_hits(self):
        for key, e in sorted(self.hit.items()):
            print("KNOWN-FINDING: property=%s %s [key=%s]" % (self.prop, e["what"], key), flush=True)


# ---------------------------------------------------------------------------------------------
# evidence + verdict

class Check:
    def __init__(self, prop, tier, level):
        self.prop = prop
        self.tier = tier
        self.level = level
        self.t0 = time.time()
        self.coverage = {}
        self.assumptions = []
        self.violations = []  # (key, description, replay_path)
        self.known = Known(prop)
        os.makedirs(os.path.join(REPLAYS, prop), exist_ok=True)
        for old in os.listdir(os.path.join(REPLAYS, prop)):
            if old.startswith("v") and old.endswith(".json"):
                os.remove(os.path.join(REPLAYS, prop, old))

    def replay_path(self, name):
        return os.path.join(REPLAYS, self.prop, name)

    def violation(self, key, what, replay_obj=None, replay_name=None):
        """Register a violating case.  Returns True if it is new (not a known finding)."""
        if self.known.match(key):
            return False
        for k, _, _ in self.violations:
            if k == key:
                return True
        name = replay_name or ("v%03d.json" % len(self.violations))
        path = self.replay_path(name)
        if replay_obj is not None:
            with open(path, "w") as f:
                if isinstance(replay_obj, dict):
                    replay_obj = dict(replay_obj)
                    replay_obj.setdefault("key", key)
                    replay_obj.setdefault("detail", what)
                if isinstance(replay_obj, (dict, list)):
                    json.dump(replay_obj, f, indent=1)
                else:
                    f.write(str(replay_obj))
        self.violations.append((key, what, path))
        return True

    def finish(self, machinery_error=None):
        wall = time.time() - self.t0
        ev = {
            "property_id": self.prop,
            "tier": self.tier,
            "seed": seed(),
            "level": self.level,
            "coverage": self.coverage,
            "assumptions": self.assumptions,
            "wall_s": round(wall, 2),
            "violations": len(self.violations),
        }
        if self.known.hit:
            ev["known_findings_seen"] = sorted(self.known.hit.keys())
        os.makedirs(EVIDENCE, exist_ok=True)
        tmp = os.path.join(EVIDENCE, self.prop + ".json.tmp")
        with open(tmp, "w") as f:
            json.dump(ev, f, indent=1, sort_keys=True)
        os.replace(tmp, os.path.join(EVIDENCE, self.prop + ".json"))
        self.known.print_hits()
        if machinery_error:
            log("MACHINERY: " + str(machinery_error))
            return 2
        if self.violations:
            for key, what, path in self.violations[:50]:
                print("VIOLATION property=%s replay=%s" % (self.prop, path))
                print("  key=%s :: %s" % (key, what))
            sys.stdout.flush()
            return 1
        print("OK property=%s tier=%s wall=%.1fs %s" % (
            self.prop, self.tier, wall,
            " ".join("%s=%s" % (k, v) for k, v in self.coverage.items()
                     if isinstance(v, (int, bool)))), flush=True)
        return 0


INJECT_RUSTFLAGS = '--cfg dinfuehr_dora_verif --cfg dinfuehr_dora_verif="inject"'


def build_inject():
    """Runtime + startup static libraries with the collection-point injection hook compiled in
    (cfg dinfuehr_dora_verif="inject"); executables are produced by the ordinary compiler and linked
    against these libraries.  Returns the directory holding libdora_runtime.a / libdora_startup.a."""
    return cargo_build_repo("inject", ["dora-runtime", "dora-startup"], rustflags=INJECT_RUSTFLAGS)
