"""Helpers for checks backed by the seqmc Rust explorer."""
import json
import os
import subprocess

import vcommon
from vcommon import MachineryError, REPO, VERIF, BUILD


def build_seqmc():
    d = vcommon.cargo_build_harness(os.path.join(VERIF, "engines", "seqmc"))
    return os.path.join(d, "seqmc")


def run_seqmc(binary, sub, args, timeout=3600):
    cmd = [binary, sub]
    for k, v in args.items():
        cmd += ["--" + k, str(v)]
    import tempfile
    fd, outp = tempfile.mkstemp(prefix="seqmc-", suffix=".json", dir="/var/tmp")
    os.close(fd)
    env = dict(os.environ)
    env["SEQMC_OUT"] = outp
    try:
        p = subprocess.run(cmd, stdout=subprocess.DEVNULL, stderr=subprocess.PIPE, timeout=timeout, env=env)
        rep = json.loads(open(outp, encoding="utf-8", errors="replace").read())
    except subprocess.TimeoutExpired:
        os.remove(outp)
        raise MachineryError("seqmc %s timed out" % sub)
    except Exception:
        os.remove(outp)
        raise MachineryError("seqmc %s produced no report (exit %s): %s" % (
            sub, p.returncode, p.stderr.decode("utf-8", "replace")[-3000:]))
    os.remove(outp)
    rep["_cmd"] = " ".join(cmd)
    return rep


def dora_file_list(scratch):
    """All .dora files of the repository's current working tree."""
    out = []
    for d, dirs, files in os.walk(REPO):
        dirs[:] = sorted(x for x in dirs if x not in ("target", ".git"))
        for f in sorted(files):
            if f.endswith(".dora"):
                out.append(os.path.join(d, f))
    path = os.path.join(scratch, "dorafiles.txt")
    with open(path, "w") as fh:
        fh.write("\n".join(out) + "\n")
    return path, len(out)


def absorb(check, rep, part, only_prefix=None, skip_prefixes=()):
    """Turn the findings of one seqmc report into violations / known findings of `check`.
    Returns number of evaluations."""
    if rep.get("hang"):
        check.violation("hang:" + part, "input did not finish within the watchdog limit: %r" % rep["hang"],
                        {"part": part, "cmd": rep["_cmd"], "input": rep["hang"]})
    for key, f in rep["findings"].items():
        if only_prefix and not any(key.startswith(p) for p in only_prefix):
            continue
        if any(key.startswith(p) for p in skip_prefixes):
            continue
        check.violation(key, "%s (x%d) e.g. %r :: %s" % (part, f["count"], f["example"][:200], f["detail"][:300]),
                        {"part": part, "cmd": rep["_cmd"], "key": key, "count": f["count"],
                         "example": f["example"], "detail": f["detail"]})
    return rep["evaluations"]


def evals_of(rep):
    """Number of texts evaluated by one report (file mode counts chunks as cases)."""
    c = rep["counters"]
    if "files_unedited" in c:
        return c.get("files_unedited", 0) + c.get("mutants", 0)
    return rep["evaluations"]
