/* LD_PRELOAD shim: makes the process's hash seeds a function of VERIF_HASH_SEED.
 * Rust's std::collections::hash_map::RandomState obtains its keys through libc's getrandom();
 * this replaces it (and getentropy) by a deterministic stream so that the checks can *enumerate*
 * hash seeds instead of sampling them.  With VERIF_HASH_SEED unset the real function is used. */
#define _GNU_SOURCE
#include <dlfcn.h>
#include <stdint.h>
#include <stdlib.h>
#include <string.h>
#include <sys/types.h>

static uint64_t state;
static int inited;

static uint64_t next(void) { /* splitmix64 */
    uint64_t z = (state += 0x9e3779b97f4a7c15ULL);
    z = (z ^ (z >> 30)) * 0xbf58476d1ce4e5b9ULL;
    z = (z ^ (z >> 27)) * 0x94d049bb133111ebULL;
    return z ^ (z >> 31);
}

static int fill(void *buf, size_t len) {
    const char *s = getenv("VERIF_HASH_SEED");
    if (!s) return 0;
    if (!inited) { state = strtoull(s, 0, 10) * 0x100000001b3ULL + 0xcbf29ce484222325ULL; inited = 1; }
    unsigned char *p = buf;
    while (len) {
        uint64_t v = next();
        size_t n = len < 8 ? len : 8;
        memcpy(p, &v, n);
        p += n; len -= n;
    }
    return 1;
}

ssize_t getrandom(void *buf, size_t len, unsigned int flags) {
    if (fill(buf, len)) return (ssize_t)len;
    ssize_t (*real)(void *, size_t, unsigned int) = dlsym(RTLD_NEXT, "getrandom");
    return real ? real(buf, len, flags) : -1;
}

int getentropy(void *buf, size_t len) {
    if (fill(buf, len)) return 0;
    int (*real)(void *, size_t) = dlsym(RTLD_NEXT, "getentropy");
    return real ? real(buf, len) : -1;
}
