"""Runs loom models of the sched harness as child processes (a failing model aborts its process)."""
import json
import os
import re
import subprocess
from concurrent.futures import ThreadPoolExecutor

import vcommon
from vcommon import VERIF, BUILD, MachineryError

RUSTFLAGS = '--cfg dinfuehr_dora_verif --cfg dinfuehr_dora_verif="sched"'


def build_sched():
    d = vcommon.cargo_build_harness(os.path.join(VERIF, "engines", "sched"), variant="sched", rustflags=RUSTFLAGS)
    return os.path.join(d, "sched")


FAIL_PAT = re.compile(r"(deadlock|Causality violation|Concurrent (?:load|write|read)|panicked at|Model exceeded maximum number of branches|assertion)")


def classify(stderr):
    """Short class of a loom failure: the first panic message that is not loom's bookkeeping."""
    lines = stderr.splitlines()
    msg = None
    for i, l in enumerate(lines):
        if "panicked at" in l:
            loc = l.split("panicked at", 1)[1].strip().rstrip(":")
            text = lines[i + 1].strip() if i + 1 < len(lines) else ""
            loc = re.sub(r":\d+:\d+$", "", loc)
            loc = loc.split("/src/")[-1] if "/registry/" in loc else loc
            text = re.sub(r"\d+", "#", text)[:80]
            msg = "%s: %s" % (loc, text)
            break
    return msg or "abnormal exit"


def run_model(binary, family, model, bound=None, max_seconds=None, timeout=7200, env=None, checkpoint=None):
    cmd = [binary, family, model]
    if bound is not None:
        cmd += ["--preemptions", str(bound)]
    if max_seconds is not None:
        cmd += ["--max-seconds", str(max_seconds)]
    if checkpoint:
        cmd += ["--checkpoint", checkpoint]
    e = dict(os.environ)
    e["RUST_BACKTRACE"] = "0"
    if env:
        e.update(env)
    try:
        p = subprocess.run(cmd, stdout=subprocess.PIPE, stderr=subprocess.PIPE, timeout=timeout, env=e, cwd="/var/tmp")
    except subprocess.TimeoutExpired:
        return {"model": model, "family": family, "bound": bound, "status": "timeout", "cmd": " ".join(cmd)}
    out = p.stdout.decode("utf-8", "replace")
    err = p.stderr.decode("utf-8", "replace")
    res = None
    for line in out.splitlines():
        if line.startswith("RESULT "):
            res = json.loads(line[7:])
    r = {"model": model, "family": family, "bound": bound, "cmd": " ".join(cmd), "returncode": p.returncode}
    if "UNSUPPORTED" in out:
        r["status"] = "unsupported"
        r["detail"] = out.strip()[-500:]
    elif p.returncode == 0 and res is not None and "VIOLATION" not in out:
        r["status"] = "ok"
        r["result"] = res
    else:
        r["status"] = "fail"
        r["class"] = classify(err) if "VIOLATION" not in out else "invariant"
        r["stderr"] = err[-3000:]
        r["stdout"] = out[-2000:]
        r["result"] = res
    return r


def run_models(binary, jobs, workers=None):
    """jobs: list of dicts(family, model, bound, max_seconds, env). Returns results in order."""
    workers = workers or vcommon.NCPU
    with ThreadPoolExecutor(max_workers=workers) as ex:
        futs = [ex.submit(run_model, binary, j["family"], j["model"], j.get("bound"), j.get("max_seconds"),
                          j.get("timeout", 7200), j.get("env")) for j in jobs]
        return [f.result() for f in futs]


def absorb(check, binary, results, prop):
    """Registers failures as violations (with a loom checkpoint as replay artefact)."""
    execs = 0
    traces = 0
    points = 0
    incomplete = []
    outcomes = set()
    for r in results:
        if r["status"] == "ok":
            res = r["result"]
            execs += res.get("executions", 0)
            traces += res.get("distinct_traces", 0)
            points += res.get("scheduling_points", 0)
            for k in res.get("outcomes", {}):
                outcomes.add("%s:%s" % (r["model"], k))
            if not res.get("completed", True):
                incomplete.append(r["model"])
        elif r["status"] == "unsupported":
            raise MachineryError("harness does not support the current sources: %s" % r["detail"])
        elif r["status"] == "timeout":
            incomplete.append(r["model"] + " (timeout)")
        else:
            key = "%s/%s:%s" % (r["family"], r["model"], r["class"])
            name = "%s-%s.json" % (r["family"], re.sub(r"[^A-Za-z0-9]+", "_", r["model"])[:60])
            ck = check.replay_path(name.replace(".json", ".loom-checkpoint"))
            # second run with a checkpoint file: leaves the failing schedule on disk and confirms determinism
            if os.path.exists(ck):
                os.remove(ck)
            r2 = run_model(binary, r["family"], r["model"], r["bound"], checkpoint=ck, timeout=3600, env=r.get("env"))
            same = r2["status"] == "fail" and r2.get("class") == r["class"]
            if not same:
                raise MachineryError("failure of %s is not reproducible (first %s, then %s)" % (
                    r["model"], r.get("class"), r2.get("class", r2["status"])))
            check.violation(key, "%s model %s (preemption bound %s): %s" % (r["family"], r["model"], r["bound"], r["class"]),
                            {"family": r["family"], "model": r["model"], "bound": r["bound"], "class": r["class"],
                             "cmd": r["cmd"], "checkpoint": ck, "stderr": r["stderr"], "stdout": r["stdout"]},
                            replay_name=name)
    return {"executions": execs, "distinct_traces": traces, "scheduling_points": points,
            "incomplete": incomplete, "outcomes": sorted(outcomes)}


def replay(path):
    r = json.load(open(path))
    b = build_sched()
    cmd = [b, r["family"], r["model"]]
    if r.get("bound") is not None:
        cmd += ["--preemptions", str(r["bound"])]
    if r.get("checkpoint") and os.path.exists(r["checkpoint"]):
        cmd += ["--checkpoint", r["checkpoint"]]
    env = dict(os.environ, LOOM_LOG="1", LOOM_LOCATION="1", RUST_BACKTRACE="1")
    print("replaying:", " ".join(cmd))
    outs = []
    for _ in range(2):
        p = subprocess.run(cmd, stdout=subprocess.PIPE, stderr=subprocess.PIPE, env=env, cwd="/var/tmp")
        outs.append(re.sub(r"\(\d+\)", "", p.stderr.decode("utf-8", "replace")))
    print(outs[0][-6000:])
    if outs[0] != outs[1]:
        print("WARNING: the two replays differ")
        return 2
    return 1 if "panicked" in outs[0] else 0
