//! Lowers the `impl Mutex` / `impl Condition` blocks of pkgs/std/thread.dora (parsed with the real
//! dora-parser at check time) into a small Send-able IR that the C09 harness interprets.
//! Any construct outside the supported subset is an error (machinery failure, never a verdict).
use std::collections::HashMap;
use std::sync::Arc;

use dora_parser::{GreenElement, GreenNode, Parser, TokenKind};

#[derive(Debug, Clone)]
pub enum E {
    Int(i64),
    Bool(bool),
    Name(String),
    SelfRef,
    Field(Box<E>, String),
    MCall(Box<E>, String, Vec<E>),
    Call(Vec<String>, Vec<E>),
    Bin(TokenKind, Box<E>, Box<E>),
    Not(Box<E>),
    Assign(Box<E>, Box<E>),
    If(Box<E>, Vec<S>, Option<Vec<S>>),
    While(Box<E>, Vec<S>),
    Return(Option<Box<E>>),
    Block(Vec<S>),
}

#[derive(Debug, Clone)]
pub enum S {
    Let(String, E),
    Expr(E),
}

#[derive(Debug, Clone)]
pub struct Fct {
    pub name: String,
    pub params: Vec<String>,
    pub body: Option<Vec<S>>, // None: @native / @internal
    pub is_static: bool,
}

#[derive(Debug, Clone, Default)]
pub struct Program {
    pub consts: HashMap<String, i64>,
    pub impls: HashMap<String, HashMap<String, Fct>>,
}

fn nodes(n: &GreenNode) -> Vec<Arc<GreenNode>> {
    n.children().iter().filter_map(|c| c.to_node()).collect()
}

fn toks(n: &GreenNode) -> Vec<(TokenKind, String)> {
    n.children()
        .iter()
        .filter_map(|c| match c {
            GreenElement::Token(t) if !t.kind.is_trivia() => Some((t.kind, t.text.to_string())),
            _ => None,
        })
        .collect()
}

fn first_ident(n: &GreenNode) -> Option<String> {
    toks(n).into_iter().find(|t| t.0 == TokenKind::IDENTIFIER).map(|t| t.1)
}

fn path_names(n: &GreenNode) -> Vec<String> {
    // PATH_EXPR / PATH_DATA: segments with identifiers or self
    let mut out = Vec::new();
    for seg in nodes(n) {
        for (k, t) in toks(&seg) {
            if matches!(k, TokenKind::IDENTIFIER | TokenKind::SELF_KW | TokenKind::UPCASE_SELF_KW) {
                out.push(t);
            }
        }
    }
    for (k, t) in toks(n) {
        if k == TokenKind::IDENTIFIER {
            out.push(t);
        }
    }
    out
}

fn parse_int(text: &str) -> Result<i64, String> {
    let digits: String = text.chars().take_while(|c| c.is_ascii_digit() || *c == '_').filter(|c| *c != '_').collect();
    digits.parse::<i64>().map_err(|_| format!("unsupported integer literal {}", text))
}

fn args_of(n: &GreenNode) -> Result<Vec<E>, String> {
    // ARGUMENT_LIST -> LIST_ITEM -> ARGUMENT -> expr
    let mut out = Vec::new();
    for item in nodes(n) {
        let arg = if item.syntax_kind() == TokenKind::LIST_ITEM { nodes(&item).into_iter().next() } else { Some(item) };
        let arg = arg.ok_or("empty argument")?;
        if arg.syntax_kind() != TokenKind::ARGUMENT {
            return Err(format!("unsupported argument node {:?}", arg.syntax_kind()));
        }
        if toks(&arg).iter().any(|t| t.0 == TokenKind::EQ) {
            return Err("named arguments are not supported".into());
        }
        let e = nodes(&arg).into_iter().next().ok_or("argument without expression")?;
        out.push(expr(&e)?);
    }
    Ok(out)
}

fn block(n: &GreenNode) -> Result<Vec<S>, String> {
    let mut out = Vec::new();
    for c in nodes(n) {
        match c.syntax_kind() {
            TokenKind::LET => {
                let ch = nodes(&c);
                if ch.len() != 2 || ch[0].syntax_kind() != TokenKind::IDENT_PATTERN {
                    return Err("unsupported let form".into());
                }
                let name = first_ident(&ch[0]).ok_or("let without name")?;
                out.push(S::Let(name, expr(&ch[1])?));
            }
            TokenKind::EXPR_STMT => {
                let e = nodes(&c).into_iter().next().ok_or("empty statement")?;
                out.push(S::Expr(expr(&e)?));
            }
            k => return Err(format!("unsupported statement {:?}", k)),
        }
    }
    Ok(out)
}

pub fn expr(n: &GreenNode) -> Result<E, String> {
    let ch = nodes(n);
    let tk = toks(n);
    Ok(match n.syntax_kind() {
        TokenKind::LIT_INT_EXPR => E::Int(parse_int(&tk[0].1)?),
        TokenKind::LIT_BOOL_EXPR => E::Bool(tk[0].0 == TokenKind::TRUE),
        TokenKind::PAREN_EXPR => expr(&ch[0])?,
        TokenKind::PATH_EXPR => {
            let names = path_names(n);
            if names.len() == 1 && names[0] == "self" {
                E::SelfRef
            } else if names.len() == 1 {
                E::Name(names[0].clone())
            } else {
                return Err(format!("unsupported path value {:?}", names));
            }
        }
        TokenKind::FIELD_EXPR => {
            let name = tk.iter().find(|t| t.0 == TokenKind::IDENTIFIER).ok_or("field without name")?.1.clone();
            E::Field(Box::new(expr(&ch[0])?), name)
        }
        TokenKind::METHOD_CALL_EXPR => {
            let name = tk.iter().find(|t| t.0 == TokenKind::IDENTIFIER).ok_or("method without name")?.1.clone();
            let args = ch.iter().find(|c| c.syntax_kind() == TokenKind::ARGUMENT_LIST).ok_or("call without arguments")?;
            if ch.iter().any(|c| c.syntax_kind() == TokenKind::TYPE_ARGUMENT_LIST) {
                return Err("type arguments are not supported".into());
            }
            E::MCall(Box::new(expr(&ch[0])?), name, args_of(args)?)
        }
        TokenKind::CALL_EXPR => {
            if ch[0].syntax_kind() != TokenKind::PATH_EXPR {
                return Err("unsupported callee".into());
            }
            E::Call(path_names(&ch[0]), args_of(&ch[1])?)
        }
        TokenKind::BIN_EXPR => {
            let op = tk[0].0;
            match op {
                TokenKind::EQ_EQ | TokenKind::NOT_EQ | TokenKind::OR_OR | TokenKind::AND_AND | TokenKind::ADD | TokenKind::SUB
                | TokenKind::LT | TokenKind::LE | TokenKind::GT | TokenKind::GE => {}
                _ => return Err(format!("unsupported operator {:?}", op)),
            }
            E::Bin(op, Box::new(expr(&ch[0])?), Box::new(expr(&ch[1])?))
        }
        TokenKind::ASSIGN_EXPR => {
            if tk[0].0 != TokenKind::EQ {
                return Err("compound assignment is not supported".into());
            }
            E::Assign(Box::new(expr(&ch[0])?), Box::new(expr(&ch[1])?))
        }
        TokenKind::UN_EXPR => {
            if tk[0].0 != TokenKind::NOT {
                return Err(format!("unsupported unary operator {:?}", tk[0].0));
            }
            E::Not(Box::new(expr(&ch[0])?))
        }
        TokenKind::IF_EXPR => {
            let cond = expr(&ch[0])?;
            let then = block(&ch[1])?;
            let els = if ch.len() > 2 {
                Some(match ch[2].syntax_kind() {
                    TokenKind::BLOCK_EXPR => block(&ch[2])?,
                    _ => vec![S::Expr(expr(&ch[2])?)],
                })
            } else {
                None
            };
            E::If(Box::new(cond), then, els)
        }
        TokenKind::WHILE_EXPR => E::While(Box::new(expr(&ch[0])?), block(&ch[1])?),
        TokenKind::RETURN_EXPR => E::Return(match ch.first() {
            Some(c) => Some(Box::new(expr(c)?)),
            None => None,
        }),
        TokenKind::BLOCK_EXPR => E::Block(block(n)?),
        k => return Err(format!("unsupported expression {:?}", k)),
    })
}

fn function(n: &GreenNode) -> Result<Fct, String> {
    let name = first_ident(n).ok_or("function without name")?;
    let mut params = Vec::new();
    let mut body = None;
    let mut is_static = false;
    let mut generic = false;
    for c in nodes(n) {
        match c.syntax_kind() {
            TokenKind::MODIFIER_LIST => {
                for m in nodes(&c) {
                    if toks(&m).iter().any(|t| t.0 == TokenKind::STATIC_KW) {
                        is_static = true;
                    }
                }
            }
            TokenKind::TYPE_PARAM_LIST => generic = true,
            TokenKind::PARAM_LIST => {
                for item in nodes(&c) {
                    let p = if item.syntax_kind() == TokenKind::LIST_ITEM { nodes(&item).into_iter().next() } else { Some(item) };
                    if let Some(p) = p {
                        let pat = nodes(&p).into_iter().next().ok_or("param without pattern")?;
                        params.push(first_ident(&pat).ok_or("unsupported parameter pattern")?);
                    }
                }
            }
            TokenKind::BLOCK_EXPR => body = Some(c.clone()),
            _ => {}
        }
    }
    let body = match body {
        // generic helpers (Mutex::lock[T]) take a lambda; the harness drives lock_op/unlock_op itself
        Some(_) if generic || is_static => None, // constructors are performed by the harness
        Some(b) => Some(block(&b).map_err(|e| format!("in fn {}: {}", name, e))?),
        None => None,
    };
    Ok(Fct { name, params, body, is_static })
}

pub fn lower(source: &str, classes: &[&str]) -> Result<Program, String> {
    let (file, errors) = Parser::from_shared_string(Arc::new(source.to_string())).parse();
    if !errors.is_empty() {
        return Err(format!("thread.dora does not parse: {:?}", errors[0]));
    }
    let root = file.root();
    let mut prog = Program::default();
    for el in nodes(root.green()) {
        match el.syntax_kind() {
            TokenKind::CONST => {
                let name = first_ident(&el).ok_or("const without name")?;
                if let Some(lit) = nodes(&el).into_iter().find(|c| c.syntax_kind() == TokenKind::LIT_INT_EXPR) {
                    prog.consts.insert(name, parse_int(&toks(&lit)[0].1)?);
                }
            }
            TokenKind::IMPL => {
                let ch = nodes(&el);
                let ty = ch.iter().find(|c| c.syntax_kind() == TokenKind::PATH_TYPE).map(|t| path_names(&nodes(t)[0]));
                let Some(ty) = ty else { continue };
                if ty.len() != 1 || !classes.contains(&ty[0].as_str()) {
                    continue;
                }
                let list = ch.iter().find(|c| c.syntax_kind() == TokenKind::ELEMENT_LIST).ok_or("impl without body")?;
                let entry = prog.impls.entry(ty[0].clone()).or_default();
                for f in nodes(list) {
                    if f.syntax_kind() == TokenKind::FUNCTION {
                        let fct = function(&f)?;
                        entry.insert(fct.name.clone(), fct);
                    }
                }
            }
            _ => {}
        }
    }
    for c in classes {
        if !prog.impls.contains_key(*c) {
            return Err(format!("impl {} not found in thread.dora", c));
        }
    }
    Ok(prog)
}
