//! Per-run statistics (plain std state: invisible to loom on purpose).
#![allow(static_mut_refs)]
use std::collections::{BTreeMap, HashSet};
use std::sync::Mutex;

pub struct Stats {
    pub executions: u64,
    pub points: u64,
    pub traces: HashSet<u64>,
    pub outcomes: BTreeMap<u64, u64>,
    pub mutations: Vec<usize>,
}

static STATS: Mutex<Option<Stats>> = Mutex::new(None);

fn with<R>(f: impl FnOnce(&mut Stats) -> R) -> R {
    let mut g = STATS.lock().unwrap();
    if g.is_none() {
        *g = Some(Stats { executions: 0, points: 0, traces: HashSet::new(), outcomes: BTreeMap::new(), mutations: vec![0; 16] });
    }
    f(g.as_mut().unwrap())
}

pub fn execution(trace_hash: u64, points: u64) {
    with(|s| {
        s.executions += 1;
        s.points += points;
        if s.traces.len() < 5_000_000 {
            s.traces.insert(trace_hash);
        }
    })
}

pub fn outcome(o: u64) {
    with(|s| *s.outcomes.entry(o).or_insert(0) += 1)
}

pub fn reset_mutations() {
    with(|s| s.mutations.iter_mut().for_each(|m| *m = 0))
}

pub fn add_mutations(cell: usize, n: usize) {
    with(|s| s.mutations[cell] += n)
}

pub fn mutations(cell: usize) -> usize {
    with(|s| s.mutations[cell])
}

pub fn report(model: &str, bound: Option<usize>, completed: bool, wall: f64) {
    with(|s| {
        let outcomes: Vec<String> = s.outcomes.iter().map(|(k, v)| format!("\"{}\": {}", k, v)).collect();
        println!(
            "RESULT {{\"model\": \"{}\", \"executions\": {}, \"distinct_traces\": {}, \"scheduling_points\": {}, \"outcomes\": {{{}}}, \"preemption_bound\": {}, \"completed\": {}, \"wall_s\": {:.2}}}",
            model,
            s.executions,
            s.traces.len(),
            s.points,
            outcomes.join(", "),
            bound.map(|b| b.to_string()).unwrap_or("null".into()),
            completed,
            wall
        );
    })
}

pub fn executions() -> u64 {
    with(|s| s.executions)
}
