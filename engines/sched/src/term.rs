//! C12: the real termination detector (gc/swiper/terminator.rs) driven by workers that run the
//! loop of MarkingTask::run / CopyTask over an abstract work pool, under every schedule.
//!
//! model name: "<workers>:<pattern>", pattern = "r<i>,r<j>;<parent>><child><l|s>;..."
//!   r<i>            item i is a root (pre-marked, in the shared pool)
//!   p>c l|s         processing item p discovers item c and, if it wins the mark bit, pushes it to
//!                   its local segment (l) or to the shared pool followed by wake_up() (s)
use std::sync::atomic::{AtomicBool as StdBool, AtomicI64, AtomicUsize as StdUsize, Ordering};
use std::sync::Arc;

use dora_runtime::verif_api::Terminator;
use loom::sync::atomic::AtomicBool;
use loom::sync::Mutex;

use crate::backend;
use crate::stats;

#[derive(Clone, Debug)]
pub struct Pattern {
    pub items: usize,
    pub roots: Vec<usize>,
    pub edges: Vec<(usize, usize, bool)>, // parent, child, shared?
}

pub fn parse_pattern(s: &str) -> Pattern {
    let mut roots = Vec::new();
    let mut edges = Vec::new();
    let mut items = 0;
    for part in s.split(|c| c == ';' || c == ',') {
        let part = part.trim();
        if part.is_empty() {
            continue;
        }
        if let Some(r) = part.strip_prefix('r') {
            let r: usize = r.parse().unwrap();
            roots.push(r);
            items = items.max(r + 1);
        } else {
            let (p, rest) = part.split_once('>').unwrap();
            let shared = rest.ends_with('s');
            let c: usize = rest[..rest.len() - 1].parse().unwrap();
            let p: usize = p.parse().unwrap();
            edges.push((p, c, shared));
            items = items.max(p + 1).max(c + 1);
        }
    }
    Pattern { items, roots, edges }
}

struct Pool {
    shared: Mutex<Vec<usize>>,
    marks: Vec<AtomicBool>,
    processed: Vec<StdUsize>,
    outstanding: AtomicI64,
    terminated: StdBool,
    late_empty_pops: Vec<StdUsize>,
}

fn worker(id: usize, term: Arc<Terminator>, pool: Arc<Pool>, pat: Arc<Pattern>) {
    backend::set_tid(id as u64);
    let mut local: Vec<usize> = Vec::new();
    loop {
        // MarkingTask::pop: local segment, then the shared structures
        let item = if let Some(i) = local.pop() {
            Some(i)
        } else {
            pool.shared.lock().unwrap().pop()
        };
        let item = match item {
            Some(i) => i,
            None => {
                if pool.terminated.load(Ordering::Relaxed) {
                    let n = pool.late_empty_pops[id].fetch_add(1, Ordering::Relaxed) + 1;
                    assert!(n <= 1, "worker {} keeps polling an empty pool after termination", id);
                }
                if term.try_terminate() {
                    let out = pool.outstanding.load(Ordering::Relaxed);
                    assert_eq!(out, 0, "worker {} saw termination while {} items are outstanding", id, out);
                    pool.terminated.store(true, Ordering::Relaxed);
                    break;
                } else {
                    continue;
                }
            }
        };
        assert!(!pool.terminated.load(Ordering::Relaxed), "item {} processed after termination was declared", item);
        pool.processed[item].fetch_add(1, Ordering::Relaxed);
        for &(p, c, shared) in pat.edges.iter() {
            if p != item {
                continue;
            }
            // Header::try_mark
            if pool.marks[c]
                .compare_exchange(false, true, loom::sync::atomic::Ordering::SeqCst, loom::sync::atomic::Ordering::SeqCst)
                .is_ok()
            {
                pool.outstanding.fetch_add(1, Ordering::Relaxed);
                if shared {
                    pool.shared.lock().unwrap().push(c);
                    term.wake_up();
                } else {
                    local.push(c);
                }
            }
        }
        pool.outstanding.fetch_sub(1, Ordering::Relaxed);
    }
    assert!(local.is_empty());
}

pub fn run(name: &str) {
    let (w, p) = name.split_once(':').expect("model = <workers>:<pattern>");
    let workers: usize = w.parse().unwrap();
    let pat = Arc::new(parse_pattern(p));
    // reachable items
    let mut reach = vec![false; pat.items];
    let mut stack: Vec<usize> = pat.roots.clone();
    while let Some(i) = stack.pop() {
        if reach[i] {
            continue;
        }
        reach[i] = true;
        for &(p, c, _) in &pat.edges {
            if p == i {
                stack.push(c);
            }
        }
    }
    let reach = Arc::new(reach);
    crate::model(move || {
        backend::begin_execution();
        backend::set_tid(99);
        let term = Arc::new(Terminator::new(workers));
        let pool = Arc::new(Pool {
            shared: Mutex::new(pat.roots.clone()),
            marks: (0..pat.items).map(|i| AtomicBool::new(pat.roots.contains(&i))).collect(),
            processed: (0..pat.items).map(|_| StdUsize::new(0)).collect(),
            outstanding: AtomicI64::new(pat.roots.len() as i64),
            terminated: StdBool::new(false),
            late_empty_pops: (0..workers).map(|_| StdUsize::new(0)).collect(),
        });
        let mut hs = Vec::new();
        for id in 1..workers {
            let (t, p, pa) = (term.clone(), pool.clone(), pat.clone());
            hs.push(loom::thread::spawn(move || worker(id, t, p, pa)));
        }
        worker(0, term.clone(), pool.clone(), pat.clone());
        for h in hs {
            h.join().unwrap();
        }
        for i in 0..pat.items {
            let n = pool.processed[i].load(Ordering::Relaxed);
            let want = if reach[i] { 1 } else { 0 };
            assert_eq!(n, want, "item {} processed {} times", i, n);
        }
        assert_eq!(pool.outstanding.load(Ordering::Relaxed), 0);
        assert!(pool.shared.lock().unwrap().is_empty());
        stats::outcome(pool.late_empty_pops.iter().map(|c| c.load(Ordering::Relaxed) as u64).sum());
        let (h, p) = backend::end_execution();
        stats::execution(h, p);
    });
}

/// The enumerated publish patterns: all rooted forests over `n` items with every local/shared
/// assignment of the edges, plus one shared child with two parents (mark-bit race).
pub fn patterns(max_items: usize) -> Vec<String> {
    fn emit(parent: &[usize], out: &mut Vec<String>) {
        let n = parent.len();
        let edges: Vec<(usize, usize)> = (1..n).filter(|&i| parent[i] > 0).map(|i| (parent[i] - 1, i)).collect();
        let roots: Vec<String> = (0..n).filter(|&i| parent[i] == 0).map(|r| format!("r{}", r)).collect();
        for mask in 0..(1u32 << edges.len()) {
            let mut s = roots.join(",");
            for (k, (p, c)) in edges.iter().enumerate() {
                s.push_str(&format!(";{}>{}{}", p, c, if mask & (1 << k) != 0 { "s" } else { "l" }));
            }
            out.push(s);
        }
    }
    fn rec(i: usize, parent: &mut Vec<usize>, out: &mut Vec<String>) {
        if i == parent.len() {
            emit(parent, out);
            return;
        }
        // 0 = root, k + 1 = child of item k (k < i)
        for p in 0..=i {
            parent[i] = p;
            rec(i + 1, parent, out);
        }
    }
    let mut out = Vec::new();
    for n in 1..=max_items {
        let mut parent = vec![0usize; n];
        rec(1, &mut parent, &mut out);
    }
    // diamonds: two parents racing for the same child's mark bit
    out.push("r0,r1;0>2s;1>2s".to_string());
    out.push("r0,r1;0>2l;1>2s".to_string());
    out.push("r0,r1;0>2s;1>2s;2>3s".to_string());
    out.sort();
    out.dedup();
    out
}
