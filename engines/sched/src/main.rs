//! sched: model checking of dora-runtime's concurrency protocols with loom.
//! usage: sched <family> <model> [--preemptions N] [--max-seconds S] [--checkpoint FILE]
//! One model per process (a loom failure panics inside a coroutine and aborts the process).
mod backend;
mod mmapcache;
mod stats;
mod dorair;
mod hashmap;
mod stw;
mod sync;
mod term;

use std::time::Instant;

static mut BOUND: Option<usize> = None;
static mut MAX_SECONDS: Option<u64> = None;
static mut CHECKPOINT: Option<String> = None;

pub fn model<F: Fn() + Sync + Send + 'static>(f: F) {
    let mut b = loom::model::Builder::new();
    unsafe {
        b.preemption_bound = BOUND;
        b.max_duration = MAX_SECONDS.map(std::time::Duration::from_secs);
        #[allow(static_mut_refs)]
        if let Some(c) = CHECKPOINT.clone() {
            b.checkpoint_file = Some(c.into());
            b.checkpoint_interval = 1;
        }
    }
    b.max_branches = 20_000;
    b.check(f);
}

fn main() {
    let args: Vec<String> = std::env::args().collect();
    if args.len() < 3 {
        eprintln!("usage: sched <stw|term|sync> <model> [--preemptions N] [--max-seconds S] [--checkpoint FILE]");
        eprintln!("stw models: {:?}", stw::SCENARIOS);
        std::process::exit(2);
    }
    let mut i = 3;
    while i + 1 < args.len() {
        unsafe {
            match args[i].as_str() {
                "--preemptions" => BOUND = Some(args[i + 1].parse().unwrap()),
                "--max-seconds" => MAX_SECONDS = Some(args[i + 1].parse().unwrap()),
                "--checkpoint" => CHECKPOINT = Some(args[i + 1].clone()),
                other => {
                    eprintln!("unknown option {}", other);
                    std::process::exit(2);
                }
            }
        }
        i += 2;
    }
    let t0 = Instant::now();
    match args[1].as_str() {
        "stw" => stw::run(&args[2]),
        "term" => term::run(&args[2]),
        "sync" => sync::run(&args[2], &std::env::var("VERIF_THREAD_DORA").unwrap_or("/repo/pkgs/std/thread.dora".into())),
        "hashmap" => {
            // sched hashmap <max_depth> [--preemptions <max_states>] [--checkpoint <history to replay>]
            let depth: usize = args[2].parse().unwrap();
            let max_states = unsafe { BOUND }.unwrap_or(2_000_000);
            #[allow(static_mut_refs)]
            let replay = unsafe { CHECKPOINT.clone() };
            hashmap::run(depth, max_states, replay.as_deref(), unsafe { MAX_SECONDS }.unwrap_or(2) as usize);
            return;
        }
        "term-patterns" => {
            for p in term::patterns(args[2].parse().unwrap()) {
                println!("{}", p);
            }
            return;
        }
        other => {
            eprintln!("unknown family {}", other);
            std::process::exit(2);
        }
    }
    let wall = t0.elapsed().as_secs_f64();
    let completed = unsafe { MAX_SECONDS.map(|m| wall < m as f64).unwrap_or(true) };
    stats::report(&format!("{}/{}", args[1], args[2]), unsafe { BOUND }, completed, wall);
}
