//! C09: Dora's Mutex / Condition (interpreted from pkgs/std/thread.dora) on top of the real wait-list
//! natives, thread blocking and join of dora-runtime, under every schedule loom produces.
use std::collections::HashMap;
use std::sync::atomic::Ordering;
use std::sync::Arc;

use dora_parser::TokenKind;
use dora_runtime::verif_api::*;
use loom::cell::UnsafeCell;

use crate::backend;
use crate::dorair::{Program, E, S};
use crate::stats;
use crate::stw::{main_exit, make_runtime, poll, spawn_managed};

pub struct MutexObj {
    loc: Address, // handle slot (in the main thread's handle memory) holding the object's address
    owner: UnsafeCell<i64>,
}
unsafe impl Send for MutexObj {}
unsafe impl Sync for MutexObj {}

pub struct CondObj {
    loc: Address,
}

#[derive(Clone)]
pub enum V {
    Unit,
    Int(i64),
    Bool(bool),
    Mutex(Arc<MutexObj>),
    Cond(Arc<CondObj>),
    AtomicOfMutex(Arc<MutexObj>),
    AtomicOfCond(Arc<CondObj>),
    Thread,
}

impl V {
    fn int(&self) -> i64 {
        match self {
            V::Int(i) => *i,
            _ => panic!("interpreter: integer expected"),
        }
    }
    fn bool(&self) -> bool {
        match self {
            V::Bool(b) => *b,
            _ => panic!("interpreter: bool expected"),
        }
    }
}

enum Flow {
    Return(V),
}

pub struct Interp {
    pub prog: Arc<Program>,
    pub rt: &'static Runtime,
}

fn mutex_handle(m: &MutexObj) -> Handle<ManagedMutex> {
    Handle::from_address(m.loc)
}
fn cond_handle(c: &CondObj) -> Handle<ManagedCondition> {
    Handle::from_address(c.loc)
}

impl Interp {
    pub fn new_mutex(&self) -> Arc<MutexObj> {
        let unlocked = *self.prog.consts.get("UNLOCKED").expect("const UNLOCKED") as i32;
        let obj = ManagedMutex::verif_alloc(unlocked);
        let r: Ref<ManagedMutex> = Address::from_ptr(obj as *const ManagedMutex).into();
        let h = current_thread().handles.create_handle(r);
        Arc::new(MutexObj { loc: h.location(), owner: UnsafeCell::new(0) })
    }

    pub fn new_cond(&self) -> Arc<CondObj> {
        let obj = ManagedCondition::verif_alloc(0);
        let r: Ref<ManagedCondition> = Address::from_ptr(obj as *const ManagedCondition).into();
        let h = current_thread().handles.create_handle(r);
        Arc::new(CondObj { loc: h.location() })
    }

    pub fn call(&self, class: &str, fname: &str, this: V, args: Vec<V>) -> V {
        let fct = self
            .prog
            .impls
            .get(class)
            .and_then(|m| m.get(fname))
            .unwrap_or_else(|| panic!("interpreter: {}::{} not found in thread.dora", class, fname));
        match &fct.body {
            None => self.native(class, fname, this, args),
            Some(body) => {
                poll(); // function entry
                let mut env: HashMap<String, V> = HashMap::new();
                assert_eq!(fct.params.len(), args.len(), "argument count of {}::{}", class, fname);
                for (p, a) in fct.params.iter().zip(args.into_iter()) {
                    env.insert(p.clone(), a);
                }
                match self.block(body, &this, &mut env) {
                    Ok(v) => v,
                    Err(Flow::Return(v)) => v,
                }
            }
        }
    }

    fn native(&self, class: &str, fname: &str, this: V, args: Vec<V>) -> V {
        let rt = self.rt;
        match (class, fname, &this) {
            ("Mutex", "wait", V::Mutex(m)) => rt.wait_lists.block(mutex_handle(m), args[0].int() as i32),
            ("Mutex", "notify", V::Mutex(m)) => rt.wait_lists.wakeup(mutex_handle(m).direct_ptr()),
            ("Condition", "enqueue", V::Cond(c)) => rt.wait_lists.enqueue(cond_handle(c)),
            ("Condition", "block", V::Cond(_)) => current_thread().block(),
            ("Condition", "wakeup_one", V::Cond(c)) => rt.wait_lists.wakeup(cond_handle(c).direct_ptr()),
            ("Condition", "wakeup_all", V::Cond(c)) => rt.wait_lists.wakeup_all(cond_handle(c).direct_ptr()),
            _ => panic!("interpreter: no native binding for {}::{}", class, fname),
        }
        V::Unit
    }

    fn block(&self, body: &[S], this: &V, env: &mut HashMap<String, V>) -> Result<V, Flow> {
        let mut last = V::Unit;
        for s in body {
            match s {
                S::Let(name, e) => {
                    let v = self.eval(e, this, env)?;
                    env.insert(name.clone(), v);
                    last = V::Unit;
                }
                S::Expr(e) => last = self.eval(e, this, env)?,
            }
        }
        Ok(last)
    }

    fn atomic_op(&self, a: &dora_runtime::verif_sync::AtomicI32, m: &str, args: &[V]) -> V {
        let o = Ordering::SeqCst;
        match m {
            "get" => V::Int(a.load(o) as i64),
            "set" => {
                a.store(args[0].int() as i32, o);
                V::Unit
            }
            "exchange" => V::Int(a.swap(args[0].int() as i32, o) as i64),
            "compare_exchange" => V::Int(match a.compare_exchange(args[0].int() as i32, args[1].int() as i32, o, o) {
                Ok(v) => v,
                Err(v) => v,
            } as i64),
            "fetch_add" => V::Int(a.fetch_add(args[0].int() as i32, o) as i64),
            _ => panic!("interpreter: unknown atomic operation {}", m),
        }
    }

    fn eval(&self, e: &E, this: &V, env: &mut HashMap<String, V>) -> Result<V, Flow> {
        Ok(match e {
            E::Int(i) => V::Int(*i),
            E::Bool(b) => V::Bool(*b),
            E::SelfRef => this.clone(),
            E::Name(n) => {
                if let Some(v) = env.get(n) {
                    v.clone()
                } else if let Some(c) = self.prog.consts.get(n) {
                    V::Int(*c)
                } else {
                    panic!("interpreter: unknown name {}", n)
                }
            }
            E::Field(obj, f) => {
                let o = self.eval(obj, this, env)?;
                match (&o, f.as_str()) {
                    (V::Mutex(m), "data") => V::AtomicOfMutex(m.clone()),
                    (V::Mutex(m), "owner_thread_id") => V::Int(m.owner.with(|p| unsafe { *p })),
                    (V::Cond(c), "waiters") => V::AtomicOfCond(c.clone()),
                    _ => panic!("interpreter: unknown field {}", f),
                }
            }
            E::Assign(lhs, rhs) => {
                let v = self.eval(rhs, this, env)?;
                match &**lhs {
                    E::Name(n) => {
                        env.insert(n.clone(), v);
                    }
                    E::Field(obj, f) => {
                        let o = self.eval(obj, this, env)?;
                        match (&o, f.as_str()) {
                            (V::Mutex(m), "owner_thread_id") => m.owner.with_mut(|p| unsafe { *p = v.int() }),
                            _ => panic!("interpreter: cannot assign field {}", f),
                        }
                    }
                    _ => panic!("interpreter: unsupported assignment target"),
                }
                V::Unit
            }
            E::MCall(recv, m, args) => {
                let r = self.eval(recv, this, env)?;
                let mut a = Vec::new();
                for x in args {
                    a.push(self.eval(x, this, env)?);
                }
                match &r {
                    V::AtomicOfMutex(mx) => self.atomic_op(mutex_handle(mx).verif_state(), m, &a),
                    V::AtomicOfCond(c) => self.atomic_op(cond_handle(c).verif_state(), m, &a),
                    V::Mutex(_) => self.call("Mutex", m, r.clone(), a),
                    V::Cond(_) => self.call("Condition", m, r.clone(), a),
                    V::Thread if m == "id" => V::Int(current_thread().id() as i64),
                    _ => panic!("interpreter: method {} on unsupported receiver", m),
                }
            }
            E::Call(path, args) => {
                let mut a = Vec::new();
                for x in args {
                    a.push(self.eval(x, this, env)?);
                }
                let p: Vec<&str> = path.iter().map(|s| s.as_str()).collect();
                match p.as_slice() {
                    ["assert"] => {
                        assert!(a[0].bool(), "Dora assert failed in thread.dora");
                        V::Unit
                    }
                    ["Thread", "current"] => V::Thread,
                    _ => panic!("interpreter: unknown function {:?}", path),
                }
            }
            E::Bin(op, l, r) => {
                if *op == TokenKind::OR_OR {
                    let lv = self.eval(l, this, env)?.bool();
                    return Ok(V::Bool(lv || self.eval(r, this, env)?.bool()));
                }
                if *op == TokenKind::AND_AND {
                    let lv = self.eval(l, this, env)?.bool();
                    return Ok(V::Bool(lv && self.eval(r, this, env)?.bool()));
                }
                let lv = self.eval(l, this, env)?;
                let rv = self.eval(r, this, env)?;
                match (op, &lv, &rv) {
                    (TokenKind::EQ_EQ, V::Int(a), V::Int(b)) => V::Bool(a == b),
                    (TokenKind::NOT_EQ, V::Int(a), V::Int(b)) => V::Bool(a != b),
                    (TokenKind::EQ_EQ, V::Bool(a), V::Bool(b)) => V::Bool(a == b),
                    (TokenKind::NOT_EQ, V::Bool(a), V::Bool(b)) => V::Bool(a != b),
                    (TokenKind::LT, V::Int(a), V::Int(b)) => V::Bool(a < b),
                    (TokenKind::LE, V::Int(a), V::Int(b)) => V::Bool(a <= b),
                    (TokenKind::GT, V::Int(a), V::Int(b)) => V::Bool(a > b),
                    (TokenKind::GE, V::Int(a), V::Int(b)) => V::Bool(a >= b),
                    (TokenKind::ADD, V::Int(a), V::Int(b)) => V::Int(a + b),
                    (TokenKind::SUB, V::Int(a), V::Int(b)) => V::Int(a - b),
                    _ => panic!("interpreter: unsupported operands for {:?}", op),
                }
            }
            E::Not(x) => V::Bool(!self.eval(x, this, env)?.bool()),
            E::If(c, t, f) => {
                if self.eval(c, this, env)?.bool() {
                    self.block(t, this, env)?
                } else if let Some(f) = f {
                    self.block(f, this, env)?
                } else {
                    V::Unit
                }
            }
            E::While(c, body) => {
                while self.eval(c, this, env)?.bool() {
                    self.block(body, this, env)?;
                    poll(); // loop back-edge
                }
                V::Unit
            }
            E::Return(v) => {
                let v = match v {
                    Some(v) => self.eval(v, this, env)?,
                    None => V::Unit,
                };
                return Err(Flow::Return(v));
            }
            E::Block(b) => self.block(b, this, env)?,
        })
    }
}

// ------------------------------------------------------------------------------------------------

struct Cells {
    counter: UnsafeCell<u64>,
    flag: UnsafeCell<bool>,
    items: UnsafeCell<Vec<u64>>,
}
unsafe impl Send for Cells {}
unsafe impl Sync for Cells {}

fn lock(i: &Interp, m: &Arc<MutexObj>) {
    i.call("Mutex", "lock_op", V::Mutex(m.clone()), vec![]);
}
fn unlock(i: &Interp, m: &Arc<MutexObj>) {
    i.call("Mutex", "unlock_op", V::Mutex(m.clone()), vec![]);
}
fn cwait(i: &Interp, c: &Arc<CondObj>, m: &Arc<MutexObj>) {
    i.call("Condition", "wait", V::Cond(c.clone()), vec![V::Mutex(m.clone())]);
}
fn notify_one(i: &Interp, c: &Arc<CondObj>) {
    i.call("Condition", "notify_one", V::Cond(c.clone()), vec![]);
}
fn notify_all(i: &Interp, c: &Arc<CondObj>) {
    i.call("Condition", "notify_all", V::Cond(c.clone()), vec![]);
}

/// Harness collector that "moves" every mutex / condition object: new address, all handle slots and
/// wait-table keys updated, as a copying collection does.
struct MovingCollector {
    moved: std::sync::atomic::AtomicUsize,
}

impl Collector for MovingCollector {
    fn alloc_tlab_area(&self, _rt: &Runtime, _size: usize) -> Option<Region> {
        None
    }
    fn alloc_object(&self, _rt: &Runtime, _size: usize) -> Option<Address> {
        None
    }
    fn alloc_readonly(&self, _rt: &Runtime, _size: usize) -> Address {
        unimplemented!()
    }
    fn collect_garbage(&self, rt: &Runtime, threads: &[Arc<DoraThread>], _reason: GcReason, _size: usize) {
        // collect all slots: handles of every thread + wait-table keys
        let mut slots: Vec<Address> = Vec::new();
        for t in threads {
            for h in t.handles.iterate_for_gc() {
                slots.push(h.location());
            }
        }
        rt.wait_lists.visit_roots(|slot| slots.push(slot.address()));
        let mut forwarding: HashMap<usize, usize> = HashMap::new();
        for s in slots {
            let old = Slot::at(s).get();
            if old.is_null() {
                continue;
            }
            let new = *forwarding.entry(old.to_usize()).or_insert_with(|| {
                // both object kinds have the same layout: header + one lock word
                let o: &ManagedMutex = unsafe { &*old.to_ptr::<ManagedMutex>() };
                let v = o.verif_state().load(Ordering::SeqCst);
                self.moved.fetch_add(1, Ordering::Relaxed);
                ManagedMutex::verif_alloc(v) as usize
            });
            Slot::at(s).relocate(Address::from(new));
        }
    }
    fn dump_summary(&self, _runtime: f32) {}
}

pub const SCENARIOS: &[&str] = &[
    "mutex2", "mutex3", "mutex2x2", "cond-pc", "cond-all", "cond-nopermit", "join", "queue", "mutex3-gc", "cond-gc",
];

pub fn run(name: &str, thread_dora: &str) {
    let src = std::fs::read_to_string(thread_dora).expect("thread.dora");
    let prog = match crate::dorair::lower(&src, &["Mutex", "Condition"]) {
        Ok(p) => Arc::new(p),
        Err(e) => {
            println!("UNSUPPORTED {}", e);
            std::process::exit(3);
        }
    };
    let name = name.to_string();
    crate::model(move || {
        backend::begin_execution();
        backend::set_tid(0);
        let moving = name.ends_with("-gc");
        let rt = make_runtime(if moving {
            Some(Box::new(MovingCollector { moved: std::sync::atomic::AtomicUsize::new(0) }))
        } else {
            None
        });
        let ip = Arc::new(Interp { prog: prog.clone(), rt });
        let cells = Arc::new(Cells { counter: UnsafeCell::new(0), flag: UnsafeCell::new(false), items: UnsafeCell::new(Vec::new()) });
        let mtx = ip.new_mutex();
        let mut handles = Vec::new();
        let mut outcome = 0u64;
        match name.as_str() {
            "mutex2" | "mutex3" | "mutex2x2" | "mutex3-gc" => {
                let (n, rounds) = match name.as_str() {
                    "mutex2" => (2, 1),
                    "mutex3" => (3, 1),
                    "mutex2x2" => (2, 2),
                    _ => (2, 1),
                };
                for t in 1..n {
                    let (ip2, m2, c2) = (ip.clone(), mtx.clone(), cells.clone());
                    handles.push(spawn_managed(rt, t as u64, move || {
                        for _ in 0..rounds {
                            lock(&ip2, &m2);
                            c2.counter.with_mut(|p| unsafe { *p += 1 });
                            unlock(&ip2, &m2);
                        }
                    }));
                }
                if moving {
                    handles.push(spawn_managed(rt, 9, move || {
                        rt.gc.verif_collect_garbage(rt, GcReason::ForceCollect, 0);
                    }));
                }
                for _ in 0..rounds {
                    lock(&ip, &mtx);
                    cells.counter.with_mut(|p| unsafe { *p += 1 });
                    unlock(&ip, &mtx);
                }
                main_exit(rt);
                for (h, _) in handles.drain(..) {
                    h.join().unwrap();
                }
                let v = cells.counter.with(|p| unsafe { *p });
                assert_eq!(v, (n * rounds) as u64, "lost update under the mutex");
                outcome = v;
            }
            "cond-pc" | "cond-all" | "cond-gc" => {
                let cond = ip.new_cond();
                let consumers = if name == "cond-all" { 2 } else { 1 };
                for t in 0..consumers {
                    let (ip2, m2, c2, cv2) = (ip.clone(), mtx.clone(), cells.clone(), cond.clone());
                    handles.push(spawn_managed(rt, 1 + t as u64, move || {
                        lock(&ip2, &m2);
                        while !c2.flag.with(|p| unsafe { *p }) {
                            cwait(&ip2, &cv2, &m2);
                            poll();
                        }
                        c2.counter.with_mut(|p| unsafe { *p += 1 });
                        unlock(&ip2, &m2);
                    }));
                }
                if moving {
                    handles.push(spawn_managed(rt, 9, move || {
                        rt.gc.verif_collect_garbage(rt, GcReason::ForceCollect, 0);
                    }));
                }
                lock(&ip, &mtx);
                cells.flag.with_mut(|p| unsafe { *p = true });
                if name == "cond-all" {
                    notify_all(&ip, &cond);
                } else {
                    notify_one(&ip, &cond);
                }
                unlock(&ip, &mtx);
                main_exit(rt);
                for (h, _) in handles.drain(..) {
                    h.join().unwrap();
                }
                let v = cells.counter.with(|p| unsafe { *p });
                assert_eq!(v, consumers as u64);
                outcome = v;
            }
            "cond-nopermit" => {
                let cond = ip.new_cond();
                // a notification without waiter must have no effect ...
                notify_one(&ip, &cond);
                notify_all(&ip, &cond);
                let (ip2, m2, c2, cv2) = (ip.clone(), mtx.clone(), cells.clone(), cond.clone());
                handles.push(spawn_managed(rt, 1, move || {
                    lock(&ip2, &m2);
                    if !c2.flag.with(|p| unsafe { *p }) {
                        // ... so this single wait can only return after the notification below
                        cwait(&ip2, &cv2, &m2);
                        assert!(c2.flag.with(|p| unsafe { *p }), "wait returned without a notification issued after it started");
                    }
                    unlock(&ip2, &m2);
                }));
                lock(&ip, &mtx);
                cells.flag.with_mut(|p| unsafe { *p = true });
                notify_one(&ip, &cond);
                unlock(&ip, &mtx);
                main_exit(rt);
                for (h, _) in handles.drain(..) {
                    h.join().unwrap();
                }
            }
            "join" => {
                let c2 = cells.clone();
                let (h, child) = spawn_managed(rt, 1, move || {
                    c2.counter.with_mut(|p| unsafe { *p = 42 });
                });
                child.join(); // DoraThread::join as Thread#join does
                let v = cells.counter.with(|p| unsafe { *p });
                assert_eq!(v, 42, "join returned before the joined thread's writes were visible");
                main_exit(rt);
                h.join().unwrap();
                outcome = v;
            }
            "queue" => {
                // bounded queue, capacity 1, two producers, one consumer (main), two items
                let not_full = ip.new_cond();
                let not_empty = ip.new_cond();
                for t in 1..=2u64 {
                    let (ip2, m2, c2, nf, ne) = (ip.clone(), mtx.clone(), cells.clone(), not_full.clone(), not_empty.clone());
                    handles.push(spawn_managed(rt, t, move || {
                        lock(&ip2, &m2);
                        while c2.items.with(|p| unsafe { (*p).len() }) >= 1 {
                            cwait(&ip2, &nf, &m2);
                            poll();
                        }
                        c2.items.with_mut(|p| unsafe { (*p).push(t) });
                        notify_one(&ip2, &ne);
                        unlock(&ip2, &m2);
                    }));
                }
                let mut got = Vec::new();
                for _ in 0..2 {
                    lock(&ip, &mtx);
                    while cells.items.with(|p| unsafe { (*p).is_empty() }) {
                        cwait(&ip, &not_empty, &mtx);
                        poll();
                    }
                    got.push(cells.items.with_mut(|p| unsafe { (*p).remove(0) }));
                    notify_one(&ip, &not_full);
                    unlock(&ip, &mtx);
                }
                main_exit(rt);
                for (h, _) in handles.drain(..) {
                    h.join().unwrap();
                }
                got.sort();
                assert_eq!(got, vec![1, 2], "items lost or duplicated");
                outcome = 2;
            }
            other => panic!("unknown scenario {}", other),
        }
        assert_eq!(rt.threads.threads.lock().len(), 0);
        stats::outcome(outcome);
        let (h, p) = backend::end_execution();
        stats::execution(h, p);
    });
}
