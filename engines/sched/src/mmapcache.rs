//! loom runs every model thread on a freshly mmap'ed coroutine stack and unmaps it at the end of the
//! execution; in this sandbox an munmap costs ~0.2-0.4 ms, i.e. more than the whole execution.
//! The harness binary therefore defines `mmap`/`munmap` itself (taking precedence over libc's for
//! calls made from Rust code) and recycles MAP_STACK regions; everything else goes to the kernel.
use std::ffi::c_void;

const MAP_STACK: i32 = 0x20000;
const MAP_ANONYMOUS: i32 = 0x20;
const MAX_CACHED: usize = 32;

struct Cache {
    entries: [(usize, usize); MAX_CACHED], // (addr, len)
    n: usize,
}

static mut CACHE: Cache = Cache { entries: [(0, 0); MAX_CACHED], n: 0 };
static LOCK: std::sync::atomic::AtomicBool = std::sync::atomic::AtomicBool::new(false);

fn lock() {
    while LOCK
        .compare_exchange(false, true, std::sync::atomic::Ordering::Acquire, std::sync::atomic::Ordering::Relaxed)
        .is_err()
    {
        std::hint::spin_loop();
    }
}

fn unlock() {
    LOCK.store(false, std::sync::atomic::Ordering::Release);
}

unsafe extern "C" {
    fn syscall(num: i64, ...) -> i64;
}

const SYS_MMAP: i64 = 9;
const SYS_MUNMAP: i64 = 11;

#[unsafe(no_mangle)]
#[allow(static_mut_refs)]
pub unsafe extern "C" fn mmap(addr: *mut c_void, len: usize, prot: i32, flags: i32, fd: i32, off: i64) -> *mut c_void {
    if addr.is_null() && (flags & MAP_STACK) != 0 && (flags & MAP_ANONYMOUS) != 0 {
        lock();
        let c = unsafe { &mut CACHE };
        for i in 0..c.n {
            if c.entries[i].1 == len {
                let a = c.entries[i].0;
                c.entries[i] = c.entries[c.n - 1];
                c.n -= 1;
                unlock();
                return a as *mut c_void;
            }
        }
        unlock();
        let r = unsafe { syscall(SYS_MMAP, addr, len, prot, flags, fd, off) };
        STACK_REGIONS.fetch_add(1, std::sync::atomic::Ordering::Relaxed);
        remember(r as usize, len);
        return r as *mut c_void;
    }
    (unsafe { syscall(SYS_MMAP, addr, len, prot, flags, fd, off) }) as *mut c_void
}

// regions we handed out for MAP_STACK requests (so that only those are recycled on munmap)
static mut KNOWN: [(usize, usize); 64] = [(0, 0); 64];
static STACK_REGIONS: std::sync::atomic::AtomicUsize = std::sync::atomic::AtomicUsize::new(0);

#[allow(static_mut_refs)]
fn remember(addr: usize, len: usize) {
    lock();
    let k = unsafe { &mut KNOWN };
    for e in k.iter_mut() {
        if e.0 == 0 {
            *e = (addr, len);
            break;
        }
    }
    unlock();
}

#[allow(static_mut_refs)]
fn known(addr: usize, len: usize) -> bool {
    let k = unsafe { &KNOWN };
    k.iter().any(|e| e.0 == addr && e.1 == len)
}

#[unsafe(no_mangle)]
#[allow(static_mut_refs)]
pub unsafe extern "C" fn munmap(addr: *mut c_void, len: usize) -> i32 {
    lock();
    if known(addr as usize, len) {
        let c = unsafe { &mut CACHE };
        if c.n < MAX_CACHED {
            c.entries[c.n] = (addr as usize, len);
            c.n += 1;
            unlock();
            return 0;
        }
    }
    unlock();
    (unsafe { syscall(SYS_MUNMAP, addr, len) }) as i32
}
