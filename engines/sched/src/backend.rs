//! loom back end for dora-runtime's synchronisation shim (verif_sync::Backend).
//!
//! All model threads of one loom execution run as coroutines on the OS thread that called
//! `loom::model`, one at a time, so the per-execution tables below need no locking of their own.
#![allow(static_mut_refs)]

use std::sync::atomic::Ordering;

use dora_runtime::verif_sync::{AtomicOp, Backend};
use loom::sync::atomic::AtomicU64;
use loom::sync::{Condvar, Mutex, MutexGuard};

pub struct LoomBackend;

pub static BACKEND: LoomBackend = LoomBackend;

struct Tables {
    mutexes: Vec<*mut Mutex<()>>,
    guards: Vec<Option<MutexGuard<'static, ()>>>,
    condvars: Vec<*mut Condvar>,
    atomics: Vec<*mut AtomicU64>,
    trace_hash: u64,
    points: u64,
}

static mut TABLES: Option<Tables> = None;

loom::thread_local! {
    static CURRENT: std::cell::Cell<usize> = std::cell::Cell::new(0);
    static TID: std::cell::Cell<u64> = std::cell::Cell::new(0);
}

/// Small stable id of the calling model thread (for trace hashing).
pub fn set_tid(tid: u64) {
    TID.with(|c| c.set(tid));
}

fn tables() -> &'static mut Tables {
    unsafe { TABLES.as_mut().expect("backend tables: begin_execution() not called") }
}

/// Call at the start of every loom execution (inside the model closure).
pub fn begin_execution() {
    unsafe {
        if let Some(old) = TABLES.take() {
            free(old);
        }
        TABLES = Some(Tables {
            mutexes: Vec::new(),
            guards: Vec::new(),
            condvars: Vec::new(),
            atomics: Vec::new(),
            trace_hash: 0xcbf29ce484222325,
            points: 0,
        });
    }
    dora_runtime::verif_sync::set_backend(Some(&BACKEND));
}

fn free(mut t: Tables) {
    // guards first (they borrow the mutexes)
    for g in t.guards.drain(..) {
        std::mem::forget(g); // a guard still held at the end belongs to a finished execution
    }
    unsafe {
        for m in t.mutexes.drain(..) {
            drop(Box::from_raw(m));
        }
        for c in t.condvars.drain(..) {
            drop(Box::from_raw(c));
        }
        for a in t.atomics.drain(..) {
            drop(Box::from_raw(a));
        }
    }
}

/// (trace hash, scheduling points) of the execution that just ran.
pub fn end_execution() -> (u64, u64) {
    let t = tables();
    (t.trace_hash, t.points)
}

fn note(kind: u64, id: usize) {
    let t = tables();
    t.points += 1;
    let tid = TID.with(|c| c.get());
    for v in [kind, id as u64, tid] {
        t.trace_hash ^= v;
        t.trace_hash = t.trace_hash.wrapping_mul(0x100000001b3);
    }
}

impl Backend for LoomBackend {
    fn register_mutex(&self) -> usize {
        let t = tables();
        t.mutexes.push(Box::into_raw(Box::new(Mutex::new(()))));
        t.guards.push(None);
        t.mutexes.len() - 1
    }

    fn register_condvar(&self) -> usize {
        let t = tables();
        t.condvars.push(Box::into_raw(Box::new(Condvar::new())));
        t.condvars.len() - 1
    }

    fn register_atomic(&self, init: u64) -> usize {
        let t = tables();
        t.atomics.push(Box::into_raw(Box::new(AtomicU64::new(init))));
        t.atomics.len() - 1
    }

    fn mutex_lock(&self, id: usize) {
        let m: &'static Mutex<()> = unsafe { &*tables().mutexes[id] };
        let g = m.lock().unwrap();
        note(1, id);
        let t = tables();
        assert!(t.guards[id].is_none(), "mutex {} locked twice", id);
        t.guards[id] = Some(g);
    }

    fn mutex_unlock(&self, id: usize) {
        note(2, id);
        let g = tables().guards[id].take().expect("unlock of a mutex that is not held");
        drop(g);
    }

    fn cv_wait(&self, cv: usize, mutex: usize) {
        note(3, cv);
        let g = tables().guards[mutex].take().expect("cv_wait without holding the mutex");
        let c: &'static Condvar = unsafe { &*tables().condvars[cv] };
        let g = c.wait(g).unwrap();
        note(4, cv);
        let t = tables();
        assert!(t.guards[mutex].is_none());
        t.guards[mutex] = Some(g);
    }

    fn cv_notify_one(&self, cv: usize) {
        note(5, cv);
        let c: &'static Condvar = unsafe { &*tables().condvars[cv] };
        c.notify_one();
    }

    fn cv_notify_all(&self, cv: usize) {
        note(6, cv);
        let c: &'static Condvar = unsafe { &*tables().condvars[cv] };
        c.notify_all();
    }

    fn atomic(&self, id: usize, op: AtomicOp, a: u64, b: u64, ord: Ordering, fail: Ordering) -> (u64, bool) {
        let at: &'static AtomicU64 = unsafe { &*tables().atomics[id] };
        // loom panics on orderings that are invalid for the operation exactly like std does
        let r = match op {
            AtomicOp::Load => (at.load(ord), true),
            AtomicOp::Store => {
                at.store(a, ord);
                (0, true)
            }
            AtomicOp::Swap => (at.swap(a, ord), true),
            AtomicOp::CompareExchange => match at.compare_exchange(a, b, ord, fail) {
                Ok(v) => (v, true),
                Err(v) => (v, false),
            },
            AtomicOp::FetchAdd => (at.fetch_add(a, ord), true),
            AtomicOp::FetchSub => (at.fetch_sub(a, ord), true),
            AtomicOp::FetchOr => (at.fetch_or(a, ord), true),
        };
        note(7 + op as u64, id);
        r
    }

    fn tls_get(&self) -> usize {
        CURRENT.with(|c| c.get())
    }

    fn tls_set(&self, value: usize) {
        CURRENT.with(|c| c.set(value));
    }
}
