//! C09 (data-structure part): explicit-state search over the real address-keyed wait table
//! (runtime/waitlists.rs ObjectHashMap) against a BTreeMap reference.
//! Keys are abstracted to their home slot; a state is reached by replaying its action history
//! on a fresh real table.
use std::collections::{BTreeMap, HashSet, VecDeque};

use dora_runtime::verif_api::{Address, ObjectHashMap};

#[derive(Clone, Copy, Debug, PartialEq, Eq)]
pub enum Act {
    Ins(u8),       // insert a fresh key whose address has low bits `home`
    Rem(u8),       // remove the j-th live key (slot order)
    GetAbsent(u8), // look up an absent key with the given home
    RemAbsent(u8), // remove an absent key
    Epoch,         // a collection happened: the table must rehash on the next access
    Move(u8),      // a MOVING collection: every live key is relocated (its address bit `8 << n` flips, so its home
                   // slot changes), the stored keys are updated in place through visit_roots as the collector does,
                   // and the epoch is bumped
}

static mut NHOMES: usize = 2;
static mut NARROW: bool = false;
const ALL_HOMES: [u8; 4] = [0, 8, 16, 24];
fn homes() -> &'static [u8] {
    unsafe { &ALL_HOMES[..NHOMES] }
}

struct World {
    map: ObjectHashMap<u64>,
    reference: BTreeMap<usize, u64>,
    next_key: usize,
}

fn key_for(n: usize, home: u8) -> usize {
    (n << 8) | home as usize
}

fn live_keys(w: &World) -> Vec<usize> {
    let mut v = Vec::new();
    for i in 0..w.map.verif_capacity() {
        let k = w.map.verif_slot(i);
        if k > 1 {
            v.push(k);
        }
    }
    v
}

fn has_empty_slot(w: &World) -> bool {
    let c = w.map.verif_capacity();
    c == 0 || (0..c).any(|i| w.map.verif_slot(i) == 0)
}

/// Applies one action to the real table and the reference; returns a violation description.
fn apply(w: &mut World, a: Act, rt: &'static dora_runtime::Runtime) -> Result<(), String> {
    match a {
        Act::Ins(h) => {
            if !has_empty_slot(w) {
                return Err("no EMPTY slot left: the probe loop of insert cannot terminate".into());
            }
            let k = key_for(w.next_key, h);
            w.next_key += 1;
            w.map.verif_insert(Address::from(k), k as u64);
            w.reference.insert(k, k as u64);
        }
        Act::Rem(j) => {
            let live = live_keys(w);
            let k = live[j as usize];
            let got = w.map.verif_remove(Address::from(k));
            let want = w.reference.remove(&k);
            if got != want {
                return Err(format!("remove({:#x}) returned {:?}, reference {:?}", k, got, want));
            }
        }
        Act::GetAbsent(h) | Act::RemAbsent(h) => {
            if w.map.verif_entries() > 0 && !has_empty_slot(w) {
                return Err(format!(
                    "capacity {} holds {} live entries and {} tombstones but no EMPTY slot: get/remove of an absent key never terminates",
                    w.map.verif_capacity(),
                    w.map.verif_entries(),
                    w.map.verif_capacity() - w.map.verif_entries()
                ));
            }
            let k = key_for(0xfff, h);
            let got = if matches!(a, Act::GetAbsent(_)) { w.map.verif_get(Address::from(k)) } else { w.map.verif_remove(Address::from(k)) };
            if got.is_some() {
                return Err(format!("absent key {:#x} found: {:?}", k, got));
            }
        }
        Act::Epoch => rt.gc.verif_bump_epoch(),
        Act::Move(n) => {
            let bit = 8usize << n;
            w.map.verif_visit_roots(|slot| {
                let old = slot.get().to_usize();
                slot.relocate(Address::from(old ^ bit));
            });
            let moved: BTreeMap<usize, u64> = w.reference.iter().map(|(k, v)| (*k ^ bit, *v)).collect();
            w.reference = moved;
            rt.gc.verif_bump_epoch();
        }
    }
    // agreement on every live key
    let keys: Vec<usize> = w.reference.keys().cloned().collect();
    if w.map.verif_entries() != keys.len() {
        return Err(format!("entries {} != reference {}", w.map.verif_entries(), keys.len()));
    }
    if !matches!(a, Act::Epoch | Act::Move(_)) {
        for k in keys {
            if !has_empty_slot(w) {
                break;
            }
            let got = w.map.verif_get(Address::from(k));
            if got != w.reference.get(&k).cloned() {
                return Err(format!("get({:#x}) = {:?}, reference {:?}", k, got, w.reference.get(&k)));
            }
        }
    }
    Ok(())
}

fn build(hist: &[Act], rt: &'static dora_runtime::Runtime) -> Result<World, (usize, String)> {
    let mut w = World { map: ObjectHashMap::verif_new(), reference: BTreeMap::new(), next_key: 1 };
    for (i, a) in hist.iter().enumerate() {
        apply(&mut w, *a, rt).map_err(|e| (i, e))?;
    }
    Ok(w)
}

/// Canonical state: capacity, per slot EMPTY / DELETED / home class of the live key, plus whether
/// the table is stale w.r.t. the epoch. Key identities beyond the home slot do not influence any
/// future behaviour (probing depends only on home slots and slot contents).
fn canon(w: &World, stale: bool) -> Vec<u8> {
    let c = w.map.verif_capacity();
    let mut v = Vec::with_capacity(c + 2);
    v.push(c as u8);
    v.push(stale as u8);
    for i in 0..c {
        let k = w.map.verif_slot(i);
        v.push(match k {
            0 => 0,
            1 => 1,
            k => 2 + ((k & 0xff) as u8 & (c.max(1) as u8).wrapping_sub(1)),
        });
    }
    v
}

pub fn run(max_depth: usize, max_states: usize, replay: Option<&str>, nhomes: usize) {
    unsafe {
        NARROW = nhomes >= 10;
        NHOMES = nhomes % 10;
    }
    dora_runtime::verif_sync::set_backend(None);
    unsafe {
        crate::stw::SEQUENTIAL = true;
    }
    let rt = crate::stw::make_runtime(None);
    if let Some(r) = replay {
        let hist = parse_hist(r);
        match build(&hist, rt) {
            Ok(_) => println!("REPLAY ok: history of {} actions satisfies the invariants", hist.len()),
            Err((i, e)) => println!("REPLAY violation at action {} ({:?}): {}", i, hist[i], e),
        }
        return;
    }
    let mut seen: HashSet<Vec<u8>> = HashSet::new();
    let mut frontier: VecDeque<(Vec<Act>, bool)> = VecDeque::new();
    frontier.push_back((Vec::new(), false));
    seen.insert(vec![0, 0]);
    let mut transitions: u64 = 0;
    let mut max_seen_depth = 0;
    let mut violation: Option<(Vec<Act>, String)> = None;
    let mut capped = false;
    let mut max_cap = 0usize;
    let mut expanding_depth = 0usize;
    'bfs: while let Some((hist, stale)) = frontier.pop_front() {
        expanding_depth = hist.len();
        if hist.len() >= max_depth {
            continue;
        }
        let w = build(&hist, rt).expect("prefix was valid");
        let live = w.map.verif_entries();
        let w_capacity = w.map.verif_capacity();
        max_cap = max_cap.max(w.map.verif_capacity());
        let mut acts: Vec<Act> = Vec::new();
        for &h in homes() {
            acts.push(Act::Ins(h));
        }
        if unsafe { NARROW } {
            // deep-and-narrow mode: only the oldest and the newest live key are removed
            if live > 0 {
                acts.push(Act::Rem(0));
            }
            if live > 1 {
                acts.push(Act::Rem((live - 1) as u8));
            }
        } else {
            for j in 0..live.min(32) {
                acts.push(Act::Rem(j as u8));
            }
        }
        for &h in homes() {
            acts.push(Act::GetAbsent(h));
        }
        // remove() on a never-used table (capacity 0) is unreachable through WaitLists: wakeup_all is
        // only called for a condition whose `waiters` flag was set by an earlier enqueue (= insert).
        if w_capacity > 0 {
            acts.push(Act::RemAbsent(0));
        }
        if !stale {
            acts.push(Act::Epoch);
            if live > 0 {
                for n in 0..(unsafe { NHOMES } / 2).max(1) {
                    acts.push(Act::Move(n as u8));
                }
            }
        }
        drop(w);
        for a in acts {
            transitions += 1;
            let mut h2 = hist.clone();
            h2.push(a);
            match build(&h2, rt) {
                Err((_, e)) => {
                    violation = Some((h2, e));
                    break 'bfs;
                }
                Ok(w2) => {
                    let st2 = matches!(a, Act::Epoch | Act::Move(_)) || (stale && false);
                    let key = canon(&w2, st2);
                    if seen.insert(key) {
                        max_seen_depth = max_seen_depth.max(h2.len());
                        if seen.len() >= max_states {
                            capped = true;
                            break 'bfs;
                        }
                        frontier.push_back((h2, st2));
                    }
                }
            }
        }
    }
    let violation_found = violation.is_some();
    match violation {
        Some((h, e)) => {
            println!("VIOLATION history={} :: {}", fmt_hist(&h), e);
        }
        None => {}
    }
    println!(
        "RESULT {{\"model\": \"hashmap\", \"states\": {}, \"transitions\": {}, \"max_depth\": {}, \"depth_bound\": {}, \"capped\": {}, \"max_capacity\": {}, \"completed_depth\": {}}}",
        seen.len(),
        transitions,
        max_seen_depth,
        max_depth,
        capped,
        max_cap,
        if capped || violation_found { expanding_depth } else { max_depth }
    );
}

pub fn fmt_hist(h: &[Act]) -> String {
    h.iter()
        .map(|a| match a {
            Act::Ins(x) => format!("i{}", x),
            Act::Rem(j) => format!("r{}", j),
            Act::GetAbsent(x) => format!("g{}", x),
            Act::RemAbsent(x) => format!("x{}", x),
            Act::Epoch => "e".to_string(),
            Act::Move(n) => format!("m{}", n),
        })
        .collect::<Vec<_>>()
        .join(",")
}

pub fn parse_hist(s: &str) -> Vec<Act> {
    s.split(',')
        .filter(|p| !p.is_empty())
        .map(|p| {
            let n: u8 = p[1..].parse().unwrap_or(0);
            match &p[..1] {
                "i" => Act::Ins(n),
                "r" => Act::Rem(n),
                "g" => Act::GetAbsent(n),
                "x" => Act::RemAbsent(n),
                "e" => Act::Epoch,
                "m" => Act::Move(n),
                _ => panic!("bad action {}", p),
            }
        })
        .collect()
}
