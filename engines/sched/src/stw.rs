//! C04: the real stop-the-world protocol of dora-runtime under every schedule loom produces.
//!
//! Each model thread is a registered DoraThread running a short script of the things managed
//! threads do: poll at a safepoint, touch "its heap" (a loom-tracked cell), enter/leave native code,
//! request a stop-the-world operation or a collection, start a thread, join a thread, exit.
use std::sync::atomic::{AtomicUsize, Ordering};
use std::sync::Arc;

use dora_runtime::verif_api::*;
use dora_runtime::verif_sync;
use loom::cell::UnsafeCell;

use crate::backend;
use crate::stats;

#[derive(Clone, Debug)]
pub enum Step {
    /// safepoint poll as emitted at function entries / loop back-edges
    Poll,
    /// touch the managed heap (only legal while the world is not stopped)
    Mutate,
    /// a native call: park, do nothing managed, unpark
    Native,
    /// stop-the-world operation that touches the whole heap
    Stw,
    /// collection request: (forced)
    Collect(bool),
    /// start a new managed thread running the given script
    Spawn(Vec<Step>),
    /// join the most recently spawned child (DoraThread::join)
    Join,
}

pub struct Heap {
    cells: Vec<UnsafeCell<u64>>,
}
unsafe impl Sync for Heap {}
unsafe impl Send for Heap {}

struct Shared {
    rt: &'static Runtime,
    heap: Arc<Heap>,
    ops_done: Arc<AtomicUsize>,
    next_cell: AtomicUsize,
}

fn check_world_stopped(threads: &[Arc<DoraThread>]) {
    let me = current_thread() as *const DoraThread;
    for t in threads {
        let st = t.state_relaxed();
        if Arc::as_ptr(t) == me {
            assert!(
                st == ThreadState::ParkedSafepointRequested || (threads.len() == 1 && st == ThreadState::Parked),
                "initiator in state {:?} during the operation",
                st
            );
        } else {
            assert!(
                st == ThreadState::Safepoint || st == ThreadState::ParkedSafepointRequested,
                "thread {} is {:?} while the world is stopped",
                t.id(),
                st
            );
        }
    }
}

fn touch_whole_heap(heap: &Heap) {
    for (i, c) in heap.cells.iter().enumerate() {
        c.with_mut(|p| unsafe { *p += 100 });
        if i == 0 {
            loom::thread::yield_now();
        }
    }
}

struct HarnessCollector {
    heap: Arc<Heap>,
    ops_done: Arc<AtomicUsize>,
}

impl Collector for HarnessCollector {
    fn alloc_tlab_area(&self, _rt: &Runtime, _size: usize) -> Option<Region> {
        None
    }
    fn alloc_object(&self, _rt: &Runtime, _size: usize) -> Option<Address> {
        None
    }
    fn alloc_readonly(&self, _rt: &Runtime, _size: usize) -> Address {
        unimplemented!()
    }
    fn collect_garbage(&self, rt: &Runtime, threads: &[Arc<DoraThread>], _reason: GcReason, _size: usize) {
        assert!(rt.state().in_safepoint());
        check_world_stopped(threads);
        touch_whole_heap(&self.heap);
        self.ops_done.fetch_add(1, Ordering::Relaxed);
    }
    fn dump_summary(&self, _runtime: f32) {}
}

pub fn flags() -> RuntimeFlags {
    RuntimeFlags {
        gc_stress: false,
        gc_stress_minor: false,
        gc_stats: false,
        gc_verbose: false,
        gc_verify: false,
        gc_worker: 1,
        gc_young_size: None,
        gc: Some(dora_runtime::CollectorName::Zero),
        min_heap_size: Some(dora_runtime::MemSize(1 << 20)),
        max_heap_size: Some(dora_runtime::MemSize(1 << 20)),
        readonly_size: Some(dora_runtime::MemSize(1 << 16)),
        disable_tlab: false,
        snapshot_on_oom: None,
    }
}

static SHAPE_SPACE: [u64; 64] = [0; 64];

static mut RUNTIME: *mut Runtime = std::ptr::null_mut();
/// Set by purely sequential explorers: no scheduler back end is ever installed.
pub static mut SEQUENTIAL: bool = false;

/// A real Runtime, created once per process (mapping a heap for each of millions of executions
/// costs more than the exploration). Everything the checked protocols use -- the thread list, its
/// barrier and the wait lists, i.e. every shim-backed object -- is replaced by a freshly constructed
/// one at the start of every execution, so no state survives from one execution to the next.
/// Registers the calling loom thread as the main thread exactly like `execute_on_main`.
#[allow(static_mut_refs)]
pub fn make_runtime(collector: Option<Box<dyn Collector + Sync>>) -> &'static Runtime {
    let rt: &'static Runtime = unsafe {
        if RUNTIME.is_null() {
            dora_runtime::verif_sync::set_backend(None);
            let mut rt = Runtime::new(empty_program(), flags(), Vec::new());
            rt.set_shape_space(Address::from_ptr(SHAPE_SPACE.as_ptr()), 512);
            RUNTIME = Box::into_raw(rt);
            set_runtime(&*RUNTIME);
            if !SEQUENTIAL {
                dora_runtime::verif_sync::set_backend(Some(&backend::BACKEND));
            }
        }
        {
            let rt_mut: &mut Runtime = &mut *RUNTIME;
            rt_mut.threads = Threads::new();
            rt_mut.wait_lists = WaitLists::new();
            if let Some(c) = collector {
                rt_mut.gc.verif_set_collector(c);
            }
        }
        let rt: &'static Runtime = &*RUNTIME;
        assert!(rt.state().in_running());
        rt
    };
    let main = DoraThread::new(rt, ThreadState::Running);
    init_current_thread(main.clone());
    rt.threads.add_main_thread(main);
    rt
}

pub fn drop_runtime(_rt: &'static Runtime) {}

/// Starts a managed thread the way stdlib::spawn_thread / thread_main do.
pub fn spawn_managed<F: FnOnce() + Send + 'static>(
    rt: &'static Runtime,
    tid: u64,
    f: F,
) -> (loom::thread::JoinHandle<()>, Arc<DoraThread>) {
    let child = DoraThread::new(rt, ThreadState::Parked);
    rt.threads.add_thread(child.clone());
    let child2 = child.clone();
    let handle = loom::thread::spawn(move || {
        backend::set_tid(tid);
        let thread = init_current_thread(child2);
        thread.unpark(rt);
        f();
        rt.threads.remove_current_thread();
        thread.stop();
        deinit_current_thread();
    });
    (handle, child)
}

/// The main thread leaves the managed world (end of execute_on_main).
pub fn main_exit(rt: &'static Runtime) {
    rt.threads.remove_current_thread();
    deinit_current_thread();
}

/// safepoint poll as compiled code performs it
pub fn poll() {
    let thread = current_thread();
    if thread.tld.state.load(Ordering::Relaxed) != ThreadState::Running as u8 {
        safepoint_slow();
    }
}

fn run_script(sh: Arc<Shared>, script: Vec<Step>, cell: usize) -> usize {
    let rt = sh.rt;
    let mut mutations = 0;
    let mut children: Vec<(loom::thread::JoinHandle<()>, Arc<DoraThread>)> = Vec::new();
    for step in script {
        let thread = current_thread();
        match step {
            Step::Poll => {
                if thread.tld.state.load(Ordering::Relaxed) != ThreadState::Running as u8 {
                    safepoint_slow();
                }
            }
            Step::Mutate => {
                assert!(thread.is_running(), "mutating while {:?}", thread.state_relaxed());
                sh.heap.cells[cell].with_mut(|p| unsafe { *p += 1 });
                mutations += 1;
            }
            Step::Native => {
                parked_scope(|| {
                    loom::thread::yield_now();
                });
            }
            Step::Stw => {
                let heap = sh.heap.clone();
                let ops = sh.ops_done.clone();
                stop_the_world(rt, |threads| {
                    assert!(rt.state().in_safepoint());
                    check_world_stopped(threads);
                    touch_whole_heap(&heap);
                    ops.fetch_add(1, Ordering::Relaxed);
                });
            }
            Step::Collect(forced) => {
                let reason = if forced { GcReason::ForceCollect } else { GcReason::AllocationFailure };
                rt.gc.verif_collect_garbage(rt, reason, 0);
            }
            Step::Spawn(child_script) => {
                // mirrors stdlib::spawn_thread / thread_main
                let child = DoraThread::new(rt, ThreadState::Parked);
                rt.threads.add_thread(child.clone());
                let child_cell = sh.next_cell.fetch_add(1, Ordering::Relaxed);
                let sh2 = sh.clone();
                let child2 = child.clone();
                let expected_cell = child_cell;
                let handle = loom::thread::spawn(move || {
                    backend::set_tid(expected_cell as u64);
                    let thread = init_current_thread(child2);
                    thread.unpark(sh2.rt);
                    let n = run_script(sh2.clone(), child_script, expected_cell);
                    sh2.rt.threads.remove_current_thread();
                    thread.stop();
                    deinit_current_thread();
                    stats::add_mutations(expected_cell, n);
                });
                children.push((handle, child));
            }
            Step::Join => {
                let (_, child) = children.last().expect("Join without Spawn");
                child.join();
            }
        }
    }
    // the thread leaves the managed world before it blocks on anything unmanaged
    if cell == 0 {
        rt.threads.remove_current_thread();
        deinit_current_thread();
    }
    for (h, _) in children {
        h.join().unwrap();
    }
    mutations
}

/// One scenario = script of the main thread (children are spawned by Spawn steps).
pub fn scenario(name: &str) -> Option<Vec<Step>> {
    use Step::*;
    let m = |n: usize| -> Vec<Step> {
        let mut v = Vec::new();
        for _ in 0..n {
            v.push(Poll);
            v.push(Mutate);
        }
        v.push(Poll);
        v
    };
    Some(match name {
        // 2 threads: a mutator and a stop-the-world request from main
        "stw2" => vec![Spawn(m(2)), Stw, Mutate, Poll],
        // 3 threads: two mutators, one request
        "stw3" => vec![Spawn(m(1)), Spawn(m(1)), Stw, Mutate],
        // 3 threads: two simultaneous requests + one mutator
        "stw3-two-requests" => vec![Spawn(vec![Mutate, Stw, Mutate]), Spawn(m(1)), Stw, Mutate],
        // mutator entering/leaving native code around the operation
        "stw3-native" => vec![Spawn(vec![Mutate, Native, Mutate, Poll]), Spawn(vec![Native, Mutate]), Stw, Mutate],
        // thread start racing the operation (the requester is a child, main starts another child)
        "stw3-start" => vec![Spawn(vec![Stw, Mutate]), Spawn(vec![Mutate, Poll, Mutate]), Poll, Mutate],
        // thread exit and join racing the operation
        "stw3-exit-join" => vec![Spawn(vec![Mutate]), Spawn(vec![Stw]), Join, Mutate, Poll],
        // two allocation-failure collections: coalesced per epoch
        "gc3-coalesce" => vec![Spawn(vec![Collect(false), Mutate]), Spawn(vec![Collect(false), Mutate]), Poll, Mutate, Poll],
        // forced collections are never coalesced
        "gc3-forced" => vec![Spawn(vec![Collect(true)]), Spawn(vec![Collect(true), Mutate]), Poll, Mutate],
        // 4 threads: 2 mutators + 2 requesters
        "stw4" => vec![Spawn(m(1)), Spawn(vec![Stw]), Spawn(vec![Mutate, Poll]), Stw],
        // two consecutive rounds by the same initiator while a thread is still leaving the first
        "stw3-rearm" => vec![Spawn(m(1)), Spawn(vec![Poll, Native]), Stw, Stw],
        // native call while two rounds happen
        "stw2-native-rounds" => vec![Spawn(vec![Native, Mutate, Native]), Stw, Stw],
        _ => return None,
    })
}

pub const SCENARIOS: &[&str] = &[
    "stw2", "stw2-native-rounds", "stw3", "stw3-two-requests", "stw3-native", "stw3-start", "stw3-exit-join",
    "gc3-coalesce", "gc3-forced", "stw3-rearm", "stw4",
];

fn count(script: &[Step], f: &dyn Fn(&Step) -> bool) -> usize {
    script
        .iter()
        .map(|s| {
            (if f(s) { 1 } else { 0 })
                + match s {
                    Step::Spawn(c) => count(c, f),
                    _ => 0,
                }
        })
        .sum()
}

pub fn run(name: &str) {
    let script = scenario(name).expect("unknown scenario");
    let nthreads = 1 + count(&script, &|s| matches!(s, Step::Spawn(_)));
    let stws = count(&script, &|s| matches!(s, Step::Stw));
    let forced = count(&script, &|s| matches!(s, Step::Collect(true)));
    let unforced = count(&script, &|s| matches!(s, Step::Collect(false)));
    crate::model(move || {
        backend::begin_execution();
        backend::set_tid(0);
        stats::reset_mutations();
        let heap = Arc::new(Heap { cells: (0..nthreads).map(|_| UnsafeCell::new(0)).collect() });
        let ops_done = Arc::new(AtomicUsize::new(0));
        let rt = make_runtime(Some(Box::new(HarnessCollector { heap: heap.clone(), ops_done: ops_done.clone() })));
        let epoch0 = rt.gc.epoch();
        let sh = Arc::new(Shared { rt, heap: heap.clone(), ops_done: ops_done.clone(), next_cell: AtomicUsize::new(1) });
        let n0 = run_script(sh.clone(), script.clone(), 0);
        stats::add_mutations(0, n0);
        // every thread has terminated (joined); all must have left the thread list
        assert_eq!(rt.threads.threads.lock().len(), 0, "a thread was left in the thread list");
        let ops = ops_done.load(Ordering::Relaxed);
        let min_ops = stws + forced + if unforced > 0 { 1 } else { 0 };
        let max_ops = stws + forced + unforced;
        assert!(ops >= min_ops && ops <= max_ops, "operations performed {} not in {}..={}", ops, min_ops, max_ops);
        assert_eq!(rt.gc.epoch() - epoch0, ops - stws, "one epoch per collection");
        for (i, c) in heap.cells.iter().enumerate() {
            let v = c.with(|p| unsafe { *p });
            let expected = stats::mutations(i) as u64 + 100 * ops as u64;
            assert_eq!(v, expected, "heap cell {} holds {} expected {}", i, v, expected);
        }
        stats::outcome(ops as u64);
        drop(sh);
        drop_runtime(rt);
        let (h, p) = backend::end_execution();
        stats::execution(h, p);
    });
    let _ = verif_sync::backend();
}
