"""C08 -- semantic checks of the composite helpers of the AArch64 assembler.

The driver executes mov_imm / ldr_mem_* / str_mem_* / the label branches and dumps the emitted words.
Here the words are decoded by llvm-mc (reference decoder) and the decoded sequence is evaluated by a
tiny interpreter: a constant load must compute the requested constant, a memory helper must access
base + requested offset with the requested register and width, a branch to a label must reach the
bound position (and fall through otherwise).  Helper predicates are compared with reference functions.
"""
import os
import re
import subprocess

M64 = (1 << 64) - 1

COND_ENC = {"eq": 0, "ne": 1, "cs": 2, "hs": 2, "cc": 3, "lo": 3, "mi": 4, "pl": 5, "vs": 6, "vc": 7, "hi": 8,
            "ls": 9, "ge": 10, "lt": 11, "gt": 12, "le": 13, "al": 14, "nv": 15}


class Findings:
    def __init__(self):
        self.f = {}

    def add(self, key, case, what):
        e = self.f.setdefault(key, {"count": 0, "examples": []})
        e["count"] += 1
        ex = dict(case)
        ex["what"] = what
        e["examples"].append(ex)
        e["examples"].sort(key=lambda c: (sum(min(abs(v), 1 << 40) for v in c["ops"]), c["ops"]))
        del e["examples"][3:]


def disassemble(words, llvm, mattr, scratch):
    """-> list of normalised texts (None = invalid encoding)"""
    if not words:
        return []
    path = os.path.join(scratch, "sem.d")
    with open(path, "w") as f:
        for w in words:
            f.write("0x%02x 0x%02x 0x%02x 0x%02x\n" % (w & 0xff, (w >> 8) & 0xff, (w >> 16) & 0xff, w >> 24))
    with open(path + ".out", "w") as fo, open(path + ".err", "w") as fe:
        subprocess.run([llvm, "-triple=aarch64", "-mattr=" + mattr, "--disassemble", path], stdout=fo, stderr=fe)
    invalid = set()
    for l in open(path + ".err"):
        m = re.match(re.escape(path) + r":(\d+):\d+: warning: invalid instruction encoding", l)
        if m:
            invalid.add(int(m.group(1)))
    lines = [" ".join(l.split()) for l in open(path + ".out") if l.strip() and not l.strip().startswith(".text")]
    if len(lines) + len(invalid) != len(words):
        raise RuntimeError("llvm-mc disassembly does not line up: %d + %d != %d" % (len(lines), len(invalid), len(words)))
    out, it = [], iter(lines)
    for i in range(1, len(words) + 1):
        out.append(None if i in invalid else next(it))
    return out


def parse_seq(path):
    cases = []
    for l in open(path):
        name, ops, res = l.rstrip("\n").split("\t")
        ops = [int(x) for x in ops.split()] if ops else []
        if res == "REFUSED":
            cases.append({"method": name, "ops": ops, "status": "refused", "words": []})
        elif res == "SKIP":
            cases.append({"method": name, "ops": ops, "status": "skip", "words": []})
        elif res.startswith("ODD"):
            cases.append({"method": name, "ops": ops, "status": "odd", "words": [], "len": int(res[3:])})
        else:
            cases.append({"method": name, "ops": ops, "status": "emitted", "words": [int(x, 16) for x in res.split()]})
    return cases


# ------------------------------------------------------------------------------------------------
# interpreter

def _imm(t):
    t = t.strip()
    assert t.startswith("#"), t
    return int(t[1:], 0)


def regname(kind, v):
    """kind 'x'/'w' + register slot value -> name as printed by the decoder when 31 means zr"""
    if v == 31:
        return kind + "zr"
    if v == 32:
        return "sp" if kind == "x" else "wsp"
    return "%s%d" % (kind, v)


class Machine:
    def __init__(self):
        self.regs = {}      # 'x<N>' -> 64-bit value; missing = unknown
        self.written = []

    def write(self, name, value):
        if name in ("xzr", "wzr"):
            return
        if name[0] == "w":
            self.regs["x" + name[1:]] = value & 0xffffffff
        else:
            self.regs[name] = value & M64
        self.written.append("x" + name[1:])

    def read(self, name):
        if name in ("xzr", "wzr"):
            return 0
        v = self.regs.get("x" + name[1:])
        if v is None:
            return None
        return v & 0xffffffff if name[0] == "w" else v


def step_mov(m, text):
    """executes one instruction of the constant-load family; returns False if it is something else"""
    mm = re.fullmatch(r"(mov|movz|movn|movk) ([xw](?:\d+|zr)), (#-?(?:0x)?[0-9a-f]+)(?:, lsl #(\d+))?", text)
    if not mm:
        return False
    op, rd, imm, sh = mm.group(1), mm.group(2), _imm(mm.group(3)), int(mm.group(4) or 0)
    bits = 64 if rd[0] == "x" else 32
    mask = (1 << bits) - 1
    if op == "mov":
        m.write(rd, imm & mask)
    elif op == "movz":
        m.write(rd, (imm << sh) & mask)
    elif op == "movn":
        m.write(rd, ~(imm << sh) & mask)
    else:
        old = m.read(rd)
        if old is None:
            return False
        m.write(rd, (old & ~(0xffff << sh) | (imm << sh)) & mask)
    return True


MEM_RE = re.compile(r"(ldr|ldur|ldrb|ldurb|ldrh|ldurh|str|stur|strb|sturb|strh|sturh) ([xwsdbhq]\w+), \[(\w+)(?:, ([^\]]+))?\]")


def check_const(case, texts, bits, F):
    name = case["method"]
    rd, imm = case["ops"]
    kind = "x" if bits == 64 else "w"
    want = imm & M64 if bits == 64 else imm & 0xffffffff
    m = Machine()
    for t in texts:
        if t is None:
            return F.add("c08:%s:undecodable" % name, case, "emitted word is not a valid instruction")
        if not step_mov(m, t):
            return F.add("c08:%s:unexpected-instruction" % name, case, "not a constant-load instruction: %s" % t)
    tgt = "x%d" % rd
    if set(m.written) - {tgt} or not m.written:
        return F.add("c08:%s:wrong-register" % name, case, "writes %s, requested %s%d" % (sorted(set(m.written)), kind, rd))
    for t in texts:
        if not re.match(r"\w+ %s%d," % (kind, rd), t):
            return F.add("c08:%s:wrong-register" % name, case, "operates on %s, requested %s%d" % (t, kind, rd))
    got = m.regs.get(tgt)
    if got != want:
        F.add("c08:%s:wrong-constant" % name, case, "computes 0x%x, requested 0x%x" % (got, want))


MEM_FORMS = {"x": ("x", ("ldr", "ldur"), ("str", "stur")), "w": ("w", ("ldr", "ldur"), ("str", "stur")),
             "b": ("w", ("ldrb", "ldurb"), ("strb", "sturb")), "s": ("s", ("ldr", "ldur"), ("str", "stur")),
             "d": ("d", ("ldr", "ldur"), ("str", "stur"))}


def check_mem(case, texts, F):
    name = case["method"]
    is_load = name.startswith("ldr")
    sfx = name[-1]
    rt, base, offset, scratch = case["ops"]
    kind, lmn, smn = MEM_FORMS[sfx]
    if any(t is None for t in texts):
        return F.add("c08:%s:undecodable" % name, case, "emitted word is not a valid instruction")
    m = Machine()
    for t in texts[:-1]:
        if not step_mov(m, t):
            return F.add("c08:%s:unexpected-instruction" % name, case, "not a constant-load instruction: %s" % t)
    if set(m.written) - {"x%d" % scratch}:
        return F.add("c08:%s:wrong-register" % name, case, "clobbers %s (scratch is x%d)" % (sorted(set(m.written)), scratch))
    mm = MEM_RE.fullmatch(texts[-1])
    if not mm:
        return F.add("c08:%s:unexpected-instruction" % name, case, "not a load/store: %s" % texts[-1])
    mn, treg, breg, off = mm.groups()
    if mn not in (lmn if is_load else smn):
        return F.add("c08:%s:mnemonic" % name, case, "%s is not one of %s" % (mn, lmn if is_load else smn))
    want_t = regname(kind, rt) if kind in "xw" else "%s%d" % (kind, rt)
    if treg != want_t:
        return F.add("c08:%s:wrong-register" % name, case, "transfers %s, requested %s" % (treg, want_t))
    want_b = "sp" if base == 32 else "x%d" % base
    if breg != want_b:
        return F.add("c08:%s:wrong-register" % name, case, "base %s, requested %s" % (breg, want_b))
    if off is None:
        eff = 0
    elif off.startswith("#"):
        eff = _imm(off)
    else:
        parts = [p.strip() for p in off.split(",")]
        if parts[0] != "x%d" % scratch or (len(parts) > 1 and parts[1] not in ("lsl #0",)):
            return F.add("c08:%s:wrong-address" % name, case, "offset operand %s, scratch is x%d" % (off, scratch))
        eff = m.regs.get("x%d" % scratch)
        if eff is None:
            return F.add("c08:%s:wrong-address" % name, case, "scratch register not initialised")
    if (eff - offset) & M64:
        F.add("c08:%s:wrong-address" % name, case, "accesses base%+d, requested base%+d" % (
            eff if eff < (1 << 63) else eff - (1 << 64), offset))


BR_RE = [
    ("b", re.compile(r"b (#-?\d+)")),
    ("bc", re.compile(r"b\.(\w+) (#-?\d+)")),
    ("cb", re.compile(r"(cbz|cbnz) ([xw]\d+|[xw]zr), (#-?\d+)")),
    ("tb", re.compile(r"(tbz|tbnz) ([xw]\d+|[xw]zr), #(\d+), (#-?\d+)")),
    ("nop", re.compile(r"nop")),
]


def run_branch(texts, pred_desc, truth, label):
    """-> ('goto', byte offset relative to the first instruction) | ('end',) | ('bad', why)"""
    pc = 0
    n = len(texts)

    def inside(t):
        return 0 <= t < 4 * n and t != label and t != pc      # a branch to itself never leaves

    for _ in range(n + 1):
        if pc == 4 * n:
            return ("end",)
        if pc < 0 or pc > 4 * n or pc % 4:
            return ("goto", pc)
        t = texts[pc // 4]
        if t is None:
            return ("bad", "undecodable word")
        for kind, rx in BR_RE:
            mm = rx.fullmatch(t)
            if mm:
                break
        else:
            return ("bad", "unexpected instruction: %s" % t)
        if kind == "nop":
            pc += 4
            continue
        if kind == "b":
            tgt = pc + _imm(mm.group(1))
            if inside(tgt):
                pc = tgt
                continue
            return ("end",) if tgt == 4 * n and tgt != label else ("goto", tgt)
        if kind == "bc":
            if pred_desc[0] != "cond":
                return ("bad", "conditional branch in a non-conditional request: %s" % t)
            e, want = COND_ENC[mm.group(1)], COND_ENC[pred_desc[1]]
            if e == want:
                taken = truth
            elif e == want ^ 1:
                taken = not truth
            else:
                return ("bad", "condition %s unrelated to requested %s" % (mm.group(1), pred_desc[1]))
            off = _imm(mm.group(2))
        elif kind == "cb":
            if pred_desc[0] != "zero" or mm.group(2) != pred_desc[1]:
                return ("bad", "%s does not test the requested %s" % (t, pred_desc[1:]))
            taken = truth if mm.group(1) == "cbz" else not truth
            off = _imm(mm.group(3))
        else:
            if pred_desc[0] != "bit" or int(mm.group(2)[1:] if mm.group(2)[1:].isdigit() else 31) != pred_desc[1] \
                    or int(mm.group(3)) != pred_desc[2]:
                return ("bad", "%s does not test the requested bit %s" % (t, pred_desc[1:]))
            taken = truth if mm.group(1) == "tbz" else not truth
            off = _imm(mm.group(4))
        if taken:
            tgt = pc + off
            if inside(tgt):
                pc = tgt
                continue
            return ("end",) if tgt == 4 * n and tgt != label else ("goto", tgt)
        pc += 4
    return ("bad", "loop")


def check_branch(case, texts, cond_names, F):
    name = case["method"]
    ops = case["ops"]
    d = ops[-1]
    if name == "adr_label":
        if len(texts) != 1 or texts[0] is None:
            return F.add("c08:%s:undecodable" % name, case, "unexpected %r" % (texts,))
        mm = re.fullmatch(r"adr (x\d+|xzr), (#-?\d+)", texts[0])
        if not mm:
            return F.add("c08:%s:unexpected-instruction" % name, case, texts[0])
        if mm.group(1) != regname("x", ops[0]):
            return F.add("c08:%s:wrong-register" % name, case, "%s, requested %s" % (mm.group(1), regname("x", ops[0])))
        if _imm(mm.group(2)) != d:
            return F.add("c08:%s:wrong-target" % name, case, "computes pc%+d, label is at pc%+d" % (_imm(mm.group(2)), d))
        return
    if name == "b":
        pred, taken_if = ("none",), None
    elif name == "bc":
        pred, taken_if = ("cond", cond_names[ops[0]].lower()), True
    elif name in ("cbz", "cbz_w", "cbnz", "cbnz_w"):
        pred, taken_if = ("zero", regname("w" if name.endswith("_w") else "x", ops[0])), name.startswith("cbz")
    else:
        pred, taken_if = ("bit", ops[0], ops[1]), name == "tbz"
    for truth in ((True,) if name == "b" else (True, False)):
        r = run_branch(texts, pred, truth, d)
        if r[0] == "bad":
            return F.add("c08:%s:unexpected-instruction" % name, case, r[1])
        want = ("goto", d) if (name == "b" or truth == taken_if) else ("end",)
        if r != want:
            form = "fallback" if len(texts) == 2 and (texts[1] or "").startswith("b ") else "direct"
            return F.add("c08:%s:wrong-target-%s" % (name, form), case, "with the tested condition %s the sequence %s; requested %s" % (
                truth, "goes to pc%+d" % r[1] if r[0] == "goto" else "falls through",
                "pc%+d" % d if want[0] == "goto" else "fall through"))


# ------------------------------------------------------------------------------------------------
# which operand tuples must work

def _gpr(v):
    return 0 <= v <= 30


def expectation(case):
    """'must' (legal request: refusal is a finding), 'may' (either refusal or a correct result),
    'refuse' (cannot be encoded / meaningless: must be refused), 'excluded' (caller precondition)"""
    n, o = case["method"], case["ops"]
    if n in ("mov_imm", "mov_imm_w"):
        return "must" if _gpr(o[0]) else "may"
    if n.startswith(("ldr_mem_", "str_mem_")):
        rt, base, off, scratch = o
        if not _gpr(scratch):
            return "may"
        if scratch == base or (n.startswith("str") and n[-1] in "xwb" and scratch == rt):
            return "excluded"
        neon = n[-1] in "sd"
        rt_ok = (0 <= rt <= 31) if neon else (_gpr(rt) or (rt == 31 and n.startswith("str")))
        if neon and rt == 32:
            return "refuse"
        if not rt_ok or not (_gpr(base) or base == 32):
            return "may"
        return "must"
    d = o[-1]
    if n == "adr_label":
        if d % 4:
            return "excluded" if d < 0 else "may"
        if not -(1 << 20) <= d < (1 << 20):
            return "refuse"
        return "must" if _gpr(o[0]) else "may"
    if d % 4:
        return "refuse"
    if n == "b":
        return "must" if -(1 << 27) <= d < (1 << 27) else "refuse"
    if n == "bc":
        return "must" if -(1 << 20) <= d < (1 << 20) else "refuse"
    if n.startswith("cb"):
        if not _gpr(o[0]):
            return "may"
        return "must" if -(1 << 20) <= d < (1 << 20) else "may"
    if n in ("tbz", "tbnz"):
        if not 0 <= o[1] <= 63:
            return "refuse"
        if not _gpr(o[0]):
            return "may"
        return "must" if -(1 << 15) <= d < (1 << 15) else "may"
    raise KeyError(n)


def _hw(v, size):
    return [(v >> (16 * k)) & 0xffff for k in range(size // 16)]


def predicate_reference(n, o):
    v = o[0] & M64
    if n == "count_empty_half_words":
        return sum(1 for h in _hw(v, o[1]) if h == 0)
    if n == "fits_movz":
        return int(sum(1 for h in _hw(v, o[1]) if h) <= 1)
    if n == "fits_movn":
        return int(sum(1 for h in _hw(~v & M64, o[1]) if h) <= 1)
    if n in ("shift_movz", "shift_movn"):
        if n == "shift_movn":
            v = ~v & M64
        for k in range(4):
            if (v >> (16 * k)) & 0xffff:
                return 16 * k
        return 0
    if n == "fits_ldst_unscaled":
        return int(-256 <= o[0] <= 255)
    if n == "fits_addsub_imm":
        # used as "fits the unsigned 12-bit field": must hold for 0..4095, and must imply that the value is
        # an add/sub immediate
        u = o[0] & 0xffffffff
        return None if (u >= 4096 and u & 0xfff == 0 and u >> 12 < 4096) else int(u < 4096)
    raise KeyError(n)


PREDICATES = {"fits_movz", "fits_movn", "count_empty_half_words", "shift_movz", "shift_movn", "fits_addsub_imm",
              "fits_ldst_unscaled"}


def _baselines(cases):
    """word(s) of the first emitted tuple per method (cases are sorted): the 'trivial' reference"""
    base = {}
    for c in cases:
        if c["status"] == "emitted" and c["method"] not in base:
            base[c["method"]] = c["words"]
    return base


def check_block(args):
    cases, base, cond_names, llvm, mattr, scratch, tag = args
    F = Findings()
    stats = {}
    words, owner = [], []
    for ci, c in enumerate(cases):
        if c["status"] == "emitted" and c["method"] not in PREDICATES:
            for w in c["words"]:
                words.append(w)
                owner.append(ci)
    sub = os.path.join(scratch, "sem%s" % tag)
    os.makedirs(sub, exist_ok=True)
    dis = disassemble(words, llvm, mattr, sub)
    texts = {}
    for w, ci, t in zip(words, owner, dis):
        texts.setdefault(ci, []).append(t)
    samples = []
    for ci, c in enumerate(cases):
        n = c["method"]
        st = stats.setdefault(n, {"cases": 0, "emitted": 0, "refused": 0, "checked": 0, "excluded": 0, "skipped": 0,
                                  "nontrivial": 0})
        st["cases"] += 1
        rep = {"method": n, "ops": c["ops"], "words": ["%08x" % w for w in c["words"]], "disasm": texts.get(ci, [])}
        if n in PREDICATES:
            if c["status"] != "emitted":
                F.add("c08:%s:refused" % n, rep, "helper predicate panicked")
                continue
            st["emitted"] += 1
            ref = predicate_reference(n, c["ops"])
            got = c["words"][0]
            st["checked"] += 1
            if c["words"] != base.get(n):
                st["nontrivial"] += 1
            if ref is not None and ref != got:
                F.add("c08:%s:wrong-result" % n, rep, "returns %d, reference %d" % (got, ref))
            continue
        if c["status"] == "skip":
            st["skipped"] += 1
            continue
        exp = expectation(c)
        if exp == "excluded":
            st["excluded"] += 1
            continue
        if c["status"] == "odd":
            F.add("c08:%s:length" % n, rep, "emitted %d bytes" % c["len"])
            continue
        if c["status"] == "refused":
            st["refused"] += 1
            if exp == "must":
                F.add("c08:%s:refuses-encodable" % n, rep, "legal request refused (panic)")
            continue
        st["emitted"] += 1
        st["checked"] += 1
        tx = texts.get(ci, [])
        before = sum(e["count"] for e in F.f.values())
        if exp == "refuse":
            F.add("c08:%s:accepts-unencodable" % n, rep, "request that cannot be met was not refused; emitted: %s" % "; ".join(str(t) for t in tx))
            continue
        if n == "mov_imm":
            check_const(rep, tx, 64, F)
        elif n == "mov_imm_w":
            check_const(rep, tx, 32, F)
        elif n.startswith(("ldr_mem_", "str_mem_")):
            check_mem(rep, tx, F)
        else:
            check_branch(rep, tx, cond_names, F)
        if sum(e["count"] for e in F.f.values()) == before:
            if c["words"] != base.get(n):
                st["nontrivial"] += 1
                if st["nontrivial"] % 1009 == 5 and len(samples) < 50:
                    samples.append(rep)
    return stats, F.f, samples


def check_all(seq_path, cond_names, llvm, mattr, scratch, workers=1):
    cases = parse_seq(seq_path)
    cases.sort(key=lambda c: (c["method"], c["ops"]))
    base = _baselines(cases)
    nblocks = max(1, min(workers, len(cases) // 2000 + 1))
    size = (len(cases) + nblocks - 1) // nblocks
    jobs = [(cases[i * size:(i + 1) * size], base, cond_names, llvm, mattr, scratch, i) for i in range(nblocks)]
    if nblocks > 1:
        import multiprocessing
        with multiprocessing.Pool(nblocks) as pool:
            parts = pool.map(check_block, jobs)
    else:
        parts = [check_block(j) for j in jobs]
    stats, findings, samples = {}, {}, []
    for st, f, sm in parts:
        for n, s in st.items():
            t = stats.setdefault(n, dict.fromkeys(s, 0))
            for k, v in s.items():
                t[k] += v
        for k, e in f.items():
            t = findings.setdefault(k, {"count": 0, "examples": []})
            t["count"] += e["count"]
            t["examples"] = sorted(t["examples"] + e["examples"],
                                   key=lambda c: (sum(min(abs(v), 1 << 40) for v in c["ops"]), c["ops"]))[:3]
        samples += sm
    return stats, findings, samples
