// C08 driver, static part.  The generated part (gen.rs: one call wrapper, expected-text function and
// validity predicate per public method of dora_asm::arm64::AssemblerArm64) is produced by
// engines/encspace/arm64_gen.py from the CURRENT source of the repository plus the hand-written
// spec table in arm64_spec.py.
//
//   arm64drv run <plan-file> <report.json>
//
// The plan file lists jobs (method, one explicit value list per operand slot).  Every job is a full
// cartesian product; it is enumerated completely, in chunks, on N threads.  For every operand tuple
//   * the method is called on a fresh AssemblerArm64 under catch_unwind (panic == refusal),
//   * the expected assembly text is assembled by llvm-mc and compared bit-exactly with dora's word,
//   * dora's word is disassembled by llvm-mc and the disassembly re-assembled (round trip).
// "seq" methods (sequences, label branches) are only executed and dumped; the Python side checks
// them semantically.
#![allow(dead_code)]

use dora_asm::arm64::*;
use dora_asm::Label;
use std::collections::{BTreeMap, HashMap, HashSet};
use std::fmt::Write as FmtWrite;
use std::io::Write as IoWrite;
use std::panic::{catch_unwind, AssertUnwindSafe};
use std::process::Command;
use std::sync::atomic::{AtomicUsize, Ordering};
use std::sync::{Arc, Mutex};

mod gentab;

static PROF: [std::sync::atomic::AtomicU64; 8] = [const { std::sync::atomic::AtomicU64::new(0) }; 8];
fn prof(i: usize, t: std::time::Instant) -> std::time::Instant {
    PROF[i].fetch_add(t.elapsed().as_micros() as u64, Ordering::Relaxed);
    std::time::Instant::now()
}


pub type CallFn = fn(&[i64]) -> Vec<u8>;
pub type TextFn = fn(&[i64], &mut String);
pub type ValidFn = fn(&[i64]) -> bool;

pub struct Method {
    pub name: &'static str,
    pub arity: usize,
    pub kind: u8, // 0 = single instruction, bit-compared;  1 = sequence, dumped
    pub call: CallFn,
    pub text: TextFn,
    pub alts: &'static [TextFn],
    pub valid: ValidFn,
    pub regmask: u32, // bit i: operand slot i is a general purpose `Register`
}

// ------------------------------------------------------------------------------------------------
// operand conversion helpers used by gen.rs

pub const V_ZERO: i64 = 31;
pub const V_SP: i64 = 32;

pub fn reg(v: i64) -> Register {
    match v {
        0..=30 => Register::new(v as u8),
        31 => REG_ZERO,
        32 => REG_SP,
        _ => panic!("driver: bad register value"),
    }
}

pub fn neon(v: i64) -> NeonRegister {
    // NeonRegister::new asserts v < 32: value 32 is the non-encodable neighbour and must be refused.
    NeonRegister::new(v as u8)
}

pub fn single(f: impl FnOnce(&mut AssemblerArm64)) -> Vec<u8> {
    let mut a = AssemblerArm64::new();
    f(&mut a);
    a.finalize(1).code()
}

fn pad(a: &mut AssemblerArm64, mut n: usize) {
    while n >= 16 {
        a.emit_u128(0xd503201f_d503201f_d503201f_d503201fu128);
        n -= 16;
    }
    while n >= 4 {
        a.emit_u32(0xd503201f);
        n -= 4;
    }
    while n > 0 {
        a.emit_u8(0);
        n -= 1;
    }
}

/// Calls `f` with a label whose bound position is `d` bytes away from the position of the emitted
/// instruction (d <= 0: label bound before, d > 0: bound afterwards and resolved by finalize()).
/// Returns the bytes the method emitted at its own position (after resolution).  Empty = not
/// constructible (forward distance inside the emitted sequence).
pub fn with_label(d: i64, f: impl FnOnce(&mut AssemblerArm64, Label)) -> Vec<u8> {
    let mut a = AssemblerArm64::new();
    let l = a.create_label();
    if d <= 0 {
        a.bind_label(l);
        pad(&mut a, (-d) as usize);
        let p0 = a.position();
        f(&mut a, l);
        let p1 = a.position();
        let code = a.finalize(1).code();
        code[p0..p1].to_vec()
    } else {
        let p0 = a.position();
        f(&mut a, l);
        let p1 = a.position();
        if (d as usize) < p1 - p0 {
            return Vec::new();
        }
        pad(&mut a, d as usize - (p1 - p0));
        a.bind_label(l);
        let code = a.finalize(1).code();
        code[p0..p1].to_vec()
    }
}

// ------------------------------------------------------------------------------------------------
// text formatters used by gen.rs (names f_<fmt>)

pub fn f_x(v: i64) -> String {
    match v {
        31 => "xzr".into(),
        32 => "sp".into(),
        _ => format!("x{}", v),
    }
}
pub fn f_w(v: i64) -> String {
    match v {
        31 => "wzr".into(),
        32 => "wsp".into(),
        _ => format!("w{}", v),
    }
}
pub fn f_b(v: i64) -> String { format!("b{}", v) }
pub fn f_h(v: i64) -> String { format!("h{}", v) }
pub fn f_s(v: i64) -> String { format!("s{}", v) }
pub fn f_d(v: i64) -> String { format!("d{}", v) }
pub fn f_q(v: i64) -> String { format!("q{}", v) }
pub fn f_v(v: i64) -> String { format!("v{}", v) }
pub fn f_i(v: i64) -> String { format!("#{}", v) }
pub fn f_i2(v: i64) -> String { format!("#{}", v.wrapping_mul(2)) }
pub fn f_i4(v: i64) -> String { format!("#{}", v.wrapping_mul(4)) }
pub fn f_i8(v: i64) -> String { format!("#{}", v.wrapping_mul(8)) }
pub fn f_i4096(v: i64) -> String { format!("#{}", v.wrapping_mul(4096)) }
pub fn f_hx(v: i64) -> String { format!("#0x{:x}", v as u64) }
/// add/sub immediate: plain imm12 or imm12 shifted by 12
pub fn f_asi(v: i64) -> String {
    if v >= 4096 && v & 0xfff == 0 {
        format!("#{}, lsl #12", v >> 12)
    } else {
        format!("#{}", v)
    }
}
pub fn f_c(v: i64) -> String { gentab::COND_NAMES[v as usize].to_ascii_lowercase() }
pub fn f_sh(v: i64) -> String { gentab::SHIFT_NAMES[v as usize].to_ascii_lowercase() }
pub fn f_ex(v: i64) -> String { gentab::EXTEND_NAMES[v as usize].to_ascii_lowercase() }

pub fn f_n(v: i64) -> String { format!("{}", v) }
pub fn f_bop(v: i64) -> String { if v == 1 { "bl".into() } else { "b".into() } }
/// extend name where the API's LSL is spelled as the option it aliases in the extended-register form
pub fn f_exl64(v: i64) -> String { if ext_name(v) == "LSL" { "uxtx".into() } else { f_ex(v) } }
pub fn f_exl32(v: i64) -> String { if ext_name(v) == "LSL" { "uxtw".into() } else { f_ex(v) } }

// predicates used by the generated validity functions
pub fn sh_is(v: i64, name: &str) -> bool { gentab::SHIFT_NAMES[v as usize] == name }
pub fn ex_in(v: i64, names: &[&str]) -> bool { names.contains(&gentab::EXTEND_NAMES[v as usize]) }
pub fn is_bitmask64(v: i64) -> bool { gentab::BITMASK64.binary_search(&(v as u64)).is_ok() }
pub fn is_bitmask32(v: i64) -> bool { gentab::BITMASK32.binary_search(&(v as u64)).is_ok() }

fn ext_name(v: i64) -> &'static str { gentab::EXTEND_NAMES[v as usize] }

/// Rm of a 64-bit add/sub (extended register): W register unless the extend is UXTX/SXTX/LSL.
pub fn f_rmx(rm: i64, ext: i64) -> String {
    match ext_name(ext) {
        "UXTX" | "SXTX" | "LSL" => f_x(rm),
        _ => f_w(rm),
    }
}
/// Rm + extend of a register-offset load/store: "x2" | "x2, lsl #3" | "w2, uxtw" | "w2, sxtw #2" ...
pub fn f_mx(rm: i64, ext: i64, amount: i64) -> String {
    let n = ext_name(ext);
    let r = match n {
        "UXTW" | "SXTW" | "UXTB" | "UXTH" | "SXTB" | "SXTH" => f_w(rm),
        _ => f_x(rm),
    };
    if n == "LSL" {
        if amount == 0 { r } else { format!("{}, lsl #{}", r, amount) }
    } else if amount == 0 {
        format!("{}, {}", r, n.to_ascii_lowercase())
    } else {
        format!("{}, {} #{}", r, n.to_ascii_lowercase(), amount)
    }
}
/// vector arrangement from (q, size)
pub fn f_arr(q: i64, size: i64) -> String {
    let t = [["8b", "16b"], ["4h", "8h"], ["2s", "4s"], ["1d", "2d"]];
    t[(size & 3) as usize][(q & 1) as usize].to_string()
}
/// scalar letter from size
pub fn f_scl(size: i64) -> String {
    ["b", "h", "s", "d"][(size & 3) as usize].to_string()
}

// ------------------------------------------------------------------------------------------------
// plan

struct Job {
    roundtrip: bool,
    method: usize,
    dims: Vec<Vec<i64>>,
    sets: Vec<HashSet<i64>>,
    total: u64,
}

struct Cfg {
    llvm: String,
    mattr: String,
    scratch: String,
    threads: usize,
    chunk: u64,
    roundtrip: bool,
    classify_refusals: bool,
    dump_insn: bool,
    shard: (usize, usize),
}

fn die(msg: &str) -> ! {
    eprintln!("arm64drv: {}", msg);
    std::process::exit(3);
}

fn read_plan(path: &str) -> (Cfg, Vec<Job>) {
    let txt = std::fs::read_to_string(path).unwrap_or_else(|e| die(&format!("cannot read plan: {}", e)));
    let mut cfg = Cfg {
        llvm: "/usr/bin/llvm-mc".into(),
        mattr: "+lse,+v8.1a".into(),
        scratch: "/var/tmp".into(),
        threads: 4,
        chunk: 32768,
        roundtrip: true,
        classify_refusals: true,
        dump_insn: false,
        shard: (0, 1),
    };
    let names: HashMap<&str, usize> = gentab::METHODS.iter().enumerate().map(|(i, m)| (m.name, i)).collect();
    let mut jobs = Vec::new();
    let mut it = txt.lines();
    while let Some(line) = it.next() {
        let mut w = line.split_whitespace();
        match w.next() {
            None => {}
            Some("llvm") => cfg.llvm = w.next().unwrap().into(),
            Some("mattr") => cfg.mattr = w.next().unwrap().into(),
            Some("scratch") => cfg.scratch = w.next().unwrap().into(),
            Some("threads") => cfg.threads = w.next().unwrap().parse().unwrap(),
            Some("chunk") => cfg.chunk = w.next().unwrap().parse().unwrap(),
            Some("roundtrip") => cfg.roundtrip = w.next().unwrap() == "1",
            Some("classify_refusals") => cfg.classify_refusals = w.next().unwrap() == "1",
            Some("dump_insn") => cfg.dump_insn = w.next().unwrap() == "1",
            Some("shard") => cfg.shard = (w.next().unwrap().parse().unwrap(), w.next().unwrap().parse().unwrap()),
            Some("job") => {
                let name = w.next().unwrap();
                let nd: usize = w.next().unwrap().parse().unwrap();
                let rt = match w.next() { Some(x) => x == "1", None => cfg.roundtrip };
                let mi = *names.get(name).unwrap_or_else(|| die(&format!("plan names unknown method {}", name)));
                if gentab::METHODS[mi].arity != nd {
                    die(&format!("plan arity mismatch for {}", name));
                }
                let mut dims = Vec::new();
                for _ in 0..nd {
                    let l = it.next().unwrap_or_else(|| die("truncated plan"));
                    let v: Vec<i64> = l.split_whitespace().map(|x| x.parse().unwrap()).collect();
                    if v.is_empty() {
                        die(&format!("empty dimension in plan for {}", name));
                    }
                    dims.push(v);
                }
                let total = dims.iter().map(|d| d.len() as u64).product();
                let sets = dims.iter().map(|d| d.iter().cloned().collect()).collect();
                jobs.push(Job { roundtrip: rt, method: mi, dims, sets, total });
            }
            Some(x) => die(&format!("bad plan line {}", x)),
        }
    }
    (cfg, jobs)
}

// ------------------------------------------------------------------------------------------------
// llvm-mc

enum AsmRes {
    Enc(u32, usize, usize), // word, canonical text range in stdout
    Err(String),
}

struct AsmOut {
    stdout: String,
    res: Vec<AsmRes>,
}

impl AsmOut {
    fn canon(&self, i: usize) -> String {
        match &self.res[i] {
            AsmRes::Enc(_, a, b) => norm_text(&self.stdout[*a..*b]),
            AsmRes::Err(_) => String::new(),
        }
    }
}

fn norm_text(s: &str) -> String {
    let mut out = String::new();
    let mut sp = false;
    for c in s.trim().chars() {
        if c == '\t' || c == ' ' {
            sp = true;
        } else {
            if sp && !out.is_empty() {
                out.push(' ');
            }
            sp = false;
            out.push(c);
        }
    }
    out
}

/// Text equality modulo blanks and immediates written in different radix.
fn squeeze(s: &str) -> String {
    s.chars().filter(|c| !c.is_whitespace()).collect::<String>().to_ascii_lowercase().replace(",#0]", "]")
}

fn parse_diag(stderr: &str, path: &str) -> Vec<(usize, String, String)> {
    // (line, severity, message)
    let mut v = Vec::new();
    let prefix = format!("{}:", path);
    for l in stderr.lines() {
        if let Some(rest) = l.strip_prefix(&prefix) {
            let mut p = rest.splitn(3, ':');
            let (a, b, c) = (p.next(), p.next(), p.next());
            if let (Some(a), Some(_b), Some(c)) = (a, b, c) {
                if let Ok(n) = a.parse::<usize>() {
                    let c = c.trim();
                    let (sev, msg) = match c.find(':') {
                        Some(i) => (c[..i].trim().to_string(), c[i + 1..].trim().to_string()),
                        None => ("?".to_string(), c.to_string()),
                    };
                    v.push((n, sev, msg));
                }
            }
        }
    }
    v
}

fn run_llvm(cfg: &Cfg, args: &[&str], path: &str) -> (String, String) {
    // stdout and stderr go to files: llvm-mc writes diagnostics unbuffered, which is very slow on a pipe
    let outp = format!("{}.out", path);
    let errp = format!("{}.err", path);
    let outf = std::fs::File::create(&outp).unwrap_or_else(|e| die(&format!("create {}: {}", outp, e)));
    let errf = std::fs::File::create(&errp).unwrap_or_else(|e| die(&format!("create {}: {}", errp, e)));
    let t_spawn = std::time::Instant::now();
    let st = Command::new(&cfg.llvm)
        .arg("-triple=aarch64")
        .arg(format!("-mattr={}", cfg.mattr))
        .args(args)
        .arg(path)
        .stdin(std::process::Stdio::null())
        .stdout(outf)
        .stderr(errf)
        .status()
        .unwrap_or_else(|e| die(&format!("cannot run llvm-mc: {}", e)));
    let _ = st;
    prof(7, t_spawn);
    let rd = |p: &str| String::from_utf8_lossy(&std::fs::read(p).unwrap_or_else(|e| die(&format!("read {}: {}", p, e)))).into_owned();
    (rd(&outp), rd(&errp))
}

fn assemble(cfg: &Cfg, path: &str, text: &str, nlines: usize) -> AsmOut {
    std::fs::write(path, text).unwrap_or_else(|e| die(&format!("write {}: {}", path, e)));
    let (stdout, stderr) = run_llvm(cfg, &["-show-encoding"], path);
    let mut errs: HashMap<usize, String> = HashMap::new();
    for (n, sev, msg) in parse_diag(&stderr, path) {
        if sev == "error" {
            errs.entry(n).or_insert(msg);
        }
    }
    let mut encs: Vec<(u32, usize, usize)> = Vec::new();
    let mut off = 0usize;
    for l in stdout.split_inclusive('\n') {
        if let Some(i) = l.find("// encoding: [") {
            let b = &l[i + 14..];
            let mut w: u32 = 0;
            let mut k = 0;
            for part in b.trim_end().trim_end_matches(']').split(',') {
                let p = part.trim().trim_start_matches("0x");
                let v = u32::from_str_radix(p, 16).unwrap_or_else(|_| die(&format!("bad encoding line: {}", l)));
                w |= v << (8 * k);
                k += 1;
            }
            if k != 4 {
                die(&format!("encoding of unexpected length: {}", l));
            }
            encs.push((w, off, off + i));
        }
        off += l.len();
    }
    if encs.len() + errs.len() != nlines {
        die(&format!(
            "llvm-mc output does not line up: {} encodings + {} errors != {} lines ({})\n{}",
            encs.len(), errs.len(), nlines, path,
            stderr.lines().take(12).collect::<Vec<_>>().join("\n")
        ));
    }
    let mut res = Vec::with_capacity(nlines);
    let mut e = encs.into_iter();
    for ln in 1..=nlines {
        if let Some(m) = errs.remove(&ln) {
            res.push(AsmRes::Err(m));
        } else {
            let (w, a, b) = e.next().unwrap();
            res.push(AsmRes::Enc(w, a, b));
        }
    }
    AsmOut { stdout, res }
}

enum DisRes {
    Text(String, bool), // text, "potentially undefined" flag
    Invalid,
}

fn disassemble(cfg: &Cfg, path: &str, words: &[u32]) -> Vec<DisRes> {
    let mut text = String::with_capacity(words.len() * 20);
    for w in words {
        let _ = writeln!(text, "0x{:02x} 0x{:02x} 0x{:02x} 0x{:02x}", w & 0xff, (w >> 8) & 0xff, (w >> 16) & 0xff, w >> 24);
    }
    std::fs::write(path, &text).unwrap_or_else(|e| die(&format!("write {}: {}", path, e)));
    let (stdout, stderr) = run_llvm(cfg, &["--disassemble"], path);
    let mut invalid: HashSet<usize> = HashSet::new();
    let mut undef: HashSet<usize> = HashSet::new();
    for (n, _sev, msg) in parse_diag(&stderr, path) {
        if msg.contains("invalid instruction encoding") {
            invalid.insert(n);
        } else if msg.contains("potentially undefined") {
            undef.insert(n);
        }
    }
    let lines: Vec<&str> = stdout.lines().filter(|l| {
        let t = l.trim();
        !t.is_empty() && !t.starts_with(".text")
    }).collect();
    if lines.len() + invalid.len() != words.len() {
        die(&format!("llvm-mc disassembly does not line up: {} + {} != {}", lines.len(), invalid.len(), words.len()));
    }
    let mut it = lines.into_iter();
    let mut res = Vec::with_capacity(words.len());
    for ln in 1..=words.len() {
        if invalid.contains(&ln) {
            res.push(DisRes::Invalid);
        } else {
            res.push(DisRes::Text(norm_text(it.next().unwrap()), undef.contains(&ln)));
        }
    }
    res
}

// ------------------------------------------------------------------------------------------------
// results

#[derive(Default, Clone)]
struct Example {
    weight: i64,
    ops: Vec<i64>,
    word: Option<u32>,
    disasm: String,
    expected: String,
    llvm: String,
}

#[derive(Default)]
struct Finding {
    count: u64,
    examples: Vec<Example>,
}

#[derive(Default)]
struct MStats {
    cases: u64,
    emitted: u64,
    refused: u64,          // refusals of operands that really are not encodable
    refused_zr_sp: u64,    // refusals of tuples with zr/sp that were not confirmed by llvm-mc (quick tier)
    api_restricted: u64,   // refusals of an encodable tuple that involves zr/sp (narrower API)
    equal: u64,            // word == llvm word of the expected text
    equivalent: u64,       // word == llvm word of a declared semantically identical alternative
    unpredictable: u64,    // llvm refuses to assemble (CONSTRAINED UNPREDICTABLE); checked in decoder direction
    nontrivial: u64,
    roundtrip_ok: u64,
    roundtrip_unpredictable: u64,
    roundtrip_diff: u64,
    dups: u64,             // tuples of a later product that an earlier product of the method already contains
    skipped: u64,          // seq kind: not constructible
    baseline: Option<u32>,
    first: Option<Example>,
    nontrivial_ex: Option<Example>,
    roundtrip_ex: Option<Example>,
    equivalent_ex: Option<Example>,
}

struct Shared {
    stats: Vec<MStats>,
    findings: BTreeMap<String, Finding>,
    seq_lines: Vec<String>,
    asm_lines: u64,
    dis_lines: u64,
    llvm_runs: u64,
    insn_lines: Vec<String>,
}

fn add_finding(map: &mut BTreeMap<String, Finding>, key: String, ex: Example) {
    let f = map.entry(key).or_default();
    f.count += 1;
    f.examples.push(ex);
    f.examples.sort_by(|a, b| (a.weight, &a.ops).cmp(&(b.weight, &b.ops)));
    f.examples.truncate(3);
}

fn weight(ops: &[i64]) -> i64 {
    ops.iter().map(|v| v.unsigned_abs().min(1 << 40) as i64).sum()
}

fn tokens(s: &str) -> Vec<String> {
    s.split(|c: char| c == ',' || c == ' ' || c == '\t')
        .filter(|t| !t.is_empty())
        .map(|t| t.to_string())
        .collect()
}

fn diff_kind(dora: &str, want: &str) -> String {
    let a = tokens(dora);
    let b = tokens(want);
    for i in 0..a.len().max(b.len()) {
        if a.get(i) != b.get(i) {
            return if i == 0 { "mnemonic".to_string() } else { format!("operand{}", i) };
        }
    }
    "encoding".to_string()
}

// ------------------------------------------------------------------------------------------------
// chunk worker

#[derive(Clone, Copy, PartialEq)]
enum Out {
    Word(u32),
    Refused,
    Len(usize),
}

fn decode_index(job: &Job, mut idx: u64, ops: &mut [i64]) {
    for k in (0..job.dims.len()).rev() {
        let n = job.dims[k].len() as u64;
        ops[k] = job.dims[k][(idx % n) as usize];
        idx /= n;
    }
}

fn in_earlier_job(jobs: &[Job], ji: usize, ops: &[i64]) -> bool {
    let m = jobs[ji].method;
    for j in 0..ji {
        if jobs[j].method != m {
            continue;
        }
        if ops.iter().enumerate().all(|(k, v)| jobs[j].sets[k].contains(v)) {
            return true;
        }
    }
    false
}

fn has_special(m: &Method, ops: &[i64]) -> bool {
    ops.iter().enumerate().any(|(k, v)| (m.regmask >> k) & 1 == 1 && *v >= 31)
}

fn add_stats(t: &mut MStats, s: MStats) {
    t.cases += s.cases;
    t.emitted += s.emitted;
    t.refused += s.refused;
    t.refused_zr_sp += s.refused_zr_sp;
    t.api_restricted += s.api_restricted;
    t.equal += s.equal;
    t.equivalent += s.equivalent;
    t.unpredictable += s.unpredictable;
    t.nontrivial += s.nontrivial;
    t.roundtrip_ok += s.roundtrip_ok;
    t.roundtrip_unpredictable += s.roundtrip_unpredictable;
    t.roundtrip_diff += s.roundtrip_diff;
    t.skipped += s.skipped;
    t.dups += s.dups;
    if t.first.is_none() { t.first = s.first; }
    if t.nontrivial_ex.is_none() { t.nontrivial_ex = s.nontrivial_ex; }
    if t.roundtrip_ex.is_none() { t.roundtrip_ex = s.roundtrip_ex; }
    if t.equivalent_ex.is_none() { t.equivalent_ex = s.equivalent_ex; }
}

struct Seg {
    ji: usize,
    lo: u64,
    hi: u64,
}

/// One work item: segments of one or more jobs (possibly of different methods), executed and sent to
/// llvm-mc together.
fn process_chunk(cfg: &Cfg, jobs: &[Job], segs: &[Seg], tid: usize, shared: &Mutex<Shared>, baselines: &[Option<u32>]) {
    let mut ops_all: Vec<i64> = Vec::new();
    let mut cm: Vec<usize> = Vec::new(); // method of case
    let mut cj: Vec<usize> = Vec::new(); // job of case
    let mut coff: Vec<usize> = Vec::new(); // offset of the operands of case
    let mut outs: Vec<Out> = Vec::new();
    let mut bytes_all: Vec<Vec<u8>> = Vec::new();
    let mut tp = std::time::Instant::now();
    let mut seq = false;
    let mut ndups: Vec<u64> = vec![0; gentab::METHODS.len()];
    for sg in segs {
        let job = &jobs[sg.ji];
        let m = &gentab::METHODS[job.method];
        let n = m.arity;
        let mut tmp = vec![0i64; n];
        seq = m.kind != 0;
        for idx in sg.lo..sg.hi {
            decode_index(job, idx, &mut tmp);
            if sg.ji > 0 && in_earlier_job(jobs, sg.ji, &tmp) {
                ndups[job.method] += 1;
                continue;
            }
            let r = catch_unwind(AssertUnwindSafe(|| (m.call)(&tmp)));
            cm.push(job.method);
            cj.push(sg.ji);
            coff.push(ops_all.len());
            ops_all.extend_from_slice(&tmp);
            match r {
                Ok(b) => {
                    if m.kind == 0 {
                        if b.len() == 4 {
                            outs.push(Out::Word(u32::from_le_bytes([b[0], b[1], b[2], b[3]])));
                        } else {
                            outs.push(Out::Len(b.len()));
                        }
                    } else {
                        outs.push(Out::Len(b.len()));
                        bytes_all.push(b);
                    }
                }
                Err(_) => {
                    outs.push(Out::Refused);
                    if m.kind != 0 {
                        bytes_all.push(Vec::new());
                    }
                }
            }
        }
    }
    let ncases = outs.len();
    tp = prof(0, tp);
    if ndups.iter().any(|d| *d > 0) {
        let mut sh = shared.lock().unwrap();
        for (mi, d) in ndups.iter().enumerate() {
            sh.stats[mi].dups += d;
        }
    }
    if ncases == 0 {
        return;
    }
    let meth = |i: usize| &gentab::METHODS[cm[i]];
    let ops = |i: usize| &ops_all[coff[i]..coff[i] + gentab::METHODS[cm[i]].arity];
    let mut stats: HashMap<usize, MStats> = HashMap::new();

    if seq {
        // sequences: dump only (a chunk never mixes the two kinds)
        let mut lines = Vec::with_capacity(ncases);
        for i in 0..ncases {
            let m = meth(i);
            let st = stats.entry(cm[i]).or_default();
            let mut s = String::new();
            let _ = write!(s, "{}\t", m.name);
            for (k, v) in ops(i).iter().enumerate() {
                if k > 0 { s.push(' '); }
                let _ = write!(s, "{}", v);
            }
            s.push('\t');
            st.cases += 1;
            match outs[i] {
                Out::Refused => { s.push_str("REFUSED"); }
                Out::Len(0) => { s.push_str("SKIP"); st.skipped += 1; }
                _ => {
                    st.emitted += 1;
                    let b = &bytes_all[i];
                    if b.len() % 4 != 0 {
                        let _ = write!(s, "ODD{}", b.len());
                    } else {
                        for (k, c) in b.chunks(4).enumerate() {
                            if k > 0 { s.push(' '); }
                            let _ = write!(s, "{:08x}", u32::from_le_bytes([c[0], c[1], c[2], c[3]]));
                        }
                    }
                }
            }
            lines.push(s);
        }
        let mut sh = shared.lock().unwrap();
        for (mi, st) in stats {
            add_stats(&mut sh.stats[mi], st);
        }
        sh.seq_lines.extend(lines);
        return;
    }

    // ---- single instructions
    let valid: Vec<bool> = (0..ncases).map(|i| (meth(i).valid)(ops(i))).collect();
    // expected text of every case whose immediates/enums are encodable by the spec; refusals of tuples
    // with zr/sp are only confirmed by llvm-mc when the plan asks for it
    let mut asm_text = String::with_capacity(ncases * 32);
    let mut asm_idx: Vec<usize> = Vec::new();
    let mut texts: Vec<String> = vec![String::new(); ncases];
    let mut unverified: Vec<bool> = vec![false; ncases];
    for i in 0..ncases {
        let mut s = String::new();
        (meth(i).text)(ops(i), &mut s);
        if valid[i] {
            if !cfg.classify_refusals && outs[i] == Out::Refused && has_special(meth(i), ops(i)) {
                unverified[i] = true;
            } else {
                asm_text.push_str(&s);
                asm_text.push('\n');
                asm_idx.push(i);
            }
        }
        texts[i] = s;
    }
    tp = prof(1, tp);
    let base = format!("{}/t{}", cfg.scratch, tid);
    let asm_path = format!("{}.s", base);
    let asm = if asm_idx.is_empty() { AsmOut { stdout: String::new(), res: Vec::new() } } else { assemble(cfg, &asm_path, &asm_text, asm_idx.len()) };
    let mut asm_of: Vec<Option<usize>> = vec![None; ncases];
    for (k, i) in asm_idx.iter().enumerate() {
        asm_of[*i] = Some(k);
    }

    tp = prof(2, tp);
    // disassemble every emitted word
    let mut widx: Vec<usize> = Vec::new();
    let mut words: Vec<u32> = Vec::new();
    for i in 0..ncases {
        if let Out::Word(w) = outs[i] {
            // without the full round trip only the words that are not already proven equal to llvm-mc's
            // encoding of the requested instruction need the decoder
            let equal = matches!(asm_of[i].map(|k| &asm.res[k]), Some(AsmRes::Enc(l, _, _)) if *l == w);
            if jobs[cj[i]].roundtrip || !equal {
                widx.push(i);
                words.push(w);
            }
        }
    }
    let dis_path = format!("{}.d", base);
    let dis = if words.is_empty() { Vec::new() } else { disassemble(cfg, &dis_path, &words) };
    let mut dis_of: Vec<Option<usize>> = vec![None; ncases];
    for (k, i) in widx.iter().enumerate() {
        dis_of[*i] = Some(k);
    }
    let dis_text = |i: usize| -> String {
        match dis_of[i].map(|k| &dis[k]) {
            Some(DisRes::Text(t, _)) => t.clone(),
            Some(DisRes::Invalid) => "<invalid instruction encoding>".to_string(),
            None => match (outs[i], asm_of[i].map(|k| &asm.res[k])) {
                // same word as llvm-mc's: its canonical print of the instruction is the disassembly
                (Out::Word(w), Some(AsmRes::Enc(l, _, _))) if *l == w => asm.canon(asm_of[i].unwrap()),
                _ => String::new(),
            },
        }
    };

    tp = prof(3, tp);
    let mut findings: Vec<(String, Example)> = Vec::new();
    let mut mismatch: Vec<usize> = Vec::new(); // candidates for alternative texts
    let mut unpred: Vec<usize> = Vec::new();
    let mk = |i: usize, llvm: String| Example {
        weight: weight(ops(i)),
        ops: ops(i).to_vec(),
        word: if let Out::Word(w) = outs[i] { Some(w) } else { None },
        disasm: dis_text(i),
        expected: texts[i].clone(),
        llvm,
    };
    // which operand slot is to blame: the first slot for which some other value of its domain makes the
    // predicate hold while the other operands stay as they are
    let blame = |i: usize, good: &dyn Fn(&[i64]) -> bool| -> String {
        let o = ops(i);
        let mut t = o.to_vec();
        for k in 0..o.len() {
            let d = &jobs[cj[i]].dims[k];
            let step = (d.len() / 64).max(1);
            for v in d.iter().step_by(step) {
                if *v == o[k] {
                    continue;
                }
                t[k] = *v;
                if good(&t) {
                    return format!("-arg{}", k);
                }
            }
            t[k] = o[k];
        }
        "-several".to_string()
    };
    for i in 0..ncases {
        let m = meth(i);
        let st = stats.entry(cm[i]).or_default();
        st.cases += 1;
        let a = asm_of[i].map(|k| &asm.res[k]);
        match outs[i] {
            Out::Len(l) => {
                st.emitted += 1;
                findings.push((format!("c08:{}:length", m.name), mk(i, format!("emitted {} bytes, expected 4", l))));
            }
            Out::Refused => match a {
                None => {
                    if unverified[i] { st.refused_zr_sp += 1 } else { st.refused += 1 }
                }
                Some(AsmRes::Err(_)) => st.refused += 1,
                Some(AsmRes::Enc(w, _, _)) => {
                    // The assembler refuses (asserts on) an operand tuple that the ISA could encode: its API is
                    // narrower than the ISA. The property forbids silent truncation, not refusal, so this is
                    // counted in the evidence and is not a violation.
                    let _ = w;
                    st.api_restricted += 1;
                }
            },
            Out::Word(w) => {
                st.emitted += 1;
                if st.first.is_none() {
                    st.first = Some(mk(i, String::new()));
                }
                if Some(w) != baselines[cm[i]] {
                    st.nontrivial += 1;
                    if st.nontrivial_ex.is_none() && st.nontrivial > 40 {
                        st.nontrivial_ex = Some(mk(i, String::new()));
                    }
                }
                match a {
                    None => findings.push((
                        format!("c08:{}:accepts-unencodable{}", m.name, blame(i, &|t: &[i64]| (m.valid)(t))),
                        mk(i, "operand value outside the encodable range (spec predicate)".to_string()),
                    )),
                    Some(AsmRes::Err(msg)) => {
                        if msg.contains("unpredictable") {
                            unpred.push(i);
                        } else {
                            findings.push((format!("c08:{}:accepts-unencodable", m.name), mk(i, format!("llvm-mc: {}", msg))));
                        }
                    }
                    Some(AsmRes::Enc(l, _, _)) => {
                        if *l == w {
                            st.equal += 1;
                        } else {
                            mismatch.push(i);
                        }
                    }
                }
            }
        }
    }

    // unpredictable: decoder direction
    for &i in &unpred {
        let want = squeeze(&texts[i]);
        let got = squeeze(&dis_text(i));
        if want == got {
            stats.entry(cm[i]).or_default().unpredictable += 1;
        } else {
            findings.push((format!("c08:{}:{}", meth(i).name, diff_kind(&dis_text(i), &norm_text(&texts[i]))), mk(i, "llvm-mc refuses to assemble (unpredictable); decoder direction differs".to_string())));
        }
    }

    // alternatives (declared architecturally identical encodings), tried in order
    let mut still: Vec<usize> = Vec::new();
    let mut cand: Vec<usize> = Vec::new();
    for &i in &mismatch {
        if meth(i).alts.is_empty() { still.push(i) } else { cand.push(i) }
    }
    let mut round = 0;
    while !cand.is_empty() {
        let mut t = String::new();
        let mut sent: Vec<usize> = Vec::new();
        for &i in &cand {
            if let Some(alt) = meth(i).alts.get(round) {
                let mut s = String::new();
                alt(ops(i), &mut s);
                t.push_str(&s);
                t.push('\n');
                sent.push(i);
            } else {
                still.push(i);
            }
        }
        if sent.is_empty() {
            break;
        }
        let r = assemble(cfg, &asm_path, &t, sent.len());
        let mut next = Vec::new();
        for (k, &i) in sent.iter().enumerate() {
            let ok = match (&r.res[k], outs[i]) {
                (AsmRes::Enc(l, _, _), Out::Word(w)) => *l == w,
                _ => false,
            };
            if ok {
                let ex = mk(i, r.canon(k));
                let st = stats.entry(cm[i]).or_default();
                st.equivalent += 1;
                if st.equivalent_ex.is_none() {
                    st.equivalent_ex = Some(ex);
                }
            } else {
                next.push(i);
            }
        }
        cand = next;
        round += 1;
    }
    for &i in &still {
        let k = asm_of[i].unwrap();
        let canon = asm.canon(k);
        let d = dis_text(i);
        let kind = match dis_of[i].map(|k| &dis[k]) {
            Some(DisRes::Invalid) => "invalid-encoding".to_string(),
            _ => diff_kind(&d, &canon),
        };
        let lw = if let AsmRes::Enc(l, _, _) = &asm.res[k] { *l } else { 0 };
        findings.push((format!("c08:{}:{}", meth(i).name, kind), mk(i, format!("{:08x} {}", lw, canon))));
    }

    tp = prof(4, tp);
    // round trip: re-assemble the disassembly of every valid word
    let mut rt_asm = 0u64;
    if !words.is_empty() {
        let mut t = String::new();
        let mut ridx = Vec::new();
        for (k, d) in dis.iter().enumerate() {
            if let DisRes::Text(s, undef) = d {
                if !*undef && jobs[cj[widx[k]]].roundtrip {
                    t.push_str(s);
                    t.push('\n');
                    ridx.push(k);
                }
            }
        }
        if !ridx.is_empty() {
            rt_asm = ridx.len() as u64;
            let r = assemble(cfg, &asm_path, &t, ridx.len());
            for (j, &k) in ridx.iter().enumerate() {
                let i = widx[k];
                match &r.res[j] {
                    AsmRes::Enc(l, _, _) if *l == words[k] => stats.entry(cm[i]).or_default().roundtrip_ok += 1,
                    AsmRes::Err(e) if e.contains("unpredictable") => stats.entry(cm[i]).or_default().roundtrip_unpredictable += 1,
                    other => {
                        let what = match other {
                            AsmRes::Enc(l, _, _) => format!("{:08x}", l),
                            AsmRes::Err(e) => format!("error: {}", e),
                        };
                        let ex = mk(i, what);
                        let st = stats.entry(cm[i]).or_default();
                        st.roundtrip_diff += 1;
                        if st.roundtrip_ex.is_none() {
                            st.roundtrip_ex = Some(ex);
                        }
                    }
                }
            }
        }
    }

    tp = prof(5, tp);
    // optional dump of every single-instruction case (input of the Dora twin comparison), with the words
    // of the declared equivalent texts
    let mut dump: Vec<String> = Vec::new();
    let mut alt_words: Vec<Vec<u32>> = vec![Vec::new(); if cfg.dump_insn { ncases } else { 0 }];
    if cfg.dump_insn {
        let mut round = 0;
        loop {
            let mut t = String::new();
            let mut sent: Vec<usize> = Vec::new();
            for i in 0..ncases {
                if !valid[i] {
                    continue;
                }
                if let Some(alt) = meth(i).alts.get(round) {
                    let mut s = String::new();
                    alt(ops(i), &mut s);
                    t.push_str(&s);
                    t.push('\n');
                    sent.push(i);
                }
            }
            if sent.is_empty() {
                break;
            }
            let r = assemble(cfg, &asm_path, &t, sent.len());
            for (k, &i) in sent.iter().enumerate() {
                if let AsmRes::Enc(w, _, _) = &r.res[k] {
                    alt_words[i].push(*w);
                }
            }
            round += 1;
        }
    }
    if cfg.dump_insn {
        for i in 0..ncases {
            let mut l = String::new();
            let _ = write!(l, "{}\t{}\t", cj[i], meth(i).name);
            for (k, v) in ops(i).iter().enumerate() {
                if k > 0 { l.push(' '); }
                let _ = write!(l, "{}", v);
            }
            match outs[i] {
                Out::Word(w) => { let _ = write!(l, "\t{:08x}", w); }
                Out::Refused => l.push_str("\tREFUSED"),
                Out::Len(n) => { let _ = write!(l, "\tLEN{}", n); }
            }
            match asm_of[i].map(|k| &asm.res[k]) {
                Some(AsmRes::Enc(w, _, _)) => { let _ = write!(l, "\t{:08x}", w); }
                Some(AsmRes::Err(_)) => l.push_str("\tERR"),
                None => l.push_str("\t-"),
            }
            l.push('\t');
            for (k, w) in alt_words[i].iter().enumerate() {
                if k > 0 { l.push(','); }
                let _ = write!(l, "{:08x}", w);
            }
            dump.push(l);
        }
    }
    // merge
    let mut sh = shared.lock().unwrap();
    sh.asm_lines += asm_idx.len() as u64 + rt_asm;
    sh.dis_lines += words.len() as u64;
    sh.llvm_runs += 3;
    sh.insn_lines.extend(dump);
    for (mi, st) in stats {
        add_stats(&mut sh.stats[mi], st);
    }
    for (k, e) in findings {
        add_finding(&mut sh.findings, k, e);
    }
    drop(sh);
    prof(6, tp);
}

// ------------------------------------------------------------------------------------------------
// json

fn jstr(s: &str) -> String {
    let mut o = String::with_capacity(s.len() + 2);
    o.push('"');
    for c in s.chars() {
        match c {
            '"' => o.push_str("\\\""),
            '\\' => o.push_str("\\\\"),
            '\n' => o.push_str("\\n"),
            '\t' => o.push_str("\\t"),
            c if (c as u32) < 0x20 => { let _ = write!(o, "\\u{:04x}", c as u32); }
            c => o.push(c),
        }
    }
    o.push('"');
    o
}

fn jex(e: &Example) -> String {
    format!(
        "{{\"ops\":[{}],\"word\":{},\"disasm\":{},\"expected\":{},\"llvm\":{}}}",
        e.ops.iter().map(|v| v.to_string()).collect::<Vec<_>>().join(","),
        match e.word { Some(w) => format!("\"{:08x}\"", w), None => "null".to_string() },
        jstr(&e.disasm), jstr(&e.expected), jstr(&e.llvm)
    )
}

fn jopt(e: &Option<Example>) -> String {
    match e { Some(e) => jex(e), None => "null".to_string() }
}

fn main() {
    let args: Vec<String> = std::env::args().collect();
    if args.len() == 2 && args[1] == "methods" {
        for m in gentab::METHODS {
            println!("{} {} {}", m.name, m.arity, m.kind);
        }
        return;
    }
    if args.len() != 4 || args[1] != "run" {
        die("usage: arm64drv run <plan> <report.json> | arm64drv methods");
    }
    std::panic::set_hook(Box::new(|_| {}));
    let (mut cfg, jobs) = read_plan(&args[2]);
    if let Ok(v) = std::env::var("ARM64DRV_SHARD") {
        let p: Vec<usize> = v.split('/').map(|x| x.parse().unwrap()).collect();
        cfg.shard = (p[0], p[1]);
        cfg.threads = p[2];
        cfg.scratch = format!("{}/s{}", cfg.scratch, p[0]);
        std::fs::create_dir_all(&cfg.scratch).unwrap_or_else(|e| die(&format!("{}", e)));
    }
    let cfg = Arc::new(cfg);
    let jobs = Arc::new(jobs);

    // work list: sequences first (far label distances are expensive, one thread each), then the single
    // instruction jobs packed into chunks of cfg.chunk cases across job boundaries
    let mut work: Vec<Vec<Seg>> = Vec::new();
    for (ji, j) in jobs.iter().enumerate() {
        if gentab::METHODS[j.method].kind == 0 {
            continue;
        }
        let chunk = (j.total / (cfg.threads as u64 * 8)).clamp(1, 256);
        let mut lo = 0;
        while lo < j.total {
            let hi = (lo + chunk).min(j.total);
            work.push(vec![Seg { ji, lo, hi }]);
            lo = hi;
        }
    }
    let mut cur: Vec<Seg> = Vec::new();
    let mut cur_n = 0u64;
    for (ji, j) in jobs.iter().enumerate() {
        if gentab::METHODS[j.method].kind != 0 {
            continue;
        }
        let mut lo = 0;
        while lo < j.total {
            let hi = (lo + (cfg.chunk - cur_n)).min(j.total);
            cur.push(Seg { ji, lo, hi });
            cur_n += hi - lo;
            lo = hi;
            if cur_n >= cfg.chunk {
                work.push(std::mem::take(&mut cur));
                cur_n = 0;
            }
        }
    }
    if !cur.is_empty() {
        work.push(cur);
    }
    // one of several driver processes: every n-th work item (panics do not scale across the threads of one
    // process, so the Python side starts several single-threaded processes)
    if cfg.shard.1 > 1 {
        let (si, sn) = cfg.shard;
        work = work.into_iter().enumerate().filter(|(k, _)| k % sn == si).map(|(_, w)| w).collect();
    }
    let mut stats = Vec::new();
    for _ in gentab::METHODS {
        stats.push(MStats::default());
    }
    // baseline word per method: the first accepted tuple of its first job in enumeration order
    // (all operands at the first value of their domain, by convention 0, unless that is refused)
    for j in jobs.iter() {
        let m = &gentab::METHODS[j.method];
        if m.kind != 0 || stats[j.method].baseline.is_some() {
            continue;
        }
        let mut ops = vec![0i64; m.arity];
        for idx in 0..j.total.min(100_000) {
            decode_index(j, idx, &mut ops);
            if let Ok(b) = catch_unwind(AssertUnwindSafe(|| (m.call)(&ops))) {
                if b.len() == 4 {
                    stats[j.method].baseline = Some(u32::from_le_bytes([b[0], b[1], b[2], b[3]]));
                    break;
                }
            }
        }
    }
    let baselines: Arc<Vec<Option<u32>>> = Arc::new(stats.iter().map(|t| t.baseline).collect());
    let shared = Arc::new(Mutex::new(Shared { stats, findings: BTreeMap::new(), seq_lines: Vec::new(), asm_lines: 0, dis_lines: 0, llvm_runs: 0, insn_lines: Vec::new() }));
    let next = Arc::new(AtomicUsize::new(0));
    let work = Arc::new(work);
    let mut hs = Vec::new();
    for tid in 0..cfg.threads {
        let (cfg, jobs, shared, next, work, baselines) = (cfg.clone(), jobs.clone(), shared.clone(), next.clone(), work.clone(), baselines.clone());
        hs.push(std::thread::spawn(move || loop {
            let k = next.fetch_add(1, Ordering::SeqCst);
            if k >= work.len() {
                break;
            }
            process_chunk(&cfg, &jobs, &work[k], tid, &shared, &baselines);
        }));
    }
    for h in hs {
        if h.join().is_err() {
            die("worker thread panicked");
        }
    }
    if std::env::var("ARM64DRV_PROF").is_ok() {
        let names = ["call", "text", "asm", "dis", "classify+alts", "roundtrip", "merge", "(llvm child)"];
        for (i, n) in names.iter().enumerate() {
            eprintln!("prof {:14} {:10.3} s", n, PROF[i].load(Ordering::Relaxed) as f64 / 1e6);
        }
    }
    let sh = shared.lock().unwrap();
    let mut o = String::new();
    o.push_str("{\n\"methods\":{\n");
    let mut firstm = true;
    for (i, m) in gentab::METHODS.iter().enumerate() {
        let t = &sh.stats[i];
        if t.cases == 0 {
            continue;
        }
        if !firstm { o.push_str(",\n"); }
        firstm = false;
        let declared: u64 = jobs.iter().filter(|j| j.method == i).map(|j| j.total).sum();
        let _ = write!(
            o,
            "{}:{{\"kind\":{},\"declared\":{},\"cases\":{},\"emitted\":{},\"refused\":{},\"refused_zr_sp\":{},\"api_restricted\":{},\"equal\":{},\"equivalent\":{},\"unpredictable\":{},\"nontrivial\":{},\"roundtrip_ok\":{},\"roundtrip_unpredictable\":{},\"roundtrip_diff\":{},\"skipped\":{},\"dups\":{},\"baseline\":{},\"first\":{},\"nontrivial_ex\":{},\"roundtrip_ex\":{},\"equivalent_ex\":{}}}",
            jstr(m.name), m.kind, declared, t.cases, t.emitted, t.refused, t.refused_zr_sp, t.api_restricted, t.equal, t.equivalent,
            t.unpredictable, t.nontrivial, t.roundtrip_ok, t.roundtrip_unpredictable, t.roundtrip_diff, t.skipped, t.dups,
            match t.baseline { Some(w) => format!("\"{:08x}\"", w), None => "null".to_string() },
            jopt(&t.first), jopt(&t.nontrivial_ex), jopt(&t.roundtrip_ex), jopt(&t.equivalent_ex)
        );
    }
    o.push_str("\n},\n\"findings\":{\n");
    let mut firstf = true;
    for (k, f) in sh.findings.iter() {
        if !firstf { o.push_str(",\n"); }
        firstf = false;
        let _ = write!(o, "{}:{{\"count\":{},\"examples\":[{}]}}", jstr(k), f.count,
            f.examples.iter().map(jex).collect::<Vec<_>>().join(","));
    }
    let _ = write!(o, "\n}},\n\"asm_lines\":{},\"dis_lines\":{},\"llvm_runs\":{},\"seq_cases\":{}\n}}\n", sh.asm_lines, sh.dis_lines, sh.llvm_runs, sh.seq_lines.len());
    std::fs::write(&args[3], o).unwrap_or_else(|e| die(&format!("write report: {}", e)));
    if cfg.dump_insn {
        let mut f = std::io::BufWriter::new(std::fs::File::create(format!("{}.insn", args[3])).unwrap_or_else(|e| die(&format!("{}", e))));
        for l in sh.insn_lines.iter() {
            let _ = writeln!(f, "{}", l);
        }
    }
    let mut f = std::io::BufWriter::new(std::fs::File::create(format!("{}.seq", args[3])).unwrap_or_else(|e| die(&format!("{}", e))));
    for l in sh.seq_lines.iter() {
        let _ = writeln!(f, "{}", l);
    }
}
