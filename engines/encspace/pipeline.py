"""llvm-mc side of C07: for every shard written by the driver compare, case by case,
  decode(our bytes)   against   decode(llvm-mc's own assembly of the expected Intel text)
using the same llvm-mc printer on both sides.  Every case is decoded as an isolated atomic block followed by a
`ud2` marker block, so a case yields exactly the instructions contained in exactly its bytes."""
import binascii
import os
import re
import struct
import subprocess

LLVM_MC = os.environ.get("VERIF_LLVM_MC", "/usr/bin/llvm-mc")
DIS = [LLVM_MC, "--disassemble", "-output-asm-variant=1", "-triple=x86_64", "-mattr=+avx,+avx2,+lzcnt,+bmi,+popcnt,+sse4.1"]
ASM = [LLVM_MC, "-triple=x86_64", "-x86-asm-syntax=intel", "-filetype=obj",
       "-mattr=+avx,+avx2,+lzcnt,+bmi,+popcnt,+sse4.1"]
MARK = "\tud2\n"


class PipelineError(Exception):
    pass


def _strip_header(text):
    if text.startswith("\t.text\n"):
        return text[7:]
    return text


def _dis_file(path):
    """Disassemble a file of hex tokens; llvm-mc reads and writes files (pipes through Python are slow)."""
    out = path + ".dis"
    with open(out, "wb") as fo:  # not `-o`: llvm-mc deletes its output file when any block failed to decode
        p = subprocess.run(DIS + [path], stdout=fo, stderr=subprocess.DEVNULL)
    # exit status 1 only says that some block did not decode (that case then has an empty text); the
    # caller checks that the number of marker-separated texts equals the number of cases
    if p.returncode not in (0, 1) or not os.path.exists(out):
        raise PipelineError("llvm-mc --disassemble failed (%d) on %s" % (p.returncode, path))
    with open(out) as f:
        text = f.read()
    os.remove(out)
    return _strip_header(text)


def _dis_bytes(hex_bytes):
    p = subprocess.run(DIS, input=hex_bytes, stdout=subprocess.PIPE, stderr=subprocess.DEVNULL)
    if p.returncode not in (0, 1):
        raise PipelineError("llvm-mc --disassemble failed (%d)" % p.returncode)
    return _strip_header(p.stdout.decode("utf-8", "replace"))


def _bisect_cases(lines):
    """Slow path: a case decoded to something containing the marker instruction itself."""
    chunks = _dis_bytes(b"".join(lines)).split(MARK)
    if len(chunks) == len(lines) + 1 and chunks[-1] == "":
        return chunks[:-1]
    if len(lines) == 1:
        t = _dis_bytes(lines[0])
        return [t[:-len(MARK)] if t.endswith(MARK) else t]
    mid = len(lines) // 2
    return _bisect_cases(lines[:mid]) + _bisect_cases(lines[mid:])


def disassemble_shard(hex_path, n):
    """-> list of n decoder texts, one per case (a text may be empty or hold several instructions)."""
    chunks = _dis_file(hex_path).split(MARK)
    if len(chunks) == n + 1 and chunks[-1] == "":
        return chunks[:-1]
    with open(hex_path, "rb") as f:
        lines = f.readlines()
    return _bisect_cases(lines)


def elf_text(path):
    d = open(path, "rb").read()
    if d[:4] != b"\x7fELF":
        raise PipelineError("not an ELF object: " + path)
    shoff = struct.unpack_from("<Q", d, 0x28)[0]
    shentsize, shnum, shstrndx = struct.unpack_from("<HHH", d, 0x3a)
    secs = [struct.unpack_from("<IIQQQQIIQQ", d, shoff + i * shentsize) for i in range(shnum)]
    stroff = secs[shstrndx][4]
    for s in secs:
        name = d[stroff + s[0]:d.index(b"\0", stroff + s[0])]
        if name == b".text":
            return d[s[4]:s[4] + s[5]]
    raise PipelineError("no .text in " + path)


def reference_cases(s_path, n):
    """Assemble the expected text with llvm-mc and decode that again: list of n decoder texts."""
    obj = s_path + ".o"
    p = subprocess.run(ASM + [s_path, "-o", obj], stdout=subprocess.DEVNULL, stderr=subprocess.PIPE)
    if p.returncode != 0 or p.stderr:
        raise PipelineError("llvm-mc rejected expected text (spec table problem?):\n" +
                            p.stderr.decode("utf-8", "replace")[:3000])
    text = elf_text(obj)
    os.remove(obj)
    if not text:
        return []
    rhex = s_path + ".rhex"
    with open(rhex, "wb") as f:
        f.write(b"0x" + binascii.hexlify(text, " ").replace(b" ", b" 0x"))
    chunks = _dis_file(rhex).split(MARK)
    os.remove(rhex)
    if len(chunks) != n + 1 or chunks[-1] != "":
        raise PipelineError("reference stream of %s decodes to %d cases, expected %d" % (s_path, len(chunks) - 1, n))
    return chunks[:-1]


# Printer-level normalisations, applied to BOTH sides and only when the raw texts differ:
#  * llvm's trailing comments (`# xmm0 = mem[0],zero`) are not part of the instruction;
#  * the one-bit shift/rotate short form (D1 /r) prints without its count: `shl eax` == `shl eax, 1`;
#  * an immediate of an N-bit operation is printed signed or unsigned depending on the imm8/imm32 form:
#    reduce it modulo 2^N (N from the first operand: byte/word/dword ptr or the register's width).
_SHIFT1 = re.compile(r"^(\t(?:shl|shr|sar|rol|ror|sal|rcl|rcr)\t[a-z0-9]+)$")
_IMM_LAST = re.compile(r"^(\t[a-z0-9]+\t)(.*), (-?\d+)$")
_WIDTH_KW = (("byte ptr", 8), ("word ptr", 16))


def _op_width(first):
    if first.startswith("dword ptr"):
        return 32
    if first.startswith("qword ptr"):
        return 64
    for kw, w in _WIDTH_KW:
        if first.startswith(kw):
            return w
    rc = _REG_CLASSES.get(first)
    return int(rc[1]) if rc else None


def normalize(chunk):
    out = []
    for line in chunk.split("\n"):
        line = line.split("#")[0].rstrip()
        if not line:
            continue
        m = _SHIFT1.match(line)
        if m:
            line = m.group(1) + ", 1"
        m = _IMM_LAST.match(line)
        if m:
            w = _op_width(m.group(2).split(",")[0].strip())
            if w and w < 64:
                line = "%s%s, %d" % (m.group(1), m.group(2), int(m.group(3)) % (1 << w))
        out.append(line)
    return "\n".join(out)


_REG_CLASSES = {}
for _i, _names in enumerate(zip(
        ["rax", "rcx", "rdx", "rbx", "rsp", "rbp", "rsi", "rdi"] + ["r%d" % i for i in range(8, 16)],
        ["eax", "ecx", "edx", "ebx", "esp", "ebp", "esi", "edi"] + ["r%dd" % i for i in range(8, 16)],
        ["ax", "cx", "dx", "bx", "sp", "bp", "si", "di"] + ["r%dw" % i for i in range(8, 16)],
        ["al", "cl", "dl", "bl", "spl", "bpl", "sil", "dil"] + ["r%db" % i for i in range(8, 16)])):
    for _w, _n in zip((64, 32, 16, 8), _names):
        _REG_CLASSES[_n] = (_i, _w)
for _i, _n in enumerate(["ah", "ch", "dh", "bh"]):
    _REG_CLASSES[_n] = (_i + 4, 8.5)


def _split_insn(line):
    line = line.split("#")[0].strip()
    parts = line.split("\t")
    mn = parts[0]
    ops = [o.strip() for o in " ".join(parts[1:]).split(",")] if len(parts) > 1 and parts[1].strip() else []
    return mn, ops


def classify(ours, ref):
    """Stable, narrow name of WHAT differs between two decoder texts."""
    ol = [l for l in ours.split("\n") if l.strip()]
    rl = [l for l in ref.split("\n") if l.strip()]
    if not ol:
        return "undecodable"
    if len(ol) != len(rl):
        return "instruction-count"
    for o, r in zip(ol, rl):
        if o == r:
            continue
        om, oo = _split_insn(o)
        rm, ro = _split_insn(r)
        if om != rm:
            return "mnemonic"
        if len(oo) != len(ro):
            return "operand-count"
        for k, (a, b) in enumerate(zip(oo, ro)):
            if a == b:
                continue
            if "[" in a or "[" in b:
                if "[" in a and "[" in b and a.split("[")[0] != b.split("[")[0]:
                    return "operand%d:mem-size" % k
                return "operand%d:mem" % k
            if a in _REG_CLASSES and b in _REG_CLASSES:
                if _REG_CLASSES[a][0] == _REG_CLASSES[b][0]:
                    return "operand%d:size" % k
                return "operand%d:reg" % k
            if a.startswith("xmm") and b.startswith("xmm"):
                return "operand%d:reg" % k
            if re.fullmatch(r"-?\d+", a) and re.fullmatch(r"-?\d+", b):
                return "operand%d:imm" % k
            return "operand%d:kind" % k
    return "text"


def parse_meta(comment):
    """'<method> avx=<0|1> <operands...>' -> (method, avx, operands)"""
    parts = comment.strip().split(" ", 2)
    return parts[0], parts[1].split("=")[1] == "1", parts[2].strip() if len(parts) > 2 else ""


def _hex_of(line):
    return line.decode().split("]")[0].strip("[").replace("0x", "")


_INT = re.compile(r"-?\d+")


def case_weight(case):
    """Deterministic 'smallness' of a case: has_avx2 off first, then small operand numbers."""
    return (bool(case.get("has_avx2")), sum(abs(int(x)) for x in _INT.findall(case["operands"])), case["operands"])


KEEP_PER_GROUP = 6


def process_shard(args):
    """Worker: returns dict(n, groups={(method, what): {count, examples}}, normalized, samples, error)."""
    kind, base, n, keep = args
    hex_path = base + ".hex"
    txt_path = base + (".s" if kind == "std" else ".exp")
    res = {"n": n, "groups": {}, "normalized": 0, "samples": [], "error": None}
    try:
        ours = disassemble_shard(hex_path, n)
        if len(ours) != n:
            raise PipelineError("%s decodes to %d cases, driver announced %d" % (hex_path, len(ours), n))
        if kind == "std":
            ref = reference_cases(txt_path, n)
            tl = None
        else:
            tl = open(txt_path).read().split("\n")[:n]
            ref = ["\t" + l.split(" # ")[0].replace(" ", "\t", 1) + "\n" for l in tl]
        want = [0, 1] if n > 1 else [0]
        bad = [i for i in range(n) if ours[i] != ref[i]] if ours != ref else []
        with open(txt_path) as f:
            tl = tl or (f.read().split("\n") if bad else [f.readline().rstrip("\n") for _ in want])
        with open(hex_path, "rb") as f:
            hl = f.readlines() if bad else [f.readline() for _ in want]

        def case_of(i):
            exp, _, comment = tl[i].partition(" # ")
            method, avx, operands = parse_meta(comment)
            return {"method": method, "has_avx2": avx, "operands": operands,
                    "expected_text": exp.replace(" ; ud2", ""), "bytes": _hex_of(hl[i]),
                    "decoded": ours[i].strip("\n").replace("\t", " ").strip()}

        badset = set(bad)
        for i in want:
            if i not in badset:
                res["samples"].append(case_of(i))
        for i in bad:
            no, nr = normalize(ours[i]), normalize(ref[i])
            if no == nr:
                res["normalized"] += 1
                continue
            case = case_of(i)
            case["reference_decoded"] = ref[i].strip("\n").replace("\t", " ").strip()
            case["what"] = classify(no, nr)
            g = res["groups"].setdefault((case["method"], case["what"]), {"count": 0, "examples": []})
            g["count"] += 1
            g["examples"].append(case)
            if len(g["examples"]) > 4 * KEEP_PER_GROUP:
                g["examples"] = sorted(g["examples"], key=case_weight)[:KEEP_PER_GROUP]
        for g in res["groups"].values():
            g["examples"] = sorted(g["examples"], key=case_weight)[:KEEP_PER_GROUP]
    except PipelineError as e:
        res["error"] = str(e)
    finally:
        if not keep:
            for p in (hex_path, txt_path):
                try:
                    os.remove(p)
                except OSError:
                    pass
    return res
