"""C08 -- generator of the Rust driver crate and of the enumeration plans.

* parse_source(): regex-parses every `pub fn` of the CURRENT <repo>/dora-asm/src/arm64.rs (outside the
  test module) together with the enums Cond / Extend / Shift.
* join(): joins the parsed methods with the hand-written spec table (arm64_spec.py): covered / uncovered /
  non_instruction / stale spec entries.
* generate(): writes the driver crate (Cargo.toml with the path of the dora-asm crate under test,
  Cargo.lock copied from the repository, main.rs = arm64_driver_main.rs, gentab.rs = generated table).
* plans(): the operand domains of one tier as explicit cartesian products.
"""
import hashlib
import os
import re
import shutil

import arm64_spec as S

HERE = os.path.dirname(os.path.abspath(__file__))

REG_FULL = list(range(33))                      # R0..R30, REG_ZERO (31), REG_SP (32)
REG_BND = [0, 1, 15, 16, 30, 31, 32]
REG_QBND = [0, 30, 31, 32]                      # quick tier: the other register positions while one is complete
REG_TINY = [0, 30, 31, 32]
NEON_FULL = list(range(33))                     # 32 = non-encodable neighbour (NeonRegister::new must refuse)
NEON_BND = [0, 1, 15, 16, 30, 31, 32]
NEON_QBND = [0, 31, 32]
NEON_TINY = [0, 31, 32]

SLOT_TYPES = {"Register": 1, "NeonRegister": 1, "u32": 1, "i32": 1, "u64": 1, "i64": 1, "Cond": 1, "Extend": 1,
              "Shift": 1, "Label": 1, "MemOperand": 2}


def arm64_rs(repo):
    return os.path.join(repo, "dora-asm", "src", "arm64.rs")


def _strip_tests(src):
    i = src.find("#[cfg(test)]")
    return src if i < 0 else src[:i]


def _block_end(src, open_idx):
    depth = 0
    i = open_idx
    n = len(src)
    while i < n:
        c = src[i]
        if c == "{":
            depth += 1
        elif c == "}":
            depth -= 1
            if depth == 0:
                return i
        elif c == "/" and src[i:i + 2] == "//":
            j = src.find("\n", i)
            i = n if j < 0 else j
            continue
        elif c == '"':
            j = i + 1
            while j < n and src[j] != '"':
                j += 2 if src[j] == "\\" else 1
            i = j
        i += 1
    return n


def parse_source(repo):
    src = _strip_tests(open(arm64_rs(repo), encoding="utf-8").read())
    # containers: impl X { ... } / mod x { ... }
    containers = []
    for m in re.finditer(r"^(?:pub(?:\([a-z]+\))?\s+)?(impl|mod)\s+([A-Za-z_0-9]+)\s*\{", src, re.M):
        start = m.end() - 1
        containers.append((m.group(1), m.group(2), start, _block_end(src, start)))
    methods, others = [], []
    for m in re.finditer(r"\bpub\s+fn\s+([A-Za-z_0-9]+)\s*\(([^)]*)\)", src, re.S):
        name, params = m.group(1), m.group(2)
        cont = None
        for kind, cname, a, b in containers:
            if a < m.start() < b:
                cont = (kind, cname)
        plist = [p.strip() for p in params.split(",") if p.strip()]
        recv = None
        if plist and re.fullmatch(r"(&\s*)?(mut\s+)?self", plist[0]):
            recv = plist.pop(0)
        ps = []
        for p in plist:
            pn, _, pt = p.partition(":")
            ps.append((pn.strip(), pt.strip()))
        if cont == ("impl", "AssemblerArm64"):
            methods.append({"name": name, "params": ps, "recv": recv})
        else:
            q = name if cont is None else "%s::%s" % (cont[1], name)
            others.append({"name": q, "params": ps, "recv": recv})
    enums = {}
    for en in ("Cond", "Extend", "Shift"):
        m = re.search(r"pub\s+enum\s+%s\s*\{([^}]*)\}" % en, src)
        if not m:
            raise RuntimeError("enum %s not found in arm64.rs" % en)
        body = re.sub(r"//[^\n]*", "", m.group(1))
        enums[en] = [v.strip() for v in body.split(",") if v.strip()]
    return {"methods": methods, "others": others, "enums": enums}


def slots_of(params):
    """operand slots of a parameter list: [(param name, type, sub)] or None if a type is unsupported"""
    out = []
    for pn, pt in params:
        if pt not in SLOT_TYPES:
            return None
        if pt == "MemOperand":
            out.append((pn + ".base", "Register", None))
            out.append((pn + ".offset", "i64", None))
        else:
            out.append((pn, pt, None))
    return out


def join(parsed):
    """-> dict(covered=[entry], uncovered=[(name, reason)], non_instruction=[names], stale=[names])"""
    covered, uncovered, non_instr = [], [], []
    seen = set()
    for m in parsed["methods"]:
        n = m["name"]
        seen.add(n)
        if n in S.NON_INSTRUCTION:
            non_instr.append(n)
            continue
        sp = S.SPEC.get(n)
        if sp is None:
            uncovered.append((n, "no spec entry"))
            continue
        sl = slots_of(m["params"])
        if sl is None:
            uncovered.append((n, "unsupported parameter type in (%s)" % ", ".join(t for _, t in m["params"])))
            continue
        bad = [k for k in sp.doms if k >= len(sl)]
        need = [i for i, (_, t, _) in enumerate(sl) if t in ("u32", "i32", "u64", "i64", "Label") and i not in sp.doms]
        if bad or need:
            uncovered.append((n, "signature changed: spec domains do not fit (%s)" % ", ".join("%s: %s" % (a, b) for a, b, _ in sl)))
            continue
        if sp.kind == 0 and _max_slot(sp) >= len(sl):
            uncovered.append((n, "signature changed: template refers to a missing operand"))
            continue
        covered.append({"name": n, "rust": n, "slots": sl, "spec": sp, "params": m["params"], "pseudo": False})
    for o in parsed["others"]:
        n = o["name"]
        seen.add(n)
        if n in S.NON_INSTRUCTION_OTHER:
            non_instr.append(n)
            continue
        sp = S.SPEC.get(n)
        if sp is None or sp.call is None:
            uncovered.append((n, "public function without spec entry"))
            continue
        if [t for _, t in o["params"]] != sp.sig:
            uncovered.append((n, "signature changed"))
            continue
        sl = [(pn, pt, None) for pn, pt in o["params"]]
        covered.append({"name": n, "rust": None, "slots": sl, "spec": sp, "params": o["params"], "pseudo": True})
    stale = sorted(n for n in S.SPEC if n not in seen)
    return {"covered": covered, "uncovered": uncovered, "non_instruction": non_instr, "stale": stale}


def _max_slot(sp):
    mx = -1
    for t in [sp.text] + sp.alts:
        for m in re.finditer(r"\{([a-z0-9]+):([0-9,]+)\}", t):
            mx = max([mx] + [int(x) for x in m.group(2).split(",")])
    return mx


# ------------------------------------------------------------------------------------------------
# Rust generation

def _ident(name):
    return re.sub(r"[^A-Za-z0-9_]", "_", name)


def _text_fn(fname, template):
    fmt, args = "", []

    def repl(m):
        args.append("f_%s(%s)" % (m.group(1), ", ".join("o[%s]" % x for x in m.group(2).split(","))))
        return "{}"
    fmt = re.sub(r"\{([a-z0-9]+):([0-9,]+)\}", repl, template.replace("{", "{").replace("}", "}"))
    # literal braces never occur in AArch64 templates except vector lists, which are not used
    if args:
        return 'fn %s(o: &[i64], s: &mut String) { let _ = write!(s, "%s", %s); }\n' % (fname, fmt, ", ".join(args))
    return 'fn %s(_o: &[i64], s: &mut String) { s.push_str("%s"); }\n' % (fname, fmt)


def _conv(i, ty):
    if ty == "Register":
        return "reg(o[%d])" % i
    if ty == "NeonRegister":
        return "neon(o[%d])" % i
    if ty in ("u32", "i32", "u64"):
        return "o[%d] as %s" % (i, ty)
    if ty == "i64":
        return "o[%d]" % i
    if ty in ("Cond", "Extend", "Shift"):
        return "%s_VALUES[o[%d] as usize]" % (ty.upper(), i)
    raise KeyError(ty)


def _call_fn(e):
    fn = "c_" + _ident(e["name"])
    sp = e["spec"]
    if e["pseudo"]:
        return "fn %s(o: &[i64]) -> Vec<u8> { %s }\n" % (fn, sp.call)
    args, i, label_slot = [], 0, None
    for pn, pt in e["params"]:
        if pt == "MemOperand":
            args.append("MemOperand::new(reg(o[%d]), o[%d])" % (i, i + 1))
            i += 2
        elif pt == "Label":
            label_slot = i
            args.append("l")
            i += 1
        else:
            args.append(_conv(i, pt))
            i += 1
    if label_slot is not None:
        return "fn %s(o: &[i64]) -> Vec<u8> { with_label(o[%d], |a, l| a.%s(%s)) }\n" % (fn, label_slot, e["rust"], ", ".join(args))
    use = "o" if args else "_o"
    return "fn %s(%s: &[i64]) -> Vec<u8> { single(|a| a.%s(%s)) }\n" % (fn, use, e["rust"], ", ".join(args))


def gentab_rs(parsed, joined):
    en = parsed["enums"]
    out = ["// generated by engines/encspace/arm64_gen.py -- do not edit\n",
           "#![allow(warnings)]\n",
           "use super::*;\nuse std::fmt::Write;\n\n"]
    for ty in ("Cond", "Extend", "Shift"):
        out.append("pub static %s_NAMES: &[&str] = &[%s];\n" % (ty.upper(), ", ".join('"%s"' % v for v in en[ty])))
        out.append("pub static %s_VALUES: &[%s] = &[%s];\n" % (ty.upper(), ty, ", ".join("%s::%s" % (ty, v) for v in en[ty])))
    out.append("pub static BITMASK64: &[u64] = &[%s];\n" % ", ".join("0x%x" % v for v in S.BITMASK64))
    out.append("pub static BITMASK32: &[u64] = &[%s];\n\n" % ", ".join("0x%x" % v for v in S.BITMASK32))
    rows = []
    for e in joined["covered"]:
        sp = e["spec"]
        idn = _ident(e["name"])
        out.append(_call_fn(e))
        out.append(_text_fn("t_" + idn, sp.text))
        for k, a in enumerate(sp.alts):
            out.append(_text_fn("a%d_%s" % (k, idn), a))
        conds = list(sp.valid)
        for i, (_, ty, _) in enumerate(e["slots"]):
            if ty == "NeonRegister":
                conds.append("(0..=31).contains(&o[%d])" % i)
        body = " && ".join("(%s)" % c for c in conds) if conds else "true"
        out.append("fn v_%s(%s: &[i64]) -> bool { %s }\n" % (idn, "o" if conds else "_o", body))
        regmask = 0
        for i, (_, ty, _) in enumerate(e["slots"]):
            if ty == "Register":
                regmask |= 1 << i
        rows.append('    Method { name: "%s", arity: %d, kind: %d, call: c_%s, text: t_%s, alts: &[%s], valid: v_%s, regmask: %d },\n' % (
            e["name"], len(e["slots"]), sp.kind, idn, idn, ", ".join("a%d_%s" % (k, idn) for k in range(len(sp.alts))), idn, regmask))
    out.append("\npub static METHODS: &[Method] = &[\n")
    out += rows
    out.append("];\n")
    return "".join(out)


CARGO_TOML = """[package]
name = "arm64drv"
version = "0.0.1"
edition = "2021"

[workspace]

[dependencies]
dora-asm = { path = "%s" }

[[bin]]
name = "arm64drv"
path = "src/main.rs"

# production-like: dora-asm's refusals are plain assert!/unwrap/expect, integer overflow wraps
[profile.release]
opt-level = 2
debug-assertions = false
overflow-checks = false
panic = "unwind"
debug = false
"""


def gen_dir(build, repo):
    tag = "" if os.path.realpath(repo) == "/repo" else "-" + hashlib.sha1(os.path.realpath(repo).encode()).hexdigest()[:10]
    return os.path.join(build, "gen-arm64drv" + tag)


def _write_if_changed(path, content):
    if os.path.exists(path) and open(path, encoding="utf-8").read() == content:
        return
    with open(path, "w", encoding="utf-8") as f:
        f.write(content)


def generate(repo, build, parsed, joined):
    d = gen_dir(build, repo)
    os.makedirs(os.path.join(d, "src"), exist_ok=True)
    _write_if_changed(os.path.join(d, "Cargo.toml"), CARGO_TOML % os.path.join(os.path.realpath(repo), "dora-asm"))
    lock = os.path.join(repo, "Cargo.lock")
    if not os.path.exists(lock):
        lock = "/repo/Cargo.lock"
    if not os.path.exists(os.path.join(d, "Cargo.lock")):
        shutil.copy(lock, os.path.join(d, "Cargo.lock"))
    _write_if_changed(os.path.join(d, "src", "main.rs"), open(os.path.join(HERE, "arm64_driver_main.rs"), encoding="utf-8").read())
    _write_if_changed(os.path.join(d, "src", "gentab.rs"), gentab_rs(parsed, joined))
    return d


# ------------------------------------------------------------------------------------------------
# plans

def _slot_domains(e, enums, tier=""):
    """per slot: (full, bnd, tiny, isreg)"""
    res = []
    for i, (_, ty, _) in enumerate(e["slots"]):
        d = e["spec"].doms.get(i)
        if d is not None:
            res.append((d.full, d.bnd, d.bnd, False))
        elif ty == "Register":
            res.append((REG_FULL, REG_BND if tier != "quick" else REG_QBND, REG_TINY, True))
        elif ty == "NeonRegister":
            res.append((NEON_FULL, NEON_BND if tier != "quick" else NEON_QBND, NEON_TINY, True))
        elif ty in ("Cond", "Extend", "Shift"):
            v = list(range(len(enums[ty])))
            res.append((v, v, v, False))
        else:
            raise RuntimeError("no domain for slot %d of %s" % (i, e["name"]))
    return res


def _size(plan):
    n = 1
    for d in plan:
        n *= len(d)
    return n


def plans_for(e, enums, tier):
    """list of cartesian products (each a list of value lists, one per slot); the union is the declared space"""
    sd = _slot_domains(e, enums, tier)
    if not sd:
        return [[]]
    full = [s[0] for s in sd]
    kind = e["spec"].kind
    if tier.startswith("twin-"):
        # reduced product for the (slow) Dora twin: a single cartesian product
        th = tier.endswith("thorough")
        cap = 70_000 if th else 3000
        p = [(s[1] if th else s[2]) if s[3] else s[1] for s in sd]
        if th:
            # complete immediate domains if they fit: on the boundary registers, else on two registers
            for q in ([s[1] if s[3] else s[0] for s in sd], [s[2][:2] if s[3] else s[0] for s in sd]):
                if _size(q) <= cap:
                    p = q
                    break
        while _size(p) > cap:
            # enum operands keep every variant
            cands = [i for i in range(len(p)) if len(p[i]) > 2 and e["slots"][i][1] not in ("Cond", "Extend", "Shift")]
            if not cands:
                break
            i = max(cands, key=lambda k: len(p[k]))
            keep = p[i]
            # keep both ends and the middle of the list (boundary sets are sorted)
            p[i] = sorted({keep[0], keep[len(keep) // 2], keep[-1]}) if len(keep) > 4 else keep[:2]
        return [p]
    cap = 1_200_000 if tier == "thorough" else 20_000
    if kind == 1:
        cap = 400_000 if tier == "thorough" else 30_000
    lab = [i for i, (_, ty, _) in enumerate(e["slots"]) if ty == "Label"]
    if lab:
        # label distances need real padding: near distances with every other operand, middle distances
        # with boundary operands, far distances (up to 128 MB) with two values per other operand
        li = lab[0]
        near = [v for v in full[li] if abs(v) <= 4096]
        mid1 = [v for v in full[li] if 4096 < abs(v) <= 70000]
        mid2 = [v for v in full[li] if 70000 < abs(v) <= (1 << 21) + 64]
        far = [v for v in full[li] if abs(v) > (1 << 21) + 64]
        th = tier == "thorough"
        out = []
        if not th:
            # quick: the expensive distances only at the range ends; the 128 MB ones only for one method per
            # implementation family (the thorough tier runs them for every method)
            ess = set(sd[li][1])
            mid2 = [v for v in mid2 if v in ess]
            far = [v for v in far if v in ess] if e["name"] in ("b", "cbz", "cbnz_w", "tbz", "tbnz") else []
        for dvals, level in ((near, 0 if th else 1), (mid1, 1 if th else 2), (mid2, 2 if th else 3), (far, 3)):
            if not dvals:
                continue
            p = []
            for i, s in enumerate(sd):
                if i == li:
                    p.append(dvals)
                elif level == 3:
                    two = s[2][:2] if s[3] else [s[1][0], s[1][len(s[1]) // 2]]
                    p.append(two if th else two[:1])
                elif level == 2:
                    p.append(s[2] if s[3] else s[1])
                else:
                    p.append(s[level])
            out.append(p)
        return out
    if _size(full) <= cap:
        return [full]
    regs = [i for i, s in enumerate(sd) if s[3]]
    out = []
    if tier == "thorough":
        cand = [[s[0] if s[3] else s[1] for s in sd], [s[1] if s[3] else s[0] for s in sd]]
        for p in cand:
            if _size(p) > cap:
                p = _shrink(p, sd, cap)
            out.append(p)
        return out
    # quick:
    #  (1) one register position complete (all plain registers) at a time, the others on the plain boundary set
    #      {0, 1, 15, 16, 30}, immediates on their boundary sets;
    #  (2) zr/sp: every register position over {0, 30, REG_ZERO, REG_SP} (neon: {0, 31, 32}) -- all combinations of
    #      special and plain registers -- with a few boundary immediates;
    #  (3) all immediate / enum domains complete on the registers {0, 30}.
    def plain(s, vals):
        return [v for v in vals if v < (31 if s[0] is REG_FULL else 32)]
    for r in regs:
        p = [(plain(s, s[0]) if i == r else plain(s, REG_BND)) if s[3] else s[1] for i, s in enumerate(sd)]
        out.append(_shrink(p, sd, cap, keep=r))
    if regs:
        p = [(REG_TINY if s[0] is REG_FULL else NEON_TINY) if s[3] else s[1] for s in sd]
        while _size(p) > 6000:
            cands = [i for i in range(len(p)) if not sd[i][3] and len(p[i]) > 3 and e["slots"][i][1] not in ("Cond", "Extend", "Shift")]
            if not cands:
                break
            i = max(cands, key=lambda k: len(p[k]))
            p[i] = sorted({p[i][0], p[i][len(p[i]) // 2], p[i][-1]})
        out.append(p)
    p = [([0, 30] if s[0] is REG_FULL else [0, 31]) if s[3] else s[0] for s in sd]
    out.append(_shrink(p, sd, cap * 4))
    return out


def _shrink(p, sd, cap, keep=None):
    """replace the largest non-kept dimensions by their boundary / tiny sets until the product fits"""
    p = list(p)
    for level in (1, 2):
        while _size(p) > cap:
            cands = [i for i in range(len(p)) if i != keep and len(p[i]) > len(sd[i][level])]
            if not cands:
                break
            i = max(cands, key=lambda k: len(p[k]))
            p[i] = sd[i][level]
    return p


def write_plan(path, joined, enums, tier, llvm, mattr, scratch, threads, only=None, roundtrip=True, classify_refusals=None,
               extra=""):
    declared = {}
    with open(path, "w") as f:
        if classify_refusals is None:
            classify_refusals = tier == "thorough"
        f.write("llvm %s\nmattr %s\nscratch %s\nthreads %d\nchunk %d\nroundtrip %d\nclassify_refusals %d\n" % (
            llvm, mattr, scratch, threads, 32768 if tier == "quick" else 65536, 0,
            1 if classify_refusals else 0))
        f.write(extra)
        for e in joined["covered"]:
            if only and e["name"] not in only:
                continue
            ps = [(p, 0) for p in plans_for(e, enums, tier)]
            if tier == "thorough" and e["spec"].kind == 0:
                # the quick tier's products first, with the full round trip (disassemble + re-assemble every word);
                # the large products that follow skip the tuples already done and use the decoder only for words
                # that are not bit-equal to llvm-mc's
                ps = [(p, 1) for p in plans_for(e, enums, "quick")] + ps
            declared[e["name"]] = [[len(d) for d in p] for p, _ in ps]
            for p, rt in ps:
                f.write("job %s %d %d\n" % (e["name"], len(p), rt if roundtrip else 0))
                for d in p:
                    f.write(" ".join(str(v) for v in d) + "\n")
    return declared
