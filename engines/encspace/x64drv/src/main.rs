//! x64drv -- exhaustive operand-space driver for dora-asm's `AssemblerX64` (check C07).
//!
//! `methods.rs` (generated at check time from the signatures in dora-asm/src/x64.rs joined with the
//! spec table engines/encspace/x64_spec.py) contains one enumeration function per instruction method.
//! This file holds the operand domains, the text rendering of operands (Intel syntax as accepted by
//! llvm-mc), the label scenarios and the shard writers.
//!
//! Output, per shard `<name>`:
//!   <name>.hex  one line per case:  `[0x48 0x89 0xd8] [0x0f 0x0b]`  (llvm-mc --disassemble input; every
//!               case is an atomic block, followed by a `ud2` marker block)
//!   <name>.s    (kind std)    one line per case: `<expected intel text> ; ud2 # <method> avx=<0|1> <operands>`
//!   <name>.exp  (kind direct) one line per case: `<expected decoder text> # <method> avx=<0|1> <operands>`
//! and on stdout `SHARD <kind> <name> <cases>` lines followed by one `SUMMARY <json>` line.

use dora_asm::Label;
use dora_asm::x64::*;
use std::fmt::Write as _;
use std::fs::File;
use std::io::{BufWriter, Write};
use std::panic::{AssertUnwindSafe, catch_unwind};
use std::sync::atomic::{AtomicUsize, Ordering};
use std::sync::{Arc, Mutex};

mod methods;

// Register numbering of the x86-64 architecture (Intel SDM vol. 2, table 3-1 + REX extension).
pub const N64: [&str; 16] = [
    "rax", "rcx", "rdx", "rbx", "rsp", "rbp", "rsi", "rdi", "r8", "r9", "r10", "r11", "r12", "r13", "r14", "r15",
];
pub const N32: [&str; 16] = [
    "eax", "ecx", "edx", "ebx", "esp", "ebp", "esi", "edi", "r8d", "r9d", "r10d", "r11d", "r12d", "r13d", "r14d",
    "r15d",
];
pub const N8: [&str; 16] = [
    "al", "cl", "dl", "bl", "spl", "bpl", "sil", "dil", "r8b", "r9b", "r10b", "r11b", "r12b", "r13b", "r14b", "r15b",
];

pub const IMM_I8: &[i64] = &[0, 1, -1, 127, 128, -128, 255, -129, 256];
pub const IMM_I32: &[i64] = &[
    0,
    1,
    -1,
    127,
    128,
    -128,
    -129,
    255,
    256,
    32767,
    32768,
    -32768,
    -32769,
    65535,
    65536,
    2147483647,
    -2147483648,
    2147483648,
    4294967295,
    -2147483649,
    4294967296,
];
pub const IMM_I64: &[i64] = &[
    0,
    1,
    -1,
    127,
    128,
    -128,
    -129,
    255,
    256,
    32767,
    32768,
    -32768,
    -32769,
    65535,
    65536,
    2147483647,
    -2147483648,
    2147483648,
    4294967295,
    -2147483649,
    4294967296,
    -4294967296,
    0x1234_5678_9abc_def0,
    i64::MAX,
    i64::MIN,
];
pub const IMM_SH: &[i64] = &[0, 1, -1, 31, 32, 63, 64, 127, 128, -128, 255, -129, 256];
pub const MODES: &[u8] = &[0, 1, 2, 3, 4, 5, 6, 7, 8, 9, 10, 11, 12, 13, 14, 15, 127, 128, 255];
pub const REL32: &[i32] = &[0, 1, -1, 127, 128, -128, -129, -5, 65536, i32::MAX, i32::MIN];

pub fn legal_i8(v: i64) -> bool {
    -128 <= v && v <= 255
}
pub fn legal_i32(v: i64) -> bool {
    -(1i64 << 31) <= v && v < (1i64 << 32)
}
pub fn legal_i32s(v: i64) -> bool {
    -(1i64 << 31) <= v && v < (1i64 << 31)
}
pub fn legal_i64(_v: i64) -> bool {
    true
}
pub fn legal_sh(v: i64) -> bool {
    -128 <= v && v <= 255
}

#[inline]
pub fn reg(n: u8) -> Register {
    Register::new(n)
}
#[inline]
pub fn xmm(n: u8) -> XmmRegister {
    XmmRegister::new(n)
}

#[derive(Clone, Copy, Debug)]
pub enum Addr {
    Reg(u8),
    Offset(u8, i32),
    Array(u8, u8, u8, i32),
    Index(u8, u8, i32),
    Rip(i32),
}

fn scale(s: u8) -> ScaleFactor {
    match s {
        1 => ScaleFactor::One,
        2 => ScaleFactor::Two,
        4 => ScaleFactor::Four,
        8 => ScaleFactor::Eight,
        _ => unreachable!(),
    }
}

impl Addr {
    pub fn mk(&self) -> Address {
        match *self {
            Addr::Reg(b) => Address::reg(reg(b)),
            Addr::Offset(b, d) => Address::offset(reg(b), d),
            Addr::Array(b, i, s, d) => Address::array(reg(b), reg(i), scale(s), d),
            Addr::Index(i, s, d) => Address::index(reg(i), scale(s), d),
            Addr::Rip(d) => Address::rip(d),
        }
    }
    /// rsp cannot be an index register on x86-64; everything else is a legal operand.
    pub fn legal(&self) -> bool {
        match *self {
            Addr::Array(_, i, _, _) | Addr::Index(i, _, _) => i != 4,
            _ => true,
        }
    }
    pub fn meta(&self, s: &mut String) {
        let _ = match *self {
            Addr::Reg(b) => write!(s, "reg({})", b),
            Addr::Offset(b, d) => write!(s, "offset({},{})", b, d),
            Addr::Array(b, i, sc, d) => write!(s, "array({},{},{},{})", b, i, sc, d),
            Addr::Index(i, sc, d) => write!(s, "index({},{},{})", i, sc, d),
            Addr::Rip(d) => write!(s, "rip({})", d),
        };
    }
}

pub struct Disp(pub i64);
impl std::fmt::Display for Disp {
    fn fmt(&self, f: &mut std::fmt::Formatter<'_>) -> std::fmt::Result {
        if self.0 > 0 {
            write!(f, " + {}", self.0)
        } else if self.0 < 0 {
            write!(f, " - {}", -(self.0 as i128))
        } else {
            Ok(())
        }
    }
}

impl std::fmt::Display for Addr {
    fn fmt(&self, f: &mut std::fmt::Formatter<'_>) -> std::fmt::Result {
        match *self {
            Addr::Reg(b) => write!(f, "[{}]", N64[b as usize]),
            Addr::Offset(b, d) => write!(f, "[{}{}]", N64[b as usize], Disp(d as i64)),
            Addr::Array(b, i, s, d) => {
                write!(f, "[{} + {}*{}{}]", N64[b as usize], s, N64[i as usize], Disp(d as i64))
            }
            Addr::Index(i, s, d) => write!(f, "[{}*{}{}]", s, N64[i as usize], Disp(d as i64)),
            Addr::Rip(d) => write!(f, "[rip{}]", Disp(d as i64)),
        }
    }
}

/// RIP-relative operand text for label-addressed loads.
pub struct RipRel(pub i64);
impl std::fmt::Display for RipRel {
    fn fmt(&self, f: &mut std::fmt::Formatter<'_>) -> std::fmt::Result {
        write!(f, "[rip{}]", Disp(self.0))
    }
}

/// `array_scales`/`array_disps`: sub-domain used for the base+index*scale shape.
pub fn address_domain(disps: &[i32], array_scales: &[u8], array_disps: &[i32]) -> Vec<Addr> {
    let mut v = Vec::new();
    // first element is the "all-zero" operand
    for b in 0..16u8 {
        for &d in disps {
            v.push(Addr::Offset(b, d));
        }
    }
    for b in 0..16u8 {
        v.push(Addr::Reg(b));
    }
    for b in 0..16u8 {
        for i in 0..16u8 {
            for &s in array_scales {
                for &d in array_disps {
                    v.push(Addr::Array(b, i, s, d));
                }
            }
        }
    }
    for i in 0..16u8 {
        for s in [1u8, 2, 4, 8] {
            for &d in disps {
                v.push(Addr::Index(i, s, d));
            }
        }
    }
    for &d in disps {
        v.push(Addr::Rip(d));
    }
    v
}

#[derive(Default, Clone)]
pub struct Stat {
    pub cases: u64,
    pub encoded: u64,
    pub refused: u64,
    pub nontrivial: u64,
    pub illegal_accepted: u64,
    pub clobber: u64,
    pub notes: Vec<String>,
    /// immediates that were accepted (encoded) at least once -- the Dora twin is driven with these
    pub imm_ok: Vec<i64>,
}

struct Shard {
    name: String,
    hex: BufWriter<File>,
    txt: BufWriter<File>,
    n: usize,
}

pub struct Ctx {
    pub avx: bool,
    pub addrs: Arc<Vec<Addr>>,
    /// address domain for methods with three or more operands (reduced in the quick tier)
    pub addrs3: Arc<Vec<Addr>>,
    pub pads: Arc<Vec<usize>>,
    pub exp: String,
    pub meta: String,
    pub bytes: Vec<u8>,
    cur: usize,
    cur_name: &'static str,
    stats: Vec<Stat>,
    baseline: Option<Vec<u8>>,
    outdir: String,
    tid: usize,
    seq: usize,
    shard_size: usize,
    std: Option<Shard>,
    dir: Option<Shard>,
    line: String,
}

static HEX: &[u8; 16] = b"0123456789abcdef";

impl Ctx {
    fn begin(&mut self, idx: usize, name: &'static str, avx: bool) {
        self.cur = idx;
        self.cur_name = name;
        self.avx = avx;
        self.baseline = None;
    }

    fn encode<F: FnOnce(&mut AssemblerX64)>(avx: bool, f: F) -> Option<Vec<u8>> {
        catch_unwind(AssertUnwindSafe(move || {
            let mut a = AssemblerX64::new(avx);
            f(&mut a);
            a.finalize(1).code()
        }))
        .ok()
    }

    /// encoding of the method's all-zero operand tuple: reference point for "non-trivial" cases
    pub fn set_baseline<F: FnOnce(&mut AssemblerX64)>(&mut self, f: F) {
        self.baseline = Self::encode(self.avx, f);
    }

    /// Runs one case on a fresh assembler; false = the API refused the operands (panic).
    #[inline]
    pub fn run<F: FnOnce(&mut AssemblerX64)>(&mut self, f: F) -> bool {
        let st = &mut self.stats[self.cur];
        st.cases += 1;
        match Self::encode(self.avx, f) {
            Some(b) => {
                st.encoded += 1;
                self.bytes = b;
                true
            }
            None => {
                st.refused += 1;
                false
            }
        }
    }

    fn open(&mut self, kind: &str) -> Shard {
        let name = format!("{}{:02}_{:05}", if kind == "std" { "s" } else { "d" }, self.tid, self.seq);
        self.seq += 1;
        let p = format!("{}/{}", self.outdir, name);
        let hex = BufWriter::with_capacity(1 << 20, File::create(format!("{}.hex", p)).unwrap());
        let ext = if kind == "std" { "s" } else { "exp" };
        let txt = BufWriter::with_capacity(1 << 20, File::create(format!("{}.{}", p, ext)).unwrap());
        Shard { name, hex, txt, n: 0 }
    }

    fn close(kind: &str, sh: Option<Shard>) {
        if let Some(mut s) = sh {
            s.hex.flush().unwrap();
            s.txt.flush().unwrap();
            drop(s.hex);
            drop(s.txt);
            let out = std::io::stdout();
            let mut l = out.lock();
            writeln!(l, "SHARD {} {} {}", kind, s.name, s.n).unwrap();
            l.flush().unwrap();
        }
    }

    fn hexline(&mut self) {
        self.line.clear();
        self.line.push('[');
        for (k, b) in self.bytes.iter().enumerate() {
            if k > 0 {
                self.line.push(' ');
            }
            self.line.push_str("0x");
            self.line.push(HEX[(b >> 4) as usize] as char);
            self.line.push(HEX[(b & 15) as usize] as char);
        }
        self.line.push_str("] [0x0f 0x0b]\n");
    }

    fn count_nontrivial(&mut self) {
        match &self.baseline {
            Some(b) => {
                if *b != self.bytes {
                    self.stats[self.cur].nontrivial += 1;
                }
            }
            None => self.baseline = Some(self.bytes.clone()),
        }
    }

    #[inline]
    pub fn note_imm(&mut self, v: i64) {
        let st = &mut self.stats[self.cur];
        if !st.imm_ok.contains(&v) {
            st.imm_ok.push(v);
        }
    }

    /// Emits the current case (self.bytes, self.exp, self.meta) into the llvm-assembled comparison.
    pub fn emit(&mut self) {
        self.count_nontrivial();
        if self.std.is_none() {
            self.std = Some(self.open("std"));
        }
        self.hexline();
        let sh = self.std.as_mut().unwrap();
        sh.hex.write_all(self.line.as_bytes()).unwrap();
        writeln!(sh.txt, "{} ; ud2 # {} avx={} {}", self.exp, self.cur_name, self.avx as u8, self.meta).unwrap();
        sh.n += 1;
        if sh.n >= self.shard_size {
            Self::close("std", self.std.take());
        }
        self.exp.clear();
        self.meta.clear();
    }

    /// Emits the current case into the direct comparison (expected decoder text given verbatim).
    pub fn emit_direct(&mut self) {
        self.count_nontrivial();
        if self.dir.is_none() {
            self.dir = Some(self.open("direct"));
        }
        self.hexline();
        let sh = self.dir.as_mut().unwrap();
        sh.hex.write_all(self.line.as_bytes()).unwrap();
        writeln!(sh.txt, "{} # {} avx={} {}", self.exp, self.cur_name, self.avx as u8, self.meta).unwrap();
        sh.n += 1;
        if sh.n >= self.shard_size {
            Self::close("direct", self.dir.take());
        }
        self.exp.clear();
        self.meta.clear();
    }

    /// The API encoded an operand that is outside the instruction's legal range instead of refusing it.
    pub fn illegal(&mut self) {
        let st = &mut self.stats[self.cur];
        st.illegal_accepted += 1;
        if st.notes.len() < 5 {
            let mut h = String::new();
            for b in &self.bytes {
                let _ = write!(h, "{:02x}", b);
            }
            st.notes.push(format!("illegal-accepted avx={} {} -> {}", self.avx as u8, self.meta, h));
        }
        self.exp.clear();
        self.meta.clear();
    }

    /// Label scenarios for one binding of the non-label operands of a label-taking method.
    /// `f` issues the instruction, `fmt(exp, meta, disp)` renders expected text for displacement `disp`
    /// (= bound position - end of the instruction).
    pub fn label_cases(
        &mut self,
        f: &dyn Fn(&mut AssemblerX64, Label),
        fmt: &dyn Fn(&mut String, &mut String, i64),
        direct: bool,
    ) {
        const PRE: usize = 3;
        let pads = self.pads.clone();
        for &pad in pads.iter() {
            for scen in 0..3usize {
                let avx = self.avx;
                let n_insn = if scen == 2 { 3 } else { 1 };
                self.stats[self.cur].cases += n_insn as u64;
                let r = catch_unwind(AssertUnwindSafe(|| {
                    let mut a = AssemblerX64::new(avx);
                    let mut ranges: Vec<(usize, usize)> = Vec::new();
                    let target;
                    let fill = |a: &mut AssemblerX64, n: usize| {
                        for _ in 0..n {
                            a.emit_u8(0x90);
                        }
                    };
                    fill(&mut a, PRE);
                    match scen {
                        0 => {
                            // backward reference
                            let l = a.create_and_bind_label();
                            target = a.position();
                            fill(&mut a, pad);
                            let s = a.position();
                            f(&mut a, l);
                            ranges.push((s, a.position()));
                        }
                        1 => {
                            // forward reference
                            let l = a.create_label();
                            let s = a.position();
                            f(&mut a, l);
                            ranges.push((s, a.position()));
                            fill(&mut a, pad);
                            a.bind_label(l);
                            target = a.position();
                            fill(&mut a, 1);
                        }
                        _ => {
                            // two forward references and one backward reference to the same label
                            let l = a.create_label();
                            let s = a.position();
                            f(&mut a, l);
                            ranges.push((s, a.position()));
                            fill(&mut a, pad);
                            let s = a.position();
                            f(&mut a, l);
                            ranges.push((s, a.position()));
                            fill(&mut a, pad / 2);
                            a.bind_label(l);
                            target = a.position();
                            fill(&mut a, pad);
                            let s = a.position();
                            f(&mut a, l);
                            ranges.push((s, a.position()));
                        }
                    }
                    let code = a.finalize(1).code();
                    (code, ranges, target)
                }));
                let (code, ranges, target) = match r {
                    Ok(x) => x,
                    Err(_) => {
                        self.stats[self.cur].refused += n_insn as u64;
                        continue;
                    }
                };
                // everything outside the instructions must still be the padding
                let mut clean = true;
                let mut pos = 0usize;
                for &(s, e) in ranges.iter() {
                    if s < pos || e > code.len() || e < s {
                        clean = false;
                        break;
                    }
                    if code[pos..s].iter().any(|&b| b != 0x90) {
                        clean = false;
                    }
                    pos = e;
                }
                if clean && code[pos..].iter().any(|&b| b != 0x90) {
                    clean = false;
                }
                let scen_name = ["back", "fwd", "multi"][scen];
                if !clean {
                    let st = &mut self.stats[self.cur];
                    st.clobber += 1;
                    if st.notes.len() < 5 {
                        st.notes.push(format!("clobber avx={} scen={} pad={}", avx as u8, scen_name, pad));
                    }
                    continue;
                }
                for (k, &(s, e)) in ranges.iter().enumerate() {
                    self.stats[self.cur].encoded += 1;
                    self.bytes.clear();
                    self.bytes.extend_from_slice(&code[s..e]);
                    let disp = target as i64 - e as i64;
                    self.exp.clear();
                    self.meta.clear();
                    fmt(&mut self.exp, &mut self.meta, disp);
                    let _ = write!(self.meta, " scen={} pad={} ref={} at={} target={}", scen_name, pad, k, s, target);
                    if direct {
                        self.emit_direct();
                    } else {
                        self.emit();
                    }
                }
            }
        }
    }
}

pub struct Item {
    pub name: &'static str,
    pub run: fn(&mut Ctx, usize, usize),
    pub nparts: usize,
    /// does the all-zero operand tuple encode under this has_avx2 setting?
    pub zero: fn(bool) -> bool,
    pub has_addr: bool,
}

pub fn encodes<F: FnOnce(&mut AssemblerX64)>(avx: bool, f: F) -> bool {
    Ctx::encode(avx, f).is_some()
}

fn main() {
    let args: Vec<String> = std::env::args().collect();
    if args.len() < 6 {
        eprintln!("usage: x64drv <outdir> <quick|thorough> <threads> <shard_size> <methods csv | ->");
        std::process::exit(2);
    }
    let outdir = args[1].clone();
    let tier = args[2].clone();
    let threads: usize = args[3].parse().unwrap();
    let shard_size: usize = args[4].parse().unwrap();
    let only: Option<Vec<String>> =
        if args[5] == "-" { None } else { Some(args[5].split(',').map(|s| s.to_string()).collect()) };

    std::panic::set_hook(Box::new(|_| {}));

    let disps: Vec<i32> = if tier == "quick" {
        vec![0, 1, 128, i32::MIN]
    } else {
        vec![0, 1, -1, 127, 128, -128, -129, i32::MAX, i32::MIN]
    };
    let pads: Vec<usize> = vec![0, 1, 126, 127, 128, 129, 65536];
    let all_scales = [1u8, 2, 4, 8];
    let addrs = Arc::new(address_domain(&disps, &all_scales, &disps));
    let addrs3 = if tier == "quick" {
        Arc::new(address_domain(&disps, &[1u8, 8], &[0, 128]))
    } else {
        addrs.clone()
    };
    let pads = Arc::new(pads);

    let items = methods::ITEMS;
    // tasks: (item, avx, part); big ones first
    let mut tasks: Vec<(usize, bool, usize)> = Vec::new();
    let mut mode_list: Vec<Vec<bool>> = vec![Vec::new(); items.len()];
    for (i, it) in items.iter().enumerate() {
        if let Some(o) = &only {
            if !o.iter().any(|n| n == it.name) {
                continue;
            }
        }
        // thorough: every method under both has_avx2 settings.  quick: methods with an Address operand only
        // under the setting(s) that are not refused outright (has_avx2 = false if both work).
        let mut modes = vec![false, true];
        if tier == "quick" && it.has_addr {
            if (it.zero)(false) {
                modes = vec![false];
            } else if (it.zero)(true) {
                modes = vec![true];
            }
        }
        for &avx in modes.iter() {
            for p in 0..it.nparts {
                tasks.push((i, avx, p));
            }
        }
        mode_list[i] = modes;
    }
    tasks.sort_by_key(|t| std::cmp::Reverse(items[t.0].nparts));
    let tasks = Arc::new(tasks);
    let next = Arc::new(AtomicUsize::new(0));
    let merged: Arc<Mutex<Vec<Stat>>> = Arc::new(Mutex::new(vec![Stat::default(); items.len()]));

    let mut handles = Vec::new();
    for tid in 0..threads {
        let tasks = tasks.clone();
        let next = next.clone();
        let merged = merged.clone();
        let addrs = addrs.clone();
        let addrs3 = addrs3.clone();
        let pads = pads.clone();
        let outdir = outdir.clone();
        handles.push(
            std::thread::Builder::new()
                .stack_size(16 << 20)
                .spawn(move || {
                    let mut ctx = Ctx {
                        avx: false,
                        addrs,
                        addrs3,
                        pads,
                        exp: String::new(),
                        meta: String::new(),
                        bytes: Vec::new(),
                        cur: 0,
                        cur_name: "",
                        stats: vec![Stat::default(); methods::ITEMS.len()],
                        baseline: None,
                        outdir,
                        tid,
                        seq: 0,
                        shard_size,
                        std: None,
                        dir: None,
                        line: String::new(),
                    };
                    loop {
                        let k = next.fetch_add(1, Ordering::SeqCst);
                        if k >= tasks.len() {
                            break;
                        }
                        let (i, avx, part) = tasks[k];
                        let it = &methods::ITEMS[i];
                        ctx.begin(i, it.name, avx);
                        (it.run)(&mut ctx, part, it.nparts);
                    }
                    Ctx::close("std", ctx.std.take());
                    Ctx::close("direct", ctx.dir.take());
                    let mut m = merged.lock().unwrap();
                    for (i, s) in ctx.stats.iter().enumerate() {
                        m[i].cases += s.cases;
                        m[i].encoded += s.encoded;
                        m[i].refused += s.refused;
                        m[i].nontrivial += s.nontrivial;
                        m[i].illegal_accepted += s.illegal_accepted;
                        m[i].clobber += s.clobber;
                        for n in &s.notes {
                            if m[i].notes.len() < 5 {
                                m[i].notes.push(n.clone());
                            }
                        }
                        for v in &s.imm_ok {
                            if !m[i].imm_ok.contains(v) {
                                m[i].imm_ok.push(*v);
                            }
                        }
                    }
                })
                .unwrap(),
        );
    }
    let mut failed = false;
    for h in handles {
        if h.join().is_err() {
            failed = true;
        }
    }
    if failed {
        eprintln!("x64drv: a worker thread died");
        std::process::exit(3);
    }
    let m = merged.lock().unwrap();
    let mut js = String::from("{");
    let mut first = true;
    for (i, it) in items.iter().enumerate() {
        if m[i].cases == 0 {
            continue;
        }
        if !first {
            js.push(',');
        }
        first = false;
        let notes: Vec<String> = m[i].notes.iter().map(|n| format!("\"{}\"", n.replace('"', "'"))).collect();
        let _ = write!(
            js,
            "\"{}\":{{\"modes\":[{}],\"zero_ok\":[{},{}],\"imm_ok\":[{}],\"cases\":{},\"encoded\":{},\"refused\":{},\"nontrivial\":{},\"illegal_accepted\":{},\"clobber\":{},\"notes\":[{}]}}",
            it.name,
            mode_list[i].iter().map(|&b| if b { "1" } else { "0" }).collect::<Vec<_>>().join(","),
            (it.zero)(false),
            (it.zero)(true),
            {
                let mut v = m[i].imm_ok.clone();
                v.sort();
                v.iter().map(|x| x.to_string()).collect::<Vec<_>>().join(",")
            },
            m[i].cases,
            m[i].encoded,
            m[i].refused,
            m[i].nontrivial,
            m[i].illegal_accepted,
            m[i].clobber,
            notes.join(",")
        );
    }
    js.push('}');
    println!("SUMMARY {}", js);
}
