"""Hand-written specification table for the x86-64 assembler check (C07).

One entry per public instruction-emitting method of `AssemblerX64` (dora-asm/src/x64.rs), keyed by the
method name.  An entry is the Intel-syntax text (as understood by llvm-mc -x86-asm-syntax=intel) of the
instruction the method is REQUESTED to emit, with one placeholder `{N:kind}` per method argument
(N = position of the argument after `&mut self`).  The table is written from the Intel SDM meaning of
the method names, not from the encoder's source: the encoder is the thing under test.

Placeholder kinds (and the Rust argument type they may be bound to):
  r8 r32 r64   Register      rendered as the 8/32/64-bit name of register number N
  x            XmmRegister   xmmN
  m            Address       the bracketed memory operand (the size keyword is literal text in the template)
  i8           Immediate     8-bit operand:   legal -128..255
  i32          Immediate     32-bit operand:  legal -2^31..2^32-1
  i32s         Immediate     imm32 sign-extended to 64 bits: legal -2^31..2^31-1
  i64          Immediate     any 64-bit value
  sh           Immediate     shift count, legal -128..255, rendered modulo 256
  cc           Condition     rendered as the condition's own x86 suffix (aliases allowed: nae, z, po ...)
  u8           u8            rounding-control immediate
  lbl          Label         RIP-relative memory operand whose target is the bound label
  rel          Label         branch target (checked directly against the decoder's displacement)
  d32          i32           raw rel32 displacement (call_rel32)

The signatures are NOT in this file: they are parsed from the current source at check time and joined with
this table; a method without an entry (or whose signature no longer fits its entry) is reported as
`uncovered`.
"""
import re

SPEC = {}


def ins(name, tmpl):
    assert name not in SPEC, name
    SPEC[name] = tmpl


# ---- integer ALU, register/register -------------------------------------------------------------
for op in ("add", "and", "or", "sub", "xor"):
    ins(op + "l_rr", op + " {0:r32}, {1:r32}")
    ins(op + "q_rr", op + " {0:r64}, {1:r64}")
ins("cmpb_rr", "cmp {0:r8}, {1:r8}")
ins("cmpl_rr", "cmp {0:r32}, {1:r32}")
ins("cmpq_rr", "cmp {0:r64}, {1:r64}")
ins("testb_rr", "test {0:r8}, {1:r8}")
ins("testl_rr", "test {0:r32}, {1:r32}")
ins("testq_rr", "test {0:r64}, {1:r64}")
ins("imull_rr", "imul {0:r32}, {1:r32}")
ins("imulq_rr", "imul {0:r64}, {1:r64}")
ins("movl_rr", "mov {0:r32}, {1:r32}")
ins("movq_rr", "mov {0:r64}, {1:r64}")
ins("cmovl", "cmov{0:cc} {1:r32}, {2:r32}")
ins("cmovq", "cmov{0:cc} {1:r64}, {2:r64}")
ins("setcc_r", "set{0:cc} {1:r8}")
for op in ("lzcnt", "tzcnt", "popcnt"):
    ins(op + "l_rr", op + " {0:r32}, {1:r32}")
    ins(op + "q_rr", op + " {0:r64}, {1:r64}")

# ---- integer ALU, register/immediate ------------------------------------------------------------
ins("addl_ri", "add {0:r32}, {1:i32}")
ins("addq_ri", "add {0:r64}, {1:i32s}")
ins("andq_ri", "and {0:r64}, {1:i32s}")
ins("cmpl_ri", "cmp {0:r32}, {1:i32}")
ins("cmpq_ri", "cmp {0:r64}, {1:i32s}")
ins("subq_ri", "sub {0:r64}, {1:i32s}")
ins("xorl_ri", "xor {0:r32}, {1:i32}")
ins("testl_ri", "test {0:r32}, {1:i32}")
ins("movl_ri", "mov {0:r32}, {1:i32}")
ins("movq_ri", "mov {0:r64}, {1:i64}")

# ---- unary / stack / indirect control -----------------------------------------------------------
ins("idivl_r", "idiv {0:r32}")
ins("idivq_r", "idiv {0:r64}")
ins("negl", "neg {0:r32}")
ins("negq", "neg {0:r64}")
ins("notl", "not {0:r32}")
ins("notq", "not {0:r64}")
ins("call_r", "call {0:r64}")
ins("jmp_r", "jmp {0:r64}")
ins("pushq_r", "push {0:r64}")
ins("popq_r", "pop {0:r64}")
for op in ("rol", "ror", "sar", "shl", "shr"):
    ins(op + "l_r", op + " {0:r32}, cl")
    ins(op + "q_r", op + " {0:r64}, cl")
for op in ("sar", "shl", "shr"):
    ins(op + "l_ri", op + " {0:r32}, {1:sh}")
    ins(op + "q_ri", op + " {0:r64}, {1:sh}")

# ---- no operands --------------------------------------------------------------------------------
ins("cdq", "cdq")
ins("cqo", "cqo")
ins("int3", "int3")
ins("mfence", "mfence")
ins("nop", "nop")
ins("retq", "ret")

# ---- moves with memory --------------------------------------------------------------------------
ins("movb_ai", "mov byte ptr {0:m}, {1:i8}")
ins("movb_ar", "mov byte ptr {0:m}, {1:r8}")
ins("movb_ra", "mov {0:r8}, byte ptr {1:m}")
ins("movl_ai", "mov dword ptr {0:m}, {1:i32}")
ins("movl_ar", "mov dword ptr {0:m}, {1:r32}")
ins("movl_ra", "mov {0:r32}, dword ptr {1:m}")
ins("movq_ai", "mov qword ptr {0:m}, {1:i32s}")
ins("movq_ar", "mov qword ptr {0:m}, {1:r64}")
ins("movq_ra", "mov {0:r64}, qword ptr {1:m}")
ins("movq_rl", "mov {0:r64}, qword ptr {1:lbl}")
ins("lea", "lea {0:r64}, {1:m}")
ins("movsxbl_ra", "movsx {0:r32}, byte ptr {1:m}")
ins("movsxbl_rr", "movsx {0:r32}, {1:r8}")
ins("movsxbq_ra", "movsx {0:r64}, byte ptr {1:m}")
ins("movsxbq_rr", "movsx {0:r64}, {1:r8}")
ins("movsxlq_rr", "movsxd {0:r64}, {1:r32}")
ins("movzxb_rr", "movzx {0:r32}, {1:r8}")
ins("movzxb_ra", "movzx {0:r32}, byte ptr {1:m}")

# ---- compare / test with memory -----------------------------------------------------------------
ins("cmpb_ai", "cmp byte ptr {0:m}, {1:i8}")
ins("cmpb_ar", "cmp byte ptr {0:m}, {1:r8}")
ins("cmpl_ai", "cmp dword ptr {0:m}, {1:i32}")
ins("cmpl_ar", "cmp dword ptr {0:m}, {1:r32}")
ins("cmpq_ai", "cmp qword ptr {0:m}, {1:i32s}")
ins("cmpq_ar", "cmp qword ptr {0:m}, {1:r64}")
ins("testb_ai", "test byte ptr {0:m}, {1:i8}")
ins("testl_ai", "test dword ptr {0:m}, {1:i32}")
ins("testl_ar", "test dword ptr {0:m}, {1:r32}")
ins("testq_ai", "test qword ptr {0:m}, {1:i32s}")
ins("testq_ar", "test qword ptr {0:m}, {1:r64}")

# ---- atomics ------------------------------------------------------------------------------------
ins("cmpxchgl_ar", "cmpxchg dword ptr {0:m}, {1:r32}")
ins("cmpxchgq_ar", "cmpxchg qword ptr {0:m}, {1:r64}")
ins("lock_cmpxchgl_ar", "lock cmpxchg dword ptr {0:m}, {1:r32}")
ins("lock_cmpxchgq_ar", "lock cmpxchg qword ptr {0:m}, {1:r64}")
ins("xaddl_ar", "xadd dword ptr {0:m}, {1:r32}")
ins("xaddq_ar", "xadd qword ptr {0:m}, {1:r64}")
ins("lock_xaddl_ar", "lock xadd dword ptr {0:m}, {1:r32}")
ins("lock_xaddq_ar", "lock xadd qword ptr {0:m}, {1:r64}")
ins("xchgb_ar", "xchg byte ptr {0:m}, {1:r8}")
ins("xchgl_ar", "xchg dword ptr {0:m}, {1:r32}")
ins("xchgq_ar", "xchg qword ptr {0:m}, {1:r64}")

# ---- branches and calls -------------------------------------------------------------------------
ins("jcc", "j{0:cc} {1:rel}")
ins("jcc_near", "j{0:cc} {1:rel}")
ins("jmp", "jmp {0:rel}")
ins("jmp_near", "jmp {0:rel}")
ins("call_rel32", "call {0:d32}")

# ---- SSE ----------------------------------------------------------------------------------------
for op in ("add", "sub", "mul", "div", "sqrt"):
    ins(op + "ss_rr", op + "ss {0:x}, {1:x}")
    ins(op + "sd_rr", op + "sd {0:x}, {1:x}")
ins("cvtsd2ss_rr", "cvtsd2ss {0:x}, {1:x}")
ins("cvtss2sd_rr", "cvtss2sd {0:x}, {1:x}")
ins("cvtsi2sdd_rr", "cvtsi2sd {0:x}, {1:r32}")
ins("cvtsi2sdq_rr", "cvtsi2sd {0:x}, {1:r64}")
ins("cvtsi2ssd_rr", "cvtsi2ss {0:x}, {1:r32}")
ins("cvtsi2ssq_rr", "cvtsi2ss {0:x}, {1:r64}")
ins("cvttsd2sid_rr", "cvttsd2si {0:r32}, {1:x}")
ins("cvttsd2siq_rr", "cvttsd2si {0:r64}, {1:x}")
ins("cvttss2sid_rr", "cvttss2si {0:r32}, {1:x}")
ins("cvttss2siq_rr", "cvttss2si {0:r64}, {1:x}")
ins("movd_rx", "movd {0:r32}, {1:x}")
ins("movd_xr", "movd {0:x}, {1:r32}")
ins("movq_rx", "movq {0:r64}, {1:x}")
ins("movq_xr", "movq {0:x}, {1:r64}")
ins("movss_rr", "movss {0:x}, {1:x}")
ins("movss_ra", "movss {0:x}, dword ptr {1:m}")
ins("movss_ar", "movss dword ptr {0:m}, {1:x}")
ins("movss_rl", "movss {0:x}, dword ptr {1:lbl}")
ins("movsd_rr", "movsd {0:x}, {1:x}")
ins("movsd_ra", "movsd {0:x}, qword ptr {1:m}")
ins("movsd_ar", "movsd qword ptr {0:m}, {1:x}")
ins("movsd_rl", "movsd {0:x}, qword ptr {1:lbl}")
ins("movaps_ar", "movaps xmmword ptr {0:m}, {1:x}")
ins("movups_ar", "movups xmmword ptr {0:m}, {1:x}")
ins("andps_ra", "andps {0:x}, xmmword ptr {1:m}")
ins("andps_rl", "andps {0:x}, xmmword ptr {1:lbl}")
ins("xorps_rr", "xorps {0:x}, {1:x}")
ins("xorps_ra", "xorps {0:x}, xmmword ptr {1:m}")
ins("xorps_rl", "xorps {0:x}, xmmword ptr {1:lbl}")
ins("xorpd_ra", "xorpd {0:x}, xmmword ptr {1:m}")
ins("xorpd_rl", "xorpd {0:x}, xmmword ptr {1:lbl}")
ins("pxor_rr", "pxor {0:x}, {1:x}")
ins("ucomiss_rr", "ucomiss {0:x}, {1:x}")
ins("ucomisd_rr", "ucomisd {0:x}, {1:x}")
ins("roundss_ri", "roundss {0:x}, {1:x}, {2:u8}")
ins("roundsd_ri", "roundsd {0:x}, {1:x}, {2:u8}")

# ---- AVX ----------------------------------------------------------------------------------------
for op in ("add", "sub", "mul", "div", "sqrt"):
    ins("v" + op + "ss_rr", "v" + op + "ss {0:x}, {1:x}, {2:x}")
    ins("v" + op + "sd_rr", "v" + op + "sd {0:x}, {1:x}, {2:x}")
ins("vcvtsd2ss_rr", "vcvtsd2ss {0:x}, {1:x}, {2:x}")
ins("vcvtss2sd_rr", "vcvtss2sd {0:x}, {1:x}, {2:x}")
ins("vcvtsi2sdd_rr", "vcvtsi2sd {0:x}, {1:x}, {2:r32}")
ins("vcvtsi2sdq_rr", "vcvtsi2sd {0:x}, {1:x}, {2:r64}")
ins("vcvtsi2ssd_rr", "vcvtsi2ss {0:x}, {1:x}, {2:r32}")
ins("vcvtsi2ssq_rr", "vcvtsi2ss {0:x}, {1:x}, {2:r64}")
ins("vcvttsd2sid_rr", "vcvttsd2si {0:r32}, {1:x}")
ins("vcvttsd2siq_rr", "vcvttsd2si {0:r64}, {1:x}")
ins("vcvttss2sid_rr", "vcvttss2si {0:r32}, {1:x}")
ins("vcvttss2siq_rr", "vcvttss2si {0:r64}, {1:x}")
ins("vmovapd_rr", "vmovapd {0:x}, {1:x}")
ins("vmovaps_rr", "vmovaps {0:x}, {1:x}")
ins("vmovd_rx", "vmovd {0:r32}, {1:x}")
ins("vmovd_xr", "vmovd {0:x}, {1:r32}")
ins("vmovq_rx", "vmovq {0:r64}, {1:x}")
ins("vmovq_xr", "vmovq {0:x}, {1:r64}")
ins("vmovss_rr", "vmovss {0:x}, {1:x}, {2:x}")
ins("vmovss_ra", "vmovss {0:x}, dword ptr {1:m}")
ins("vmovss_ar", "vmovss dword ptr {0:m}, {1:x}")
ins("vmovss_rl", "vmovss {0:x}, dword ptr {1:lbl}")
ins("vmovsd_rr", "vmovsd {0:x}, {1:x}, {2:x}")
ins("vmovsd_ra", "vmovsd {0:x}, qword ptr {1:m}")
ins("vmovsd_ar", "vmovsd qword ptr {0:m}, {1:x}")
ins("vmovsd_rl", "vmovsd {0:x}, qword ptr {1:lbl}")
ins("vandps_ra", "vandps {0:x}, {1:x}, xmmword ptr {2:m}")
ins("vandps_rl", "vandps {0:x}, {1:x}, xmmword ptr {2:lbl}")
ins("vandpd_ra", "vandpd {0:x}, {1:x}, xmmword ptr {2:m}")
ins("vandpd_rl", "vandpd {0:x}, {1:x}, xmmword ptr {2:lbl}")
ins("vxorps_rr", "vxorps {0:x}, {1:x}, {2:x}")
ins("vxorps_ra", "vxorps {0:x}, {1:x}, xmmword ptr {2:m}")
ins("vxorps_rl", "vxorps {0:x}, {1:x}, xmmword ptr {2:lbl}")
ins("vxorpd_ra", "vxorpd {0:x}, {1:x}, xmmword ptr {2:m}")
ins("vxorpd_rl", "vxorpd {0:x}, {1:x}, xmmword ptr {2:lbl}")
ins("vucomiss_rr", "vucomiss {0:x}, {1:x}")
ins("vucomisd_rr", "vucomisd {0:x}, {1:x}")
ins("vroundss_ri", "vroundss {0:x}, {1:x}, {2:x}, {3:u8}")
ins("vroundsd_ri", "vroundsd {0:x}, {1:x}, {2:x}, {3:u8}")

# ---- methods that exist only in the Dora twin (pkgs/boots/assembler/x64.dora) ---------------------
# value: (template, has_avx2 settings under which the method is expected to work, immediates to drive it with)
DORA_ONLY = {
    "negl_r": ("neg {0:r32}", (False, True), None),
    "negq_r": ("neg {0:r64}", (False, True), None),
    "notl_r": ("not {0:r32}", (False, True), None),
    "notq_r": ("not {0:r64}", (False, True), None),
    "movb_rr": ("mov {0:r8}, {1:r8}", (False, True), None),
    "movaps_rr": ("movaps {0:x}, {1:x}", (False,), None),
    "orq_ri": ("or {0:r64}, {1:i32s}", (False, True),
               [0, 1, -1, 127, 128, -128, -129, 255, 256, 32767, 32768, -32768, -32769, 65535, 65536,
                2147483647, -2147483648]),
    "xorb_ri": ("xor {0:r8}, {1:i8}", (False, True), [0, 1, -1, 127, 128, -128, 255]),
    "vmovupd_ar": ("vmovupd xmmword ptr {0:m}, {1:x}", (True,), None),
    "vmovups_ar": ("vmovups xmmword ptr {0:m}, {1:x}", (True,), None),
}
DORA_NON_INSTRUCTION = {
    "new", "create_label", "bind_label", "create_and_bind_label", "position", "set_position", "set_position_end",
    "emit_int32", "emit_int64", "size", "finalize", "align_code_size", "finalize_testing", "resolve_jumps",
}
DORA_TYPES = {"Register": "Register", "FloatRegister": "XmmRegister", "Address": "Address",
              "Immediate": "Immediate", "Condition": "Condition", "Label": "Label", "UInt8": "u8", "Int32": "i32"}
# label-taking methods that only have the rel8 form (out-of-range targets are refused)
SHORT_ONLY = {"jcc_near", "jmp_near"}

# Public methods of the assembler that do not emit an instruction (buffer / label plumbing).
NON_INSTRUCTION = {
    "new", "create_label", "create_and_bind_label", "bind_label", "offset", "finalize", "align_to",
    "position", "set_position", "set_position_end", "emit_u8", "emit_u32", "emit_u64", "emit_u128",
}

# Condition variant -> its own x86 condition suffix (by the meaning of the variant's NAME).
CONDITION_SUFFIX = {
    "Overflow": "o", "NoOverflow": "no",
    "Below": "b", "NeitherAboveNorEqual": "nae", "NotBelow": "nb", "AboveOrEqual": "ae",
    "Equal": "e", "Zero": "z", "NotEqual": "ne", "NotZero": "nz",
    "BelowOrEqual": "be", "NotAbove": "na", "NeitherBelowNorEqual": "nbe", "Above": "a",
    "Sign": "s", "NoSign": "ns",
    "Parity": "p", "ParityEven": "pe", "NoParity": "np", "ParityOdd": "po",
    "Less": "l", "NeitherGreaterNorEqual": "nge", "NotLess": "nl", "GreaterOrEqual": "ge",
    "LessOrEqual": "le", "NotGreater": "ng", "NeitherLessNorEqual": "nle", "Greater": "g",
}
# suffix -> the spelling LLVM's printer uses (only needed where the decoder text is checked directly)
CANONICAL_CC = {
    "o": "o", "no": "no", "b": "b", "nae": "b", "c": "b", "nb": "ae", "ae": "ae", "nc": "ae",
    "e": "e", "z": "e", "ne": "ne", "nz": "ne", "be": "be", "na": "be", "nbe": "a", "a": "a",
    "s": "s", "ns": "ns", "p": "p", "pe": "p", "np": "np", "po": "np",
    "l": "l", "nge": "l", "nl": "ge", "ge": "ge", "le": "le", "ng": "le", "nle": "g", "g": "g",
}

# which Rust argument type each placeholder kind may be bound to
KIND_TYPE = {
    "r8": "Register", "r32": "Register", "r64": "Register", "x": "XmmRegister", "m": "Address",
    "i8": "Immediate", "i32": "Immediate", "i32s": "Immediate", "i64": "Immediate", "sh": "Immediate",
    "cc": "Condition", "u8": "u8", "lbl": "Label", "rel": "Label", "d32": "i32",
}

PLACEHOLDER = re.compile(r"\{(\d+):(\w+)\}")


def parse_signatures(src_text):
    """[(name, [(argname, type)])] of every `pub fn` inside `impl AssemblerX64` blocks."""
    out = []
    # isolate impl AssemblerX64 { ... } blocks by brace matching
    for m in re.finditer(r"^impl\s+AssemblerX64\s*\{", src_text, re.M):
        i = m.end()
        depth = 1
        while depth and i < len(src_text):
            ch = src_text[i]
            if ch == "{":
                depth += 1
            elif ch == "}":
                depth -= 1
            i += 1
        block = src_text[m.end():i]
        for f in re.finditer(r"pub\s+fn\s+(\w+)\s*\(([^)]*)\)", block, re.S):
            name, params = f.group(1), f.group(2)
            args = []
            parts = [p.strip() for p in params.split(",") if p.strip()]
            has_self = bool(parts) and re.fullmatch(r"(&\s*)?(mut\s+)?self", parts[0]) is not None
            if has_self:
                parts = parts[1:]
            for p in parts:
                an, _, ty = p.partition(":")
                args.append((an.strip(), ty.strip()))
            out.append((name, args, has_self))
    return out


def parse_conditions(src_text):
    m = re.search(r"pub\s+enum\s+Condition\s*\{([^}]*)\}", src_text, re.S)
    if not m:
        return []
    return [v.strip() for v in m.group(1).split(",") if v.strip()]


def _join(sigs, spec, non_instruction):
    covered, uncovered, non_instr = [], [], []
    seen = set()
    for name, args, has_self in sigs:
        if name in seen:
            uncovered.append((name, "declared twice"))
            continue
        seen.add(name)
        if name in non_instruction:
            non_instr.append(name)
            continue
        if name not in spec:
            uncovered.append((name, "no spec entry"))
            continue
        tmpl = spec[name]
        ph = [(int(a), k) for a, k in PLACEHOLDER.findall(tmpl)]
        used = sorted(a for a, _ in ph)
        problem = None
        if used != list(range(len(args))):
            problem = "signature has %d arguments, spec binds %s" % (len(args), used)
        else:
            for a, k in ph:
                if k not in KIND_TYPE:
                    problem = "unknown placeholder kind " + k
                elif KIND_TYPE[k] != args[a][1]:
                    problem = "argument %d is %s, spec expects %s" % (a, args[a][1], KIND_TYPE[k])
        if problem:
            uncovered.append((name, "signature mismatch: " + problem))
            continue
        covered.append((name, args, tmpl, ph))
    return covered, uncovered, non_instr, seen


def join(src_text):
    """Join the signatures parsed from dora-asm/src/x64.rs with SPEC.  Returns
    (covered, uncovered, non_instruction, conditions, spec entries without a method)
    covered: [(name, args, template, [(argidx, kind)])]; uncovered: [(name, reason)]."""
    covered, uncovered, non_instr, seen = _join(parse_signatures(src_text), SPEC, NON_INSTRUCTION)
    stale = sorted(set(SPEC) - seen)
    conds = parse_conditions(src_text)
    for c in conds:
        if c not in CONDITION_SUFFIX:
            uncovered.append(("Condition::" + c, "no suffix in spec"))
    return covered, uncovered, non_instr, [c for c in conds if c in CONDITION_SUFFIX], stale


def parse_dora_signatures(src_text):
    """[(name, [(argname, normalised type)], True)] of every `pub fn` in `impl AssemblerX64` of x64.dora."""
    out = []
    for m in re.finditer(r"^impl\s+AssemblerX64\s*\{", src_text, re.M):
        i = m.end()
        depth = 1
        while depth and i < len(src_text):
            ch = src_text[i]
            if ch == "{":
                depth += 1
            elif ch == "}":
                depth -= 1
            i += 1
        block = src_text[m.end():i]
        for f in re.finditer(r"pub\s+(static\s+)?fn\s+(\w+)\s*\(([^)]*)\)", block, re.S):
            name, params = f.group(2), f.group(3)
            args = []
            for p in [p.strip() for p in params.split(",") if p.strip()]:
                an, _, ty = p.partition(":")
                ty = ty.strip()
                args.append((an.strip(), DORA_TYPES.get(ty, ty)))
            out.append((name, args, True))
    return out


def join_dora(src_text):
    spec = dict(SPEC)
    for k, v in DORA_ONLY.items():
        spec[k] = v[0]
    covered, uncovered, non_instr, seen = _join(parse_dora_signatures(src_text), spec, DORA_NON_INSTRUCTION)
    conds = parse_conditions(src_text)
    for c in conds:
        if c not in CONDITION_SUFFIX:
            uncovered.append(("Condition::" + c, "no suffix in spec"))
    return covered, uncovered, non_instr, [c for c in conds if c in CONDITION_SUFFIX]
