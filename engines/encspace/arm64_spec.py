"""C08 -- hand-written spec table for the AArch64 assemblers (keyed by method name).

Every entry says, for one public method of `AssemblerArm64`
  * text   : the instruction REQUESTED by a call, as an assembly template over the operand slots
             ({fmt:i} / {fmt:i,j}: formatter fmt applied to operand slot(s); formatters live in
             arm64_driver_main.rs as f_<fmt>),
  * valid  : Rust boolean expressions over `o` (operand slots as i64) -- the operand values that ARE
             encodable according to the Arm ARM (my reading, independent of dora's asserts).  Register
             legality (zr/sp) is not in here: llvm-mc decides it on the text,
  * alts   : other texts whose encoding is accepted as well (same architectural effect; recorded),
  * doms   : per operand slot an explicit value domain (full, boundary) for immediates; register,
             neon-register and enum slots get their domain from the parameter type,
  * kind   : 0 = one instruction, compared bit-exactly with llvm-mc;  1 = sequence / label branch /
             helper predicate: executed and dumped by the driver, checked semantically in arm64_sem.py.

Operand slots follow the parameter list of the method in the CURRENT source (MemOperand = 2 slots:
base, offset; Label = 1 slot: signed byte distance from the instruction to the bound position).
Register slots hold 0..30 = R0..R30, 31 = REG_ZERO, 32 = REG_SP.
"""


class Dom:
    def __init__(self, full, bnd=None):
        self.full = sorted(set(full))
        self.bnd = sorted(set(bnd if bnd is not None else full))
        assert set(self.bnd) <= set(self.full)


class Spec:
    def __init__(self, text, valid=(), alts=(), doms=None, kind=0, call=None, sig=None, note=None):
        self.text = text
        self.valid = list(valid)
        self.alts = list(alts)
        self.doms = dict(doms or {})
        self.kind = kind
        self.call = call      # Rust expression for pseudo methods (free functions)
        self.sig = sig        # parameter types of pseudo methods
        self.note = note


SPEC = {}

# helpers that are not instructions (constructors, label/buffer management, raw data emission)
NON_INSTRUCTION = {
    "new", "create_label", "create_and_bind_label", "bind_label", "offset", "finalize", "align_to",
    "position", "set_position", "set_position_end", "emit_u8", "emit_u32", "emit_u64", "emit_u128",
}
# public items outside `impl AssemblerArm64` that are operand constructors / accessors; exercised by
# every case (Register::new, NeonRegister::new, MemOperand::new) or through cset (Cond::invert)
NON_INSTRUCTION_OTHER = {
    "Register::new", "NeonRegister::new", "MemOperand::new", "MemOperand::offset",
    "Cond::invert", "Cond::u32", "Shift::u32",
}


def rng(i, lo, hi):
    return "(%d..=%d).contains(&o[%d])" % (lo, hi, i)


def mult(i, k):
    return "o[%d] %% %d == 0" % (i, k)


def around(lo, hi, extra=()):
    """boundary values of an inclusive range with their non-encodable neighbours"""
    s = {lo - 1, lo, lo + 1, hi - 1, hi, hi + 1, 0, 1}
    s |= set(extra)
    return s


def R(lo, hi):
    return list(range(lo, hi + 1))


# ------------------------------------------------------------------------------------------------
# data processing, three registers

for name, mn in [("asrv", "asr"), ("lsl", "lsl"), ("lsr", "lsr"), ("ror", "ror"), ("sdiv", "sdiv"),
                 ("udiv", "udiv"), ("mul", "mul"), ("adds", "adds"), ("subs", "subs"),
                 ("add", "add"), ("sub", "sub")]:
    SPEC[name] = Spec("%s {x:0}, {x:1}, {x:2}" % mn)
    SPEC[name + "_w"] = Spec("%s {w:0}, {w:1}, {w:2}" % mn)
# `add wsp, w1, w2`: option 0b011 (UXTX) on a 32-bit add has the architectural effect of option 0b010
# (both take Wm unchanged); llvm prefers 0b010.  Accepted as equivalent, recorded.
SPEC["add_w"].alts = ["add {w:0}, {w:1}, {w:2}, uxtx"]
SPEC["smulh"] = Spec("smulh {x:0}, {x:1}, {x:2}")
SPEC["smull"] = Spec("smull {x:0}, {w:1}, {w:2}")
for name in ("madd", "msub"):
    SPEC[name] = Spec("%s {x:0}, {x:1}, {x:2}, {x:3}" % name)
    SPEC[name + "_w"] = Spec("%s {w:0}, {w:1}, {w:2}, {w:3}" % name)
SPEC["smaddl"] = Spec("smaddl {x:0}, {w:1}, {w:2}, {x:3}")

for name in ("cls", "clz", "rbit", "rev"):
    SPEC[name] = Spec("%s {x:0}, {x:1}" % name)
    SPEC[name + "_w"] = Spec("%s {w:0}, {w:1}" % name)
SPEC["sxtw"] = Spec("sxtw {x:0}, {w:1}")
SPEC["uxtb"] = Spec("uxtb {w:0}, {w:1}")
SPEC["uxtw"] = Spec("ubfx {x:0}, {x:1}, #0, #32")
SPEC["mov"] = Spec("mov {x:0}, {x:1}")
SPEC["mov_w"] = Spec("mov {w:0}, {w:1}")
SPEC["cmp"] = Spec("cmp {x:0}, {x:1}")
SPEC["cmp_w"] = Spec("cmp {w:0}, {w:1}")

for name in ("csel", "csinc", "csinv"):
    SPEC[name] = Spec("%s {x:0}, {x:1}, {x:2}, {c:3}" % name)
    SPEC[name + "_w"] = Spec("%s {w:0}, {w:1}, {w:2}, {c:3}" % name)
SPEC["cset"] = Spec("cset {x:0}, {c:1}")
SPEC["cset_w"] = Spec("cset {w:0}, {c:1}")

# ------------------------------------------------------------------------------------------------
# shifted register forms

AMT64 = Dom(R(0, 64), [0, 1, 15, 16, 31, 32, 63, 64])
AMT32 = Dom(R(0, 64), [0, 1, 15, 16, 31, 32, 33, 63, 64])
for name in ("add_sh", "adds_sh", "sub_sh", "subs_sh"):
    mn = name[:-3]
    SPEC[name] = Spec("%s {x:0}, {x:1}, {x:2}, {sh:3} {i:4}" % mn,
                      valid=['!sh_is(o[3], "ROR")', rng(4, 0, 63)], doms={4: AMT64})
    SPEC[name + "_w"] = Spec("%s {w:0}, {w:1}, {w:2}, {sh:3} {i:4}" % mn,
                             valid=['!sh_is(o[3], "ROR")', rng(4, 0, 31)], doms={4: AMT32})
SPEC["cmp_sh"] = Spec("cmp {x:0}, {x:1}, {sh:2} {i:3}", valid=['!sh_is(o[2], "ROR")', rng(3, 0, 63)], doms={3: AMT64})
SPEC["cmp_sh_w"] = Spec("cmp {w:0}, {w:1}, {sh:2} {i:3}", valid=['!sh_is(o[2], "ROR")', rng(3, 0, 31)], doms={3: AMT32})
for name in ("and_sh", "ands_sh", "bic_sh", "bics_sh", "eon_sh", "eor_sh", "orn_sh", "orr_sh"):
    mn = name[:-3]
    SPEC[name] = Spec("%s {x:0}, {x:1}, {x:2}, {sh:3} {i:4}" % mn, valid=[rng(4, 0, 63)], doms={4: AMT64})
    SPEC[name + "_w"] = Spec("%s {w:0}, {w:1}, {w:2}, {sh:3} {i:4}" % mn, valid=[rng(4, 0, 31)], doms={4: AMT32})

# ------------------------------------------------------------------------------------------------
# extended register forms (amount 0..4)

EXTAMT = Dom(R(0, 5) + [7, 8])
for name in ("add_ext", "sub_ext", "subs_ext"):
    mn = name[:-4]
    # 64-bit: `lsl` in the extended-register form is the alias of UXTX (option 0b011)
    SPEC[name] = Spec("%s {x:0}, {x:1}, {rmx:2,3}, {ex:3} {i:4}" % mn, valid=[rng(4, 0, 4)], doms={4: EXTAMT},
                      alts=["%s {x:0}, {x:1}, {rmx:2,3}, {exl64:3} {i:4}" % mn])
    # 32-bit: `lsl` is the alias of UXTW (option 0b010); without wsp llvm picks the shifted-register
    # form for `lsl`, the extended-register word with UXTW has the same effect
    SPEC[name + "_w"] = Spec("%s {w:0}, {w:1}, {w:2}, {ex:3} {i:4}" % mn, valid=[rng(4, 0, 4)], doms={4: EXTAMT},
                             alts=["%s {w:0}, {w:1}, {w:2}, {exl32:3} {i:4}" % mn])
SPEC["cmp_ext"] = Spec("cmp {x:0}, {rmx:1,2}, {ex:2} {i:3}", valid=[rng(3, 0, 4)], doms={3: EXTAMT},
                       alts=["cmp {x:0}, {rmx:1,2}, {exl64:2} {i:3}"])
SPEC["cmp_ext_w"] = Spec("cmp {w:0}, {w:1}, {ex:2} {i:3}", valid=[rng(3, 0, 4)], doms={3: EXTAMT},
                         alts=["cmp {w:0}, {w:1}, {exl32:2} {i:3}"])

# ------------------------------------------------------------------------------------------------
# add/sub immediate: imm12 or imm12 << 12

ASIMM = Dom([0, 1, 2, 0x7ff, 0x800, 0xffe, 0xfff, 0x1000, 0x1001, 0x1fff, 0x2000, 0x3000, 0x7ff000, 0x800000,
             0xffe000, 0xfff000, 0xfff001, 0xfff800, 0x1000000, 0x1001000, 0x80000000, 0xfffff000, 0xffffffff,
             4096 * 4095, 4096 * 4095 + 1, 4096 * 4095 - 1, 4096 * 4096],
            [0, 1, 0xfff, 0x1000, 0x1001, 4096 * 4095, 4096 * 4095 + 1, 4096 * 4096, 0xffffffff])
ASVALID = "(o[%d] >= 0 && o[%d] < 4096) || (o[%d] & 0xfff == 0 && (o[%d] >> 12) >= 0 && (o[%d] >> 12) < 4096)"
for name in ("add_imm", "adds_imm", "sub_imm", "subs_imm"):
    mn = name[:-4]
    SPEC[name] = Spec("%s {x:0}, {x:1}, {asi:2}" % mn, valid=[ASVALID % (2, 2, 2, 2, 2)], doms={2: ASIMM})
    SPEC[name + "_w"] = Spec("%s {w:0}, {w:1}, {asi:2}" % mn, valid=[ASVALID % (2, 2, 2, 2, 2)], doms={2: ASIMM})
for name in ("cmn_imm", "cmp_imm"):
    mn = name[:-4]
    SPEC[name] = Spec("%s {x:0}, {asi:1}" % mn, valid=[ASVALID % (1, 1, 1, 1, 1)], doms={1: ASIMM})
    SPEC[name + "_w"] = Spec("%s {w:0}, {asi:1}" % mn, valid=[ASVALID % (1, 1, 1, 1, 1)], doms={1: ASIMM})


# ------------------------------------------------------------------------------------------------
# logical immediates: the complete set of encodable bitmask immediates, by enumerating the decoder
# (DecodeBitMasks of the Arm ARM) over every (N, immr, imms) that is not reserved.

def _ror(v, r, size):
    r %= size
    m = (1 << size) - 1
    return ((v >> r) | (v << (size - r))) & m


def bitmask_immediates(regsize):
    out = set()
    size = 2
    while size <= regsize:
        for ones in range(1, size):
            for rot in range(size):
                elem = _ror((1 << ones) - 1, rot, size)
                v = 0
                for k in range(regsize // size):
                    v |= elem << (k * size)
                out.add(v)
        size *= 2
    return sorted(out)


BITMASK64 = bitmask_immediates(64)
BITMASK32 = bitmask_immediates(32)
assert len(BITMASK64) == 5334 and len(BITMASK32) == 1302

M64 = (1 << 64) - 1


def _signed(v):
    v &= M64
    return v - (1 << 64) if v >> 63 else v


def logical_domain(regsize):
    enc = BITMASK64 if regsize == 64 else BITMASK32
    s = set(enc)
    for v in enc:
        s.add((v + 1) & M64)
        s.add((v - 1) & M64)
    s |= {0, M64, 0xffffffff, 1 << 32, (1 << 32) - 2, 0x100000001, 0x5555555555555555, 0xaaaaaaaaaaaaaaaa}
    if regsize == 32:
        # values that only fit 64 bits must be refused by the w form
        for v in BITMASK32[:: 7] + [1, 0x55555555, 0xffff0000]:
            s.add(v | (v << 32))
            s.add(v | (1 << 32))
            s.add(v | (1 << 63))
    bnd = {0, 1, 2, 3, 5, 6, 7, 0xff, 0x100, 0xffff, 0x5555555555555555, 0xaaaaaaaaaaaaaaaa, 0x3333333333333333,
           0x5555555555555554, M64, M64 - 1, 1 << 63, (1 << 63) - 1, 0xffffffff, 0xfffffffe, 0x7fffffff, 0x80000000,
           1 << 32, 0x100000001, 0x8000000000000001, 0xffff0000ffff0000, 0x0f0f0f0f0f0f0f0f, 0xe0000000000000ff,
           0x55555555, 0xaaaaaaaa, 0x80000001}
    s |= bnd
    return Dom([_signed(v) for v in s], [_signed(v) for v in bnd])


SPEC["and_imm"] = Spec("and {x:0}, {x:1}, {hx:2}", valid=["is_bitmask64(o[2])"], doms={2: logical_domain(64)})
SPEC["and_imm_w"] = Spec("and {w:0}, {w:1}, {hx:2}", valid=["is_bitmask32(o[2])"], doms={2: logical_domain(32)})

# ------------------------------------------------------------------------------------------------
# move wide, bit field

IMM16 = Dom(R(0, 0x10000) + [0xffffffff, 0x80000000, 0x1ffff], [0, 1, 0x7fff, 0x8000, 0xffff, 0x10000, 0xffffffff])
HW = Dom([0, 1, 8, 15, 16, 17, 31, 32, 33, 47, 48, 49, 63, 64, 80])
for name in ("movn", "movz", "movk"):
    SPEC[name] = Spec("%s {x:0}, {i:1}, lsl {i:2}" % name, valid=[rng(1, 0, 0xffff), mult(2, 16), rng(2, 0, 48)],
                      doms={1: IMM16, 2: HW})
    SPEC[name + "_w"] = Spec("%s {w:0}, {i:1}, lsl {i:2}" % name, valid=[rng(1, 0, 0xffff), mult(2, 16), rng(2, 0, 16)],
                             doms={1: IMM16, 2: HW})
BF64 = Dom(R(0, 65), [0, 1, 31, 32, 62, 63, 64])
BF32 = Dom(R(0, 65), [0, 1, 30, 31, 32, 33, 63, 64])
for name in ("bfm", "sbfm", "ubfm"):
    SPEC[name] = Spec("%s {x:0}, {x:1}, {i:2}, {i:3}" % name, valid=[rng(2, 0, 63), rng(3, 0, 63)], doms={2: BF64, 3: BF64})
    SPEC[name + "_w"] = Spec("%s {w:0}, {w:1}, {i:2}, {i:3}" % name, valid=[rng(2, 0, 31), rng(3, 0, 31)],
                             doms={2: BF32, 3: BF32})
SHIMM = Dom(R(0, 66) + [0xffffffff, 0x80000000, 127, 128])
for name in ("lsl_imm", "lsr_imm"):
    mn = name[:-4]
    SPEC[name] = Spec("%s {x:0}, {x:1}, {i:2}" % mn, valid=[rng(2, 0, 63)], doms={2: SHIMM})
    SPEC[name + "_w"] = Spec("%s {w:0}, {w:1}, {i:2}" % mn, valid=[rng(2, 0, 31)], doms={2: SHIMM})

# ------------------------------------------------------------------------------------------------
# branches, system

SPEC["b_r"] = Spec("br {x:0}")
SPEC["bl_r"] = Spec("blr {x:0}")
SPEC["ret"] = Spec("ret {x:0}")


def simm(bits):
    lo, hi = -(1 << (bits - 1)), (1 << (bits - 1)) - 1
    full = around(lo, hi, [-1, 2, -2, 3, 4, 5, 7, 8, lo // 2, hi // 2, 2 * hi + 1, 2 * hi + 2, 2 * lo, 2 * lo - 1,
                           (1 << 31) - 1, -(1 << 31)])
    for k in range(bits + 2):
        full |= {1 << k, (1 << k) - 1, -(1 << k), -(1 << k) - 1}
    full = {v for v in full if -(1 << 31) <= v < (1 << 31)}
    return Dom(full, around(lo, hi, [-1]))


SPEC["bl_imm"] = Spec("bl {i4:0}", valid=[rng(0, -(1 << 25), (1 << 25) - 1)], doms={0: simm(26)})
for name in ("cbz_imm", "cbnz_imm"):
    mn = name[:-4]
    SPEC[name] = Spec("%s {x:0}, {i4:1}" % mn, valid=[rng(1, -(1 << 18), (1 << 18) - 1)], doms={1: simm(19)})
    SPEC[name + "_w"] = Spec("%s {w:0}, {i4:1}" % mn, valid=[rng(1, -(1 << 18), (1 << 18) - 1)], doms={1: simm(19)})
SPEC["adr_imm"] = Spec("adr {x:0}, {i:1}", valid=[rng(1, -(1 << 20), (1 << 20) - 1)], doms={1: simm(21)})
SPEC["adrp_imm"] = Spec("adrp {x:0}, {i4096:1}", valid=[rng(1, -(1 << 20), (1 << 20) - 1)], doms={1: simm(21)})
SPEC["brk"] = Spec("brk {i:0}", valid=[rng(0, 0, 0xffff)], doms={0: IMM16})
SPEC["dmb"] = Spec("dmb {i:0}", valid=[rng(0, 0, 15)], doms={0: Dom(R(0, 17) + [31, 32, 255, 0xffffffff])})
SPEC["dmb_ish"] = Spec("dmb ish")
SPEC["dmb_ishst"] = Spec("dmb ishst")
SPEC["nop"] = Spec("nop")
SPEC["cls::uncond_branch_imm"] = Spec(
    "{bop:0} {i4:1}", valid=[rng(0, 0, 1), rng(1, -(1 << 25), (1 << 25) - 1)],
    doms={0: Dom([0, 1, 2, 3]), 1: simm(26)}, sig=["u32", "i32"],
    call="cls::uncond_branch_imm(o[0] as u32, o[1] as i32).to_le_bytes().to_vec()")

# ------------------------------------------------------------------------------------------------
# floating point / simd

for op in ("fadd", "fsub", "fmul", "fdiv"):
    SPEC[op + "_s"] = Spec("%s {s:0}, {s:1}, {s:2}" % op)
    SPEC[op + "_d"] = Spec("%s {d:0}, {d:1}, {d:2}" % op)
for op in ("fcmp", "fcmpe", "fmov", "fabs", "fneg", "frintn", "frintp", "frintm", "frintz", "frinta", "fsqrt"):
    SPEC[op + "_s"] = Spec("%s {s:0}, {s:1}" % op)
    SPEC[op + "_d"] = Spec("%s {d:0}, {d:1}" % op)
SPEC["fcvt_ds"] = Spec("fcvt {d:0}, {s:1}")     # single -> double (type=single, opc=double)
SPEC["fcvt_sd"] = Spec("fcvt {s:0}, {d:1}")
SPEC["fcvtzs_d"] = Spec("fcvtzs {x:0}, {d:1}")
SPEC["fcvtzs_s"] = Spec("fcvtzs {x:0}, {s:1}")
SPEC["fcvtzs_wd"] = Spec("fcvtzs {w:0}, {d:1}")
SPEC["fcvtzs_ws"] = Spec("fcvtzs {w:0}, {s:1}")
SPEC["fmov_fs_d"] = Spec("fmov {d:0}, {x:1}")
SPEC["fmov_fs_s"] = Spec("fmov {s:0}, {w:1}")
SPEC["fmov_sf_d"] = Spec("fmov {x:0}, {d:1}")
SPEC["fmov_sf_s"] = Spec("fmov {w:0}, {s:1}")
SPEC["scvtf_si_dw"] = Spec("scvtf {d:0}, {w:1}")
SPEC["scvtf_si_dx"] = Spec("scvtf {d:0}, {x:1}")
SPEC["scvtf_si_sw"] = Spec("scvtf {s:0}, {w:1}")
SPEC["scvtf_si_sx"] = Spec("scvtf {s:0}, {x:1}")
QD = Dom([0, 1, 2, 3])
SZ = Dom([0, 1, 2, 3, 4, 5])
SPEC["addv"] = Spec("addv {scl:1}{n:2}, {v:3}.{arr:0,1}",
                    valid=[rng(0, 0, 1), "(o[1] == 0 || o[1] == 1 || (o[1] == 2 && o[0] == 1))"], doms={0: QD, 1: SZ})
SPEC["cnt"] = Spec("cnt {v:2}.{arr:0,1}, {v:3}.{arr:0,1}", valid=[rng(0, 0, 1), "o[1] == 0"], doms={0: QD, 1: SZ})

# ------------------------------------------------------------------------------------------------
# atomics, exclusives, acquire/release

for base in ("cas", "casa", "casal", "casl", "ldadd", "ldadda", "ldaddal", "ldaddl", "swp", "swpa", "swpal", "swpl"):
    SPEC[base] = Spec("%s {x:0}, {x:1}, [{x:2}]" % base)
    SPEC[base + "_w"] = Spec("%s {w:0}, {w:1}, [{x:2}]" % base)
for name, t in [("ldar", "x"), ("ldar_w", "w"), ("ldarb", "w"), ("ldarh", "w"), ("ldaxr", "x"), ("ldaxr_w", "w"),
                ("ldxr", "x"), ("ldxr_w", "w"), ("stlr", "x"), ("stlr_w", "w"), ("stlrb", "w"), ("stlrh", "w")]:
    mn = name[:-2] if name.endswith("_w") else name
    SPEC[name] = Spec("%s {%s:0}, [{x:1}]" % (mn, t))
for name in ("stxr", "stlxr"):
    SPEC[name] = Spec("%s {w:0}, {x:1}, [{x:2}]" % name)
    SPEC[name + "_w"] = Spec("%s {w:0}, {w:1}, [{x:2}]" % name)


# ------------------------------------------------------------------------------------------------
# load/store

def pair_bytes(scale):
    lo, hi = -64 * scale, 63 * scale
    s = {lo - scale, lo, lo + scale, hi - scale, hi, hi + scale, 0, scale, -scale, 1, -1, scale - 1, scale + 1,
         lo - 1, lo + 1, hi + 1, hi - 1, scale // 2, 2 * hi, 2 * lo}
    return Dom(R(lo - scale, hi + scale) + list(s), s)


PAIR_ELEMS = Dom(R(-66, 65) + [127, 128, -128, -129, 255], [-65, -64, -63, -1, 0, 1, 62, 63, 64])

SPEC["ldp"] = Spec("ldp {x:0}, {x:1}, [{x:2}, {i:3}]", valid=[mult(3, 8), rng(3, -512, 504)], doms={3: pair_bytes(8)})
SPEC["ldp_w"] = Spec("ldp {w:0}, {w:1}, [{x:2}, {i:3}]", valid=[mult(3, 4), rng(3, -256, 252)], doms={3: pair_bytes(4)})
SPEC["ldp_post"] = Spec("ldp {x:0}, {x:1}, [{x:2}], {i8:3}", valid=[rng(3, -64, 63)], doms={3: PAIR_ELEMS})
SPEC["ldp_post_w"] = Spec("ldp {w:0}, {w:1}, [{x:2}], {i4:3}", valid=[rng(3, -64, 63)], doms={3: PAIR_ELEMS})
SPEC["stp"] = Spec("stp {x:0}, {x:1}, [{x:2}, {i8:3}]", valid=[rng(3, -64, 63)], doms={3: PAIR_ELEMS})
SPEC["stp_w"] = Spec("stp {w:0}, {w:1}, [{x:2}, {i4:3}]", valid=[rng(3, -64, 63)], doms={3: PAIR_ELEMS})
SPEC["stp_pre"] = Spec("stp {x:0}, {x:1}, [{x:2}, {i8:3}]!", valid=[rng(3, -64, 63)], doms={3: PAIR_ELEMS})
SPEC["stp_pre_w"] = Spec("stp {w:0}, {w:1}, [{x:2}, {i4:3}]!", valid=[rng(3, -64, 63)], doms={3: PAIR_ELEMS})
SPEC["stp_post"] = Spec("stp {x:0}, {x:1}, [{x:2}], {i:3}", valid=[mult(3, 8), rng(3, -512, 504)], doms={3: pair_bytes(8)})
SPEC["stp_post_w"] = Spec("stp {w:0}, {w:1}, [{x:2}], {i:3}", valid=[mult(3, 4), rng(3, -256, 252)], doms={3: pair_bytes(4)})


def scaled(scale):
    hi = 4095 * scale
    full = set(R(0, 4097)) | {k * scale for k in range(0, 4098)}
    bnd = {0, 1, scale, 2 * scale, hi - scale, hi, hi + scale, hi + 1, scale + 1, hi + 2 * scale, 4096 * scale * 2,
           0xffffffff, 0xffffffff - scale + 1, 0x80000000, 8 * 4096, 4095, 4096}
    if scale > 1:
        bnd |= {scale - 1, hi - 1}
    full |= bnd
    return Dom(full, bnd)


for name, mn, t, sc in [("ldr_imm_x", "ldr", "x", 8), ("ldr_imm_w", "ldr", "w", 4), ("ldrh_imm", "ldrh", "w", 2),
                        ("ldrb_imm", "ldrb", "w", 1), ("ldr_imm_d", "ldr", "d", 8), ("ldr_imm_s", "ldr", "s", 4),
                        ("str_imm", "str", "x", 8), ("str_imm_x", "str", "x", 8), ("str_imm_w", "str", "w", 4),
                        ("strh_imm", "strh", "w", 2), ("strb_imm", "strb", "w", 1), ("str_imm_d", "str", "d", 8),
                        ("str_imm_s", "str", "s", 4), ("ldr", "ldr", "x", 8)]:
    v = [rng(2, 0, 4095 * sc)] + ([mult(2, sc)] if sc > 1 else [])
    SPEC[name] = Spec("%s {%s:0}, [{x:1}, {i:2}]" % (mn, t), valid=v, doms={2: scaled(sc)})
SPEC["ldr"].doms[2] = Dom(scaled(8).full + [-8, -1, 1 << 32, (1 << 32) + 8, 1 << 40, -(1 << 63), (1 << 63) - 1],
                          scaled(8).bnd + [-8, -1, 1 << 32, (1 << 32) + 8])

UNSC = Dom(R(-258, 257) + [511, 512, -512, -513, 4095, (1 << 31) - 1, -(1 << 31)], [-257, -256, -255, -1, 0, 1, 254, 255, 256])
for name, mn, t in [("ldur", "ldur", "x"), ("ldur_w", "ldur", "w"), ("ldurh", "ldurh", "w"), ("ldurb", "ldurb", "w"),
                    ("ldur_d", "ldur", "d"), ("ldur_s", "ldur", "s"), ("stur", "stur", "x"), ("stur_w", "stur", "w"),
                    ("sturh", "sturh", "w"), ("sturb", "sturb", "w"), ("stur_d", "stur", "d"), ("stur_s", "stur", "s")]:
    SPEC[name] = Spec("%s {%s:0}, [{x:1}, {i:2}]" % (mn, t), valid=[rng(2, -256, 255)], doms={2: UNSC})

MEMAMT = Dom(R(0, 5) + [8])
for name, mn, t, lg in [("ldr_reg", "ldr", "x", 3), ("ldr_reg_w", "ldr", "w", 2), ("ldrh_reg", "ldrh", "w", 1),
                        ("ldrb_reg", "ldrb", "w", 0), ("ldr_reg_d", "ldr", "d", 3), ("ldr_reg_s", "ldr", "s", 2),
                        ("str_reg", "str", "x", 3), ("str_reg_w", "str", "w", 2), ("strh_reg", "strh", "w", 1),
                        ("strb_reg", "strb", "w", 0), ("str_reg_d", "str", "d", 3), ("str_reg_s", "str", "s", 2)]:
    # the API offers LSL for option 0b011; UXTX (same option) and the byte/half extends do not exist here
    SPEC[name] = Spec("%s {%s:0}, [{x:1}, {mx:2,3,4}]" % (mn, t),
                      valid=['ex_in(o[3], &["UXTW", "LSL", "SXTW", "SXTX"])', "(o[4] == 0 || o[4] == %d)" % lg],
                      doms={4: MEMAMT})

# ------------------------------------------------------------------------------------------------
# kind 1: sequences, label branches, helper predicates (checked in arm64_sem.py)

CONSTS = set()
for v in [0, 1, -1, 2, 0xffff, 0x10000, 0xffff0000, 0x7fffffff, 0x80000000, 0xffffffff, 0x100000000, -0x80000000,
          -0x80000001, 0x7fffffffffffffff, -0x8000000000000000, 0x1234, 0x12340000, 0x123400000000, 0x1234000000000000,
          0x12345678, 0x123456780000, 0x1234000056780000, 0x1234567800009abc, 0x123456789abcdef0, 0x1234000000005678,
          0x0000ffffffffffff, 0xffff0000ffffffff, 0xffffffff0000ffff, 0xffffffffffff0000, 0xffff1234ffffffff,
          0xffff12345678ffff, 0x1234ffffffff5678, 0xfffffffffffe, 0xfffe, 0xfffeffff, 0xffff0000ffff0000,
          0x0000ffff0000ffff, 0xffff00000000ffff, 0x00010001, 0x0001000100010001, 0xfffefffefffefffe, 0x8000, 0x7fff,
          0xffff8000, 0xffffffffffff8000, 0xffffffff80000000, 0x00000001ffffffff, 0xfffffffeffffffff,
          4095, 4096, 4097, 255, 256, -256, -257, 32760, 32768, 0xfff000]:
    CONSTS.add(_signed(v))
    CONSTS.add(_signed(~v))
    CONSTS.add(_signed(-v))
for k in range(64):
    CONSTS.add(_signed(1 << k))
    CONSTS.add(_signed((1 << k) - 1))
    CONSTS.add(_signed(-(1 << k)))
for a in (0, 1, 0xffff, 0x8000):          # every half-word occupancy pattern with boundary half-word values
    for b in (0, 1, 0xffff, 0x8000):
        for c in (0, 1, 0xffff, 0x8000):
            for d in (0, 1, 0xffff, 0x8000):
                CONSTS.add(_signed(a | b << 16 | c << 32 | d << 48))
CONSTS = sorted(CONSTS)
CONSTS32 = sorted({((c & 0xffffffff) ^ 0x80000000) - 0x80000000 for c in CONSTS})

SPEC["mov_imm"] = Spec("", kind=1, doms={1: Dom(CONSTS)})
SPEC["mov_imm_w"] = Spec("", kind=1, doms={1: Dom(CONSTS32)})


def memoffs(scale):
    s = {0, 1, -1, 2, 3, 4, 7, 8, 9, 12, 15, 16, 255, 256, 257, -255, -256, -257, -258, -8, -4, 4095, 4096, 4097,
         4095 * scale, 4095 * scale + 1, 4095 * scale - 1, 4095 * scale + scale, 4096 * scale, 4096 * scale + scale,
         4095 * scale - scale, 32760, 32764, 32767, 32768, 65535, 65536, 0xfff000, 0xfff000 * scale, 0xffffff, 0x1000000,
         (1 << 31) - 1, 1 << 31, -(1 << 31), -(1 << 31) - 1, (1 << 32) - 1, 1 << 32, (1 << 32) + 8, (1 << 32) * scale,
         (1 << 32) * scale - scale, (1 << 44) + 8, (1 << 63) - 1, -(1 << 63), -(1 << 63) + 8, 0x123456789abcdef0}
    return Dom(s)


SCRATCH = Dom([9, 16, 17, 31, 32], [9, 16])
for sfx, sc in [("x", 8), ("w", 4), ("b", 1), ("s", 4), ("d", 8)]:
    SPEC["ldr_mem_" + sfx] = Spec("", kind=1, doms={2: memoffs(sc), 3: SCRATCH})
    SPEC["str_mem_" + sfx] = Spec("", kind=1, doms={2: memoffs(sc), 3: SCRATCH})


def dist(bits, unit=4, fallback_bits=None):
    """byte distances around the ends of a signed `bits`-bit field counted in `unit` bytes; the boundary subset
    (quick tier, for the expensive distances) keeps the last encodable and first non-encodable distance per end"""
    lo, hi = -(1 << (bits - 1)) * unit, ((1 << (bits - 1)) - 1) * unit
    ess = {0, 4, -4, 8, lo, lo - unit, hi, hi + unit}
    s = {0, 4, 8, 12, -4, -8, -12, lo, lo + unit, lo - unit, lo - 2 * unit, hi, hi - unit, hi + unit, hi + 2 * unit,
         2, -2, 6, -6, 1, -1}
    if bits <= 21:
        s |= {2 * hi + unit, 2 * hi + 2 * unit, 2 * lo, 2 * lo - unit}      # would alias into range if truncated
    for k in range(2, min(bits, 22) + 1):
        s |= {(1 << k), -(1 << k), (1 << k) - 4, -(1 << k) - 4, (1 << k) + 4}
    if fallback_bits:
        # inverted test + `b`: the b sits one instruction further, so the last reachable distance is fhi + 4
        flo, fhi = -(1 << (fallback_bits - 1)) * 4, ((1 << (fallback_bits - 1)) - 1) * 4
        s |= {flo, fhi, fhi + 4, flo - 4, flo + 4, fhi - 4, fhi + 8}
        ess |= {fhi + 4, fhi + 8, flo + 4, flo}
    ok = lambda v: -(1 << 31) + 64 <= v < (1 << 31) - 64
    return Dom({v for v in s | ess if ok(v)}, {v for v in ess if ok(v)})


SPEC["b"] = Spec("", kind=1, doms={0: dist(26)})
SPEC["bc"] = Spec("", kind=1, doms={1: dist(19)})
for name in ("cbz", "cbz_w", "cbnz", "cbnz_w"):
    SPEC[name] = Spec("", kind=1, doms={1: dist(19, fallback_bits=26)})
BITS = Dom(R(0, 65) + [127, 128, 255], [0, 1, 31, 32, 63, 64, 65])
for name in ("tbz", "tbnz"):
    SPEC[name] = Spec("", kind=1, doms={1: BITS, 2: dist(14, fallback_bits=26)})
SPEC["adr_label"] = Spec("", kind=1, doms={1: dist(21, unit=1)})

HWC = sorted(set(c & M64 for c in CONSTS))
PRED = Dom([_signed(v) for v in HWC])
for name, sig, call in [
    ("fits_movz", ["u64", "u32"], "fits_movz(o[0] as u64, o[1] as u32) as u32"),
    ("fits_movn", ["u64", "u32"], "fits_movn(o[0] as u64, o[1] as u32) as u32"),
    ("count_empty_half_words", ["u64", "u32"], "count_empty_half_words(o[0] as u64, o[1] as u32)"),
    ("shift_movz", ["u64"], "shift_movz(o[0] as u64)"),
    ("shift_movn", ["u64"], "shift_movn(o[0] as u64)"),
    ("fits_addsub_imm", ["u32"], "fits_addsub_imm(o[0] as u32) as u32"),
    ("fits_ldst_unscaled", ["i32"], "fits_ldst_unscaled(o[0] as i32) as u32"),
]:
    d = {0: PRED}
    if len(sig) == 2:
        d[1] = Dom([32, 64])
    if name == "fits_addsub_imm":
        d = {0: ASIMM}
    if name == "fits_ldst_unscaled":
        d = {0: UNSC}
    SPEC[name] = Spec("", kind=1, doms=d, sig=sig, call="(%s).to_le_bytes().to_vec()" % call)
