"""C08 -- the Dora twin: pkgs/boots/assembler/arm64.dora against the reference encoding.

For every single-instruction method that exists under the same name (and with compatible parameter
types) in both assemblers, a reduced operand product is enumerated.  The Rust driver is run on it first
(`dump_insn`): that yields, per tuple, whether the Rust assembler accepts it and llvm-mc's word for the
requested instruction.  A generated Dora module (`verif_driver_arm64.dora`, one loop nest per product,
@Test entry reading its group and start index from argv) is compiled into the boots test binary with the
cannon back end and executes exactly the tuples the Rust assembler accepted (a Dora assert aborts the
process, so refused tuples cannot be probed); each emitted word must equal llvm-mc's word.  If the twin
aborts on a tuple the run is restarted behind it and the refusal is reported.
"""
import multiprocessing
import os
import re
import shutil
import subprocess
import time

import vcommon
import arm64_gen as G

MAX_RESTARTS = 60

TYPE_OK = {
    "Register": ("Register",), "NeonRegister": ("FloatRegister",),
    "u32": ("Int32", "Int64"), "i32": ("Int32", "Int64"), "u64": ("Int64",), "i64": ("Int64",),
    "Cond": ("Cond",), "Extend": ("Extend",), "Shift": ("Shift",),
}

# same name, but the parameters mean something else in the twin (documented by the implementation):
# excluded from the comparison, listed in the evidence
DIFFERENT_CONTRACT = {}

# same name and same instruction, but an operand is counted in other units in the twin: Rust operand value ->
# Dora operand value (None = the twin's contract excludes the value; such tuples are not executed)
NZ = "the twin asserts imm != 0"
OPERAND_MAP = {
    "adrp_imm": ({1: lambda v: v * 4096}, "arm64.dora takes the byte offset (multiple of 4096), arm64.rs the page count"),
    "bl_imm": ({0: lambda v: v * 4}, "arm64.dora takes the byte distance, arm64.rs the instruction count"),
    "ldp_post": ({3: lambda v: v * 8 if v else None}, "bytes in arm64.dora, elements in arm64.rs; " + NZ),
    "ldp_post_w": ({3: lambda v: v * 4 if v else None}, "bytes in arm64.dora, elements in arm64.rs; " + NZ),
    "stp": ({3: lambda v: v * 8}, "bytes in arm64.dora, elements in arm64.rs"),
    "stp_w": ({3: lambda v: v * 4}, "bytes in arm64.dora, elements in arm64.rs"),
    "stp_pre": ({3: lambda v: v * 8 if v else None}, "bytes in arm64.dora, elements in arm64.rs; " + NZ),
    "stp_pre_w": ({3: lambda v: v * 4 if v else None}, "bytes in arm64.dora, elements in arm64.rs; " + NZ),
    "stp_post": ({3: lambda v: v if v else None}, NZ),
    "stp_post_w": ({3: lambda v: v if v else None}, NZ),
}


def parse_dora(path):
    src = open(path, encoding="utf-8").read()
    i = src.find("mod tests {")
    if i >= 0:
        src = src[:i]
    m = re.search(r"^impl AssemblerArm64 \{", src, re.M)
    if not m:
        raise vcommon.MachineryError("impl AssemblerArm64 not found in " + path)
    body = src[m.end() - 1:G._block_end(src, m.end() - 1)]
    methods = {}
    for mm in re.finditer(r"^    pub fn ([A-Za-z_0-9]+)\s*\(([^)]*)\)", body, re.M | re.S):
        ps = []
        for p in [x.strip() for x in mm.group(2).split(",") if x.strip()]:
            pn, _, pt = p.partition(":")
            ps.append((pn.strip(), pt.strip()))
        methods[mm.group(1)] = ps
    enums = {}
    for en in ("Cond", "Extend", "Shift"):
        e = re.search(r"pub enum %s \{([^}]*)\}" % en, src)
        if e:
            enums[en] = [v.strip() for v in re.sub(r"//[^\n]*", "", e.group(1)).split(",") if v.strip()]
    return methods, enums


def _lit(v):
    if v == -(1 << 63):
        return "(-9223372036854775807 - 1)"
    return "(%d)" % v if v < 0 else "%d" % v


def _conv(ty, var):
    if ty == "Register":
        return "reg(%s)" % var
    if ty == "FloatRegister":
        return "FloatRegister(%s.to_uint8())" % var
    if ty == "Int32":
        return "%s.to_int32()" % var
    if ty == "Int64":
        return var
    return "%sS(%s)" % (ty.lower(), var)


PRELUDE = """use std::string::StringBuffer;
use package::assembler::{Register, FloatRegister};
use package::assembler::arm64::{AssemblerArm64, Cond, Extend, Shift};

class St { n: Int64, start: Int64 }

fn reg(v: Int64): Register {
    // 31 = REG_ZERO, 32 = REG_SP on the Rust side; 32 / 33 here
    if v >= 31 { Register((v + 1).to_uint8()) } else { Register(v.to_uint8()) }
}

fn out(asm: AssemblerArm64) {
    let code = asm.finalize();
    let buf = StringBuffer::new();
    let mut i = 0;
    while i < code.size() {
        if i > 0 { buf.append(" "); }
        buf.append("${code(i).to_int32()}");
        i = i + 1;
    }
    println(buf.to_string());
}
"""


def gen_driver(jobs, groups, enums):
    L = [PRELUDE]
    for en in ("Cond", "Extend", "Shift"):
        L.append("fn %sS(v: Int64): %s {" % (en.lower(), en))
        for k, v in enumerate(enums[en]):
            L.append("    if v == %d { return %s::%s; }" % (k, en, v))
        L.append("    %s::%s" % (en, enums[en][0]))
        L.append("}")
    for j in jobs:
        L.append("fn job_%d(st: St) {" % j["id"])
        omap = OPERAND_MAP.get(j["method"], ({}, ""))[0]
        for k, d in enumerate(j["dims"]):
            f = omap.get(k, lambda v: v)
            # excluded values stay in the array as 0: their tuples are on the skip list
            L.append("    let d%d = Array[Int64]::new(%s);" % (k, ", ".join(_lit(f(v) if f(v) is not None else 0) for v in d)))
        n = 1
        for d in j["dims"]:
            n *= len(d)
        sk = set(j["skip"])
        bits = "".join("0" if i in sk else "1" for i in range(n))
        # string literals live in the read-only space, which has an object size limit: 4096 tuples per piece
        L.append("    let masks = Array[String]::new(%s);" % ", ".join('"%s"' % bits[i:i + 4096] for i in range(0, n, 4096)))
        L.append("    let mut idx = 0;")
        ind = "    "
        for k in j["order"]:
            L.append("%sfor a%d in d%d {" % (ind, k, k))
            ind += "    "
        args = ", ".join(_conv(t, "a%d" % k) for k, t in enumerate(j["dtypes"]))
        L += [ind + "if masks(idx / 4096).get_byte(idx % 4096) == 49u8 {",
              ind + "    if st.n >= st.start {",
              ind + "        let asm = AssemblerArm64::new();",
              ind + "        asm.%s(%s);" % (j["method"], args),
              ind + "        out(asm);",
              ind + "    }",
              ind + "    st.n = st.n + 1;",
              ind + "}",
              ind + "idx = idx + 1;"]
        for k in range(len(j["dims"])):
            ind = ind[:-4]
            L.append(ind + "}")
        L.append("}")
    L += ["@Test", "fn verif_c08() {",
          "    if std::argc() < 2i32 { return; }",
          "    let g = std::argv(0i32).to_int64().get_or_panic();",
          "    let st = St(n = 0, start = std::argv(1i32).to_int64().get_or_panic());",
          '    println("");', '    println("C08BEGIN");']
    for g, members in enumerate(groups):
        L.append("    if g == %d {" % g)
        for j in members:
            L.append("        job_%d(st);" % j["id"])
        L.append("    }")
    L += ['    println("C08END");', "}", ""]
    return "\n".join(L)


def _run_group(args):
    binary, g, total, job_ends, max_aborts = args
    lines, refused, start, restarts = [], [], 0, 0
    aborts_in_job = {}
    while True:
        p = subprocess.run([binary, str(g), str(start)], stdout=subprocess.PIPE, stderr=subprocess.PIPE,
                           env=dict(os.environ, DORA_FLAGS="--gc-worker 1"))
        out = p.stdout.decode("utf-8", "replace")
        pos = out.find("\nC08BEGIN\n")
        if pos < 0:
            return {"g": g, "error": "twin binary produced no C08BEGIN (exit %d): %s" % (
                p.returncode, out[-300:] + p.stderr.decode("utf-8", "replace")[-1500:])}
        done = False
        for l in out[pos + 10:].split("\n"):
            if l.startswith("C08END"):
                done = True
                break
            if l:
                lines.append(l)
        if done:
            break
        msg = "exit %d: %s" % (p.returncode, " | ".join(
            x.strip() for x in p.stderr.decode("utf-8", "replace").strip().split("\n")[:2]))
        refused.append((len(lines), msg))
        lines.append(None)
        # a block (one immediate/enum combination x all register combinations) that aborts repeatedly is abandoned
        # (every abort costs a run of the whole test binary)
        end = min(e for e in job_ends if e >= len(lines))
        aborts_in_job[end] = aborts_in_job.get(end, 0) + 1
        if aborts_in_job[end] >= max_aborts:
            lines.extend(["SKIPPED"] * (end - len(lines)))
        start = len(lines)
        restarts += 1
        if restarts > MAX_RESTARTS or start >= total:
            break
    return {"g": g, "lines": lines, "refused": refused, "error": None, "complete": len(lines) == total}


def _run_probe(args):
    """one must-refuse tuple: returns (first emitted line or None, how the process ended)"""
    binary, g, i = args
    p = subprocess.run([binary, str(g), str(i)], stdout=subprocess.PIPE, stderr=subprocess.PIPE,
                       env=dict(os.environ, DORA_FLAGS="--gc-worker 1"))
    out = p.stdout.decode("utf-8", "replace")
    pos = out.find("\nC08BEGIN\n")
    if pos < 0:
        return None, "no C08BEGIN (exit %d)" % p.returncode
    for l in out[pos + 10:].split("\n"):
        if l.startswith("C08END"):
            break
        if l:
            return l, "exit %d" % p.returncode
    return None, "exit %d" % p.returncode


def run(c, tier, scratch, repo, driver_binary, parsed, joined, llvm, mattr, pretty_ops, only=None):
    boots = os.path.join(repo, "pkgs", "boots")
    src = os.path.join(boots, "assembler", "arm64.dora")
    if not os.path.exists(src):
        return {"skipped": "no pkgs/boots/assembler/arm64.dora under %s" % repo}
    dmethods, denums = parse_dora(src)
    enums = parsed["enums"]
    for en in ("Cond", "Extend", "Shift"):
        if denums.get(en) != enums[en]:
            raise vcommon.MachineryError("enum %s differs between arm64.rs and arm64.dora: %s / %s" % (en, enums[en], denums.get(en)))
    covered, uncovered = [], []
    rust_names = set()
    for e in joined["covered"]:
        n = e["name"]
        rust_names.add(n)
        if e["pseudo"]:
            continue
        if only and n not in only:
            continue
        if e["spec"].kind != 0:
            if n in dmethods:
                uncovered.append("%s (sequence / label method: Rust side only)" % n)
            continue
        if n not in dmethods:
            continue
        if n in DIFFERENT_CONTRACT:
            uncovered.append("%s (%s)" % (n, DIFFERENT_CONTRACT[n]))
            continue
        rt = [t for _, t, _ in e["slots"]]
        dt = [t for _, t in dmethods[n]]
        if any(t == "MemOperand" for _, t in e["params"]) or len(rt) != len(dt) or \
                any(d not in TYPE_OK.get(r, ()) for r, d in zip(rt, dt)):
            uncovered.append("%s (parameter lists differ: %s / %s)" % (n, rt, dt))
            continue
        covered.append((e, dt))
    only_dora = sorted(n for n in dmethods if n not in rust_names and n not in (
        "new", "create_label", "bind_label", "create_and_bind_label", "position", "finalize", "size",
        "align_code_size", "resolve_jumps", "emit_int32", "emit_int64"))
    if not covered:
        return {"skipped": "no common methods"}

    # ---- Rust side on the twin products
    sub = dict(joined)
    sub["covered"] = [e for e, _ in covered]
    plan = os.path.join(scratch, "twin-plan.txt")
    ttier = "twin-" + tier
    G.write_plan(plan, sub, enums, ttier, llvm, mattr, scratch, vcommon.NCPU, roundtrip=False, classify_refusals=True,
                 extra="dump_insn 1\n")
    report = os.path.join(scratch, "twin-report.json")
    p = vcommon.run([driver_binary, "run", plan, report], timeout=3600)
    if p.returncode != 0:
        raise vcommon.MachineryError("arm64 driver (twin plan) failed: " + p.stderr.decode("utf-8", "replace")[-2000:])
    # jobs in plan order
    jobs = []
    dtypes = {e["name"]: dt for e, dt in covered}
    for e, dt in covered:
        for pl in G.plans_for(e, enums, ttier):
            jobs.append({"id": len(jobs), "method": e["name"], "dims": pl, "dtypes": dt, "entry": e})
    res = {}
    for l in open(report + ".insn"):
        ji, name, ops, rw, lw, aw = l.rstrip("\n").split("\t")
        res[(int(ji), tuple(int(x) for x in ops.split()) if ops else ())] = (rw, lw, [int(x, 16) for x in aw.split(",") if x])
    total_tuples = 0
    excluded = 0
    for j in jobs:
        j["skip"], j["exp"] = [], []
        idx = 0
        import itertools
        # immediates / enums outermost, registers innermost: tuples that share an aborting immediate are adjacent
        order = [k for k, ty in enumerate(j["dtypes"]) if ty not in ("Register", "FloatRegister")] + \
                [k for k, ty in enumerate(j["dtypes"]) if ty in ("Register", "FloatRegister")]
        j["order"] = order
        inner = 1
        for k in order:
            if j["dtypes"][k] in ("Register", "FloatRegister"):
                inner *= len(j["dims"][k])
        j["inner"] = inner
        j["block_of"] = []          # per executed tuple: index of its block of register combinations
        j["probe"] = []             # (tuple index, tuple): refused by arm64.rs AND not assemblable by llvm-mc => must be refused
        for tp in itertools.product(*[j["dims"][k] for k in order]):
            t = [0] * len(order)
            for k, v in zip(order, tp):
                t[k] = v
            t = tuple(t)
            r = res.get((j["id"], t))
            ok = r is not None and len(r[0]) == 8 and len(r[1]) == 8 and r[0][0] not in "RL" and r[1] not in ("ERR", "-")
            if ok:
                omap = OPERAND_MAP.get(j["method"], ({}, ""))[0]
                for k, (v, ty) in enumerate(zip(t, j["dtypes"])):
                    if k in omap:
                        v = omap[k](v)
                        if v is None:
                            ok = False
                            excluded += 1
                            break
                    if ty == "Int32" and not -(1 << 31) <= v < (1 << 31):
                        ok = False
            if ok:
                j["exp"].append((t, int(r[1], 16), int(r[0], 16), r[2]))
                j["block_of"].append(idx // inner)
            else:
                j["skip"].append(idx)
                # "-": the operand spec (ISA ranges) says the tuple has no encoding, so it was not even offered to llvm-mc;
                # "ERR": llvm-mc rejects the requested instruction
                if r is not None and r[0] == "REFUSED" and r[1] in ("ERR", "-") and idx % inner == 0:
                    omap = OPERAND_MAP.get(j["method"], ({}, ""))[0]
                    # the operand as the twin sees it (unit differences mapped) has to be expressible as its parameter type
                    mapped = [(omap[k](v) if k in omap else v) for k, v in enumerate(t)]
                    if all(mv is not None and (ty != "Int32" or -(1 << 31) <= mv < (1 << 31)) for mv, ty in zip(mapped, j["dtypes"])):
                        j["probe"].append((idx, t))
            idx += 1
        total_tuples += len(j["exp"])
    jobs_run = [j for j in jobs if j["exp"]]
    ngroups = max(1, min(len(jobs_run), vcommon.NCPU))
    bins = [[0, []] for _ in range(ngroups)]
    for j in sorted(jobs_run, key=lambda j: -len(j["exp"])):
        b = min(bins, key=lambda b: b[0])
        b[0] += len(j["exp"])
        b[1].append(j)
    groups = [b[1] for b in bins if b[1]]
    # must-refuse probes: operand tuples that have no encoding (arm64.rs refuses them and llvm-mc cannot assemble the
    # requested instruction).  The twin has to refuse them too (a Dora assert ends the process), one tuple per run;
    # per method the tuples nearest to the encodable range are taken (the first register combination of each).
    probe_limit = 6 if tier == "quick" else 24
    probe_jobs = []
    per_method_probe_jobs = {}
    for j in jobs:
        if not j.get("probe") or per_method_probe_jobs.get(j["method"], 0) >= 2:
            continue
        per_method_probe_jobs[j["method"]] = per_method_probe_jobs.get(j["method"], 0) + 1
        chosen = sorted(j["probe"], key=lambda it: (sum(min(abs(v), 1 << 40) for v in it[1]), it[1]))[:probe_limit]
        keep = set(i for i, _ in chosen)
        n = 1
        for d in j["dims"]:
            n *= len(d)
        pj = dict(j)
        pj["id"] = len(jobs) + len(probe_jobs)
        pj["skip"] = [i for i in range(n) if i not in keep]
        pj["exp"] = []
        pj["probe_tuples"] = [t for _, t in sorted(chosen)]
        probe_jobs.append(pj)
    first_probe_group = len(groups)
    all_groups = groups + [[pj] for pj in probe_jobs]

    # ---- build the test binary
    pkg = os.path.join(scratch, "boots")
    shutil.copytree(boots, pkg)
    # the driver module is declared first in the package root so that its @Test runs before the package's own
    # unit tests (a failing unit test must not hide the comparison)
    root_file = os.path.join(pkg, "boots.dora")
    text = open(root_file).read()
    mm = re.search(r"^(pub )?mod \w+;$", text, re.M)
    if not mm or not os.path.exists(os.path.join(pkg, "assembler", "arm64.dora")):
        raise vcommon.MachineryError("unexpected layout of the boots package")
    open(root_file, "w").write(text[:mm.start()] + "mod verif_driver_arm64;\n" + text[mm.start():])
    open(os.path.join(pkg, "verif_driver_arm64.dora"), "w").write(gen_driver(jobs_run + probe_jobs, all_groups, enums))
    t0 = time.time()
    bindir = vcommon.build_plain(need_boots=False)
    binary = os.path.join(scratch, "twin-tests-arm64")
    p = vcommon.run([os.path.join(bindir, "dora"), "compile", "--internal-compile-boots", "--cannon", "--test",
                     os.path.join(pkg, "boots.dora"), "-o", binary], cwd=bindir, timeout=1200)
    if p.returncode != 0 or not os.path.exists(binary):
        err = p.stderr.decode("utf-8", "replace") + p.stdout.decode("utf-8", "replace")
        errs = "\n".join(re.findall(r"^error.*(?:\n.*){0,6}", err, re.M)[:4])
        raise vcommon.MachineryError("compiling the arm64 twin driver failed:\n" + (errs or err[-3000:]))
    t_compile = time.time() - t0
    t0 = time.time()
    with multiprocessing.Pool(min(len(groups), vcommon.NCPU)) as pool:
        work = []
        for g, members in enumerate(groups):
            ends, n = [], 0
            for j in members:
                for i, b in enumerate(j["block_of"]):
                    if i + 1 == len(j["block_of"]) or j["block_of"][i + 1] != b:
                        ends.append(n + i + 1)
                n += len(j["exp"])
            work.append((binary, g, n, ends, 6 if tier == "quick" else 40))
        results = pool.map(_run_group, work)
        probe_work = [(binary, first_probe_group + k, i) for k, pj in enumerate(probe_jobs) for i in range(len(pj["probe_tuples"]))]
        probe_results = pool.map(_run_probe, probe_work)
    t_run = time.time() - t0

    # ---- compare
    per_method, findings = {}, {}
    cases = equal = equivalent = nontrivial = refusals = abandoned = 0
    complete = True
    samples = []

    def add(key, j, t, got, want, rustw, what):
        f = findings.setdefault(key, {"count": 0, "examples": []})
        f["count"] += 1
        f["examples"].append({"method": j["method"], "ops": list(t), "operands": pretty_ops(j["entry"], t, enums),
                              "dora_twin": got, "llvm_word": "%08x" % want, "rust_word": "%08x" % rustw, "what": what})
        f["examples"].sort(key=lambda x: (sum(min(abs(v), 1 << 40) for v in x["ops"]), x["ops"]))
        del f["examples"][3:]

    for g, (members, r) in enumerate(zip(groups, results)):
        if r["error"]:
            raise vcommon.MachineryError("dora twin: " + r["error"])
        if not r["complete"] or "SKIPPED" in r["lines"]:
            complete = False
        refused_at = dict(r["refused"])
        pos = 0
        for j in members:
            pm = per_method.setdefault(j["method"], 0)
            base = None
            for t, want, rustw, alts in j["exp"]:
                if pos >= len(r["lines"]):
                    break
                line = r["lines"][pos]
                here = pos
                pos += 1
                cases += 1
                per_method[j["method"]] += 1
                if line == "SKIPPED":
                    abandoned += 1
                    cases -= 1
                    per_method[j["method"]] -= 1
                    continue
                if line is None:
                    refusals += 1
                    kind = "refuses" if "exit 102" in refused_at.get(here, "") else "crash"
                    add("c08:twin:%s:%s" % (j["method"], kind), j, t, None, want, rustw,
                        "arm64.dora aborts (%s) on a tuple the Rust assembler encodes" % refused_at.get(here, "?")[:200])
                    continue
                bs = [int(x) for x in line.split()]
                if len(bs) != 4:
                    add("c08:twin:%s:length" % j["method"], j, t, line, want, rustw, "emitted %d bytes" % len(bs))
                    continue
                w = bs[0] | bs[1] << 8 | bs[2] << 16 | bs[3] << 24
                if base is None:
                    base = w
                elif w != base:
                    nontrivial += 1
                if w != want and w in alts:
                    equivalent += 1
                elif w == want:
                    equal += 1
                    if len(samples) < 3 and w != base and here % 7 == 3:
                        samples.append({"assembler": "arm64.dora", "method": j["method"],
                                        "operands": pretty_ops(j["entry"], t, enums), "word": "%08x" % w})
                else:
                    add("c08:twin:%s:word" % j["method"], j, t, "%08x" % w, want, rustw,
                        "arm64.dora emits %08x, llvm-mc encodes the requested instruction as %08x (arm64.rs: %08x)" % (w, want, rustw))
    probes = probe_refused = 0
    for (binary_, g, i), (line, msg) in zip(probe_work, probe_results):
        pj = probe_jobs[g - first_probe_group]
        t = pj["probe_tuples"][i]
        probes += 1
        if line is None:
            probe_refused += 1
            continue
        f = findings.setdefault("c08:twin:%s:encodes-unencodable-operand" % pj["method"], {"count": 0, "examples": []})
        f["count"] += 1
        f["examples"].append({"method": pj["method"], "ops": list(t), "operands": pretty_ops(pj["entry"], t, enums), "dora_twin": line,
                              "llvm_word": "-", "rust_word": "-",
                              "what": "arm64.dora emits bytes [%s] for an operand tuple that has no encoding (arm64.rs refuses it, "
                                      "llvm-mc cannot assemble it): silently truncated instead of refused" % line})
        f["examples"].sort(key=lambda x: (sum(min(abs(v), 1 << 40) for v in x["ops"]), x["ops"]))
        del f["examples"][3:]
    for key, f in sorted(findings.items()):
        ex = f["examples"][0]
        c.violation(key, "arm64.dora %s(%s): %s  (%d cases)" % (
            ex["method"], ", ".join("%s=%s" % kv for kv in ex["operands"].items()), ex["what"], f["count"]),
            {"method": ex["method"], "cases": f["count"], "examples": f["examples"], "assembler": src})
    return {
        "source": src, "methods_in_dora": len(dmethods), "methods_compared": len(per_method),
        "not_compared": uncovered, "only_in_dora_not_checked": only_dora,
        "cases": cases, "equal_to_llvm": equal, "equivalent_encoding_accepted": equivalent, "distinct_nontrivial": nontrivial, "aborts": refusals, "not_executed_after_repeated_aborts": abandoned,
        "tuples_declared": total_tuples, "excluded_by_twin_contract": excluded,
        "must_refuse_probes": probes, "must_refuse_probes_refused": probe_refused,
        "operand_unit_differences": {n: v[1] for n, v in sorted(OPERAND_MAP.items())}, "complete": complete, "groups": len(groups), "per_method_cases": per_method,
        "samples": samples, "time_compile_s": round(t_compile, 1), "time_run_s": round(t_run, 1),
        "rule": "same-named single-instruction methods; registers {R0,R30,REG_ZERO,REG_SP} (thorough: + R1,R15,R16), "
                "boundary immediates, every enum variant; only tuples the Rust assembler accepts; oracle = llvm-mc's word",
    }
