"""Dora twin of C07: pkgs/boots/assembler/x64.dora is driven through a generated `verif_driver.dora` (one
@Test that reads its work from argv), compiled into the boots package test binary with the cannon back end.
The same operand products are enumerated here in Python (same order) to attach the requested Intel text to
every emitted byte string; the comparison is the llvm-mc pipeline used for the Rust assembler.

Dora `assert`s abort the process, so refusals cannot be probed freely: immediates are taken from the set
the Rust assembler accepted for the same-named method (the asserts are a literal port), has_avx2 settings
from the settings under which the Rust method works, and an abort is handled by restarting behind the
refused tuple (bounded number of restarts per group)."""
import itertools
import multiprocessing
import os
import re
import shutil
import subprocess

import vcommon
import x64_spec
import pipeline

ENV_BOOTS = "VERIF_C07_BOOTS"
MAX_RESTARTS = 12

N64 = ["rax", "rcx", "rdx", "rbx", "rsp", "rbp", "rsi", "rdi"] + ["r%d" % i for i in range(8, 16)]
N32 = ["eax", "ecx", "edx", "ebx", "esp", "ebp", "esi", "edi"] + ["r%dd" % i for i in range(8, 16)]
N8 = ["al", "cl", "dl", "bl", "spl", "bpl", "sil", "dil"] + ["r%db" % i for i in range(8, 16)]
I32MIN = -(1 << 31)
PADS = [0, 1, 126, 127, 128, 129, 65536]
PRE = 3
MODES = list(range(16)) + [127, 128, 255]
REL32 = [0, 1, -1, 127, 128, -128, -129, -5, 65536, (1 << 31) - 1, I32MIN]
NOT_RSP = [i for i in range(16) if i != 4]


def boots_root():
    return os.path.abspath(os.environ.get(ENV_BOOTS) or os.path.join(vcommon.REPO, "pkgs", "boots"))


# ---- operand domains (python side and dora side are generated from the same description) ----------------
def address_shapes(tier, wide):
    """wide=True: methods with >= 3 operands.  Returns dict of loop domains."""
    if tier == "quick":
        if wide:
            return {"off": (list(range(16)), [0, 128]),
                    "arr": (list(range(16)), [9, 13], [2], [0]),
                    "idx": ([9], [8], [0]),
                    "rip": [128]}
        return {"off": (list(range(16)), [0, 1, 128, I32MIN]),
                "arr": (list(range(16)), [1, 5, 9, 12, 13], [4], [0]),
                "idx": (NOT_RSP, [8], [0]),
                "rip": [128]}
    full = [0, 1, 128, I32MIN]
    if wide:
        return {"off": (list(range(16)), full),
                "arr": (list(range(16)), NOT_RSP, [1, 8], [0, 128]),
                "idx": (NOT_RSP, [1, 2, 4, 8], full),
                "rip": full}
    return {"off": (list(range(16)), full),
            "arr": (list(range(16)), NOT_RSP, [1, 2, 4, 8], full),
            "idx": (NOT_RSP, [1, 2, 4, 8], full),
            "rip": full}


def address_list(sh):
    out = []
    for b in sh["off"][0]:
        for d in sh["off"][1]:
            out.append(("offset", b, 0, 0, d))
    for b in sh["arr"][0]:
        for i in sh["arr"][1]:
            for s in sh["arr"][2]:
                for d in sh["arr"][3]:
                    out.append(("array", b, i, s, d))
    for i in sh["idx"][0]:
        for s in sh["idx"][1]:
            for d in sh["idx"][2]:
                out.append(("index", 0, i, s, d))
    for d in sh["rip"]:
        out.append(("rip", 0, 0, 0, d))
    return out


def _disp(d):
    return " + %d" % d if d > 0 else (" - %d" % -d if d < 0 else "")


def addr_text(a):
    k, b, i, s, d = a
    if k == "offset":
        return "[%s%s]" % (N64[b], _disp(d))
    if k == "array":
        return "[%s + %d*%s%s]" % (N64[b], s, N64[i], _disp(d))
    if k == "index":
        return "[%d*%s%s]" % (s, N64[i], _disp(d))
    return "[rip%s]" % _disp(d)


def addr_meta(a):
    k, b, i, s, d = a
    if k == "offset":
        return "offset(%d,%d)" % (b, d)
    if k == "array":
        return "array(%d,%d,%d,%d)" % (b, i, s, d)
    if k == "index":
        return "index(%d,%d,%d)" % (i, s, d)
    return "rip(%d)" % d


def render(tmpl, values, conds, direct, disp=None):
    def sub(m):
        idx, kind = int(m.group(1)), m.group(2)
        v = values.get(idx)
        if kind == "r8":
            return N8[v]
        if kind == "r32":
            return N32[v]
        if kind == "r64":
            return N64[v]
        if kind == "x":
            return "xmm%d" % v
        if kind == "m":
            return addr_text(v)
        if kind == "sh":
            return str(v & 0xff)
        if kind == "cc":
            suf = x64_spec.CONDITION_SUFFIX[conds[v]]
            return x64_spec.CANONICAL_CC[suf] if direct else suf
        if kind == "lbl":
            return "[rip%s]" % _disp(disp)
        if kind == "rel":
            return str(disp)
        return str(v)
    return x64_spec.PLACEHOLDER.sub(sub, tmpl)


def meta_one(ty, v, conds):
    if ty == "Register":
        return "r%d" % v
    if ty == "XmmRegister":
        return "x%d" % v
    if ty == "Address":
        return addr_meta(v)
    if ty == "Immediate":
        return "imm(%d)" % v
    if ty == "Condition":
        return "cc=%s" % conds[v]
    if ty == "u8":
        return "mode(%d)" % v
    return "rel(%d)" % v


# ---- label scenarios -------------------------------------------------------------------------------
def scenario_list(short_only, pads):
    """[(scen, pad)] in enumeration order; for rel8-only methods only the scenarios whose targets fit."""
    out = []
    for pad in pads:
        for scen in range(3):
            if short_only:
                if scen == 0 and pad + 2 > 128:
                    continue
                if scen == 1 and pad > 127:
                    continue
                if scen == 2 and (pad + 2 + pad // 2 > 127 or pad + 2 > 128):
                    continue
            out.append((scen, pad))
    return out


# ---- dora source generation ----------------------------------------------------------------------------
def _i64(v):
    if v == -(1 << 63):
        return "Int64::min_value()"
    return "%di64" % v if v >= 0 else "(-%di64)" % -v


def _i32(v):
    if v == I32MIN:
        return "Int32::min_value()"
    return "%di32" % v if v >= 0 else "(-%di32)" % -v


def _arr64(vals):
    return "Array[Int64]::new(%s)" % ", ".join(_i64(v) for v in vals)


DORA_PRELUDE = '''// GENERATED by /verif/engines/encspace/x64_twin.py -- driver for check C07
use std::string::StringBuffer;
use package::assembler::x64::{AssemblerX64, Address, Immediate, Condition, ScaleFactor};
use package::assembler::{Register, FloatRegister, Label};

class St {
    n: Int64,
    start: Int64,
    batch: Int64,
    asm: AssemblerX64,
    avx: Bool,
    ends: Vec[Int64],
}

impl St {
    fn take(): Bool {
        self.n = self.n + 1;
        self.n > self.start
    }

    // one assembler is shared by a batch of cases; the bytes of a case are those between two positions
    fn begin(avx: Bool) {
        self.avx = avx;
        self.asm = AssemblerX64::new(avx);
        self.ends.clear();
    }

    fn done() {
        self.ends.push(self.asm.size());
        if self.ends.size() >= self.batch {
            self.flush();
        }
    }

    fn flush() {
        if self.ends.size() > 0 {
            let code = self.asm.finalize();
            let sb = StringBuffer::new();
            let digits = "0123456789abcdef";
            let mut from = 0;
            for to in self.ends {
                let mut p = from;
                while p < to {
                    let v = code(p).to_int64();
                    sb.append_char(digits.get_byte(v >> 4).to_char());
                    sb.append_char(digits.get_byte(v & 15).to_char());
                    p = p + 1;
                }
                sb.append_char('\n');
                from = to;
            }
            print(sb.to_string());
        }
        self.asm = AssemblerX64::new(self.avx);
        self.ends.clear();
    }
}

fn out_label(code: Array[UInt8], target: Int64, ranges: Vec[Int64]) {
    let sb = StringBuffer::new();
    sb.append("L ${target} ");
    let mut clean = 1;
    let mut pos = 0;
    let mut k = 0;
    while k < ranges.size() {
        let s = ranges(k);
        let e = ranges(k + 1);
        while pos < s {
            if code(pos) != 0x90u8 { clean = 0; }
            pos = pos + 1;
        }
        pos = e;
        k = k + 2;
    }
    while pos < code.size() {
        if code(pos) != 0x90u8 { clean = 0; }
        pos = pos + 1;
    }
    sb.append("${clean} ${ranges.size() / 2}");
    k = 0;
    while k < ranges.size() {
        sb.append(" ${ranges(k)} ${ranges(k + 1)}");
        k = k + 2;
    }
    sb.append(" :");
    k = 0;
    while k < ranges.size() {
        let mut p = ranges(k);
        while p < ranges(k + 1) {
            sb.append(" ${code(p).to_int32()}");
            p = p + 1;
        }
        k = k + 2;
    }
    println(sb.to_string());
}

fn fill(asm: AssemblerX64, n: Int64) {
    let mut i = 0;
    while i < n {
        asm.nop();
        i = i + 1;
    }
}

fn sc(s: Int64): ScaleFactor {
    if s == 1 { ScaleFactor::One } else if s == 2 { ScaleFactor::Two } else if s == 4 { ScaleFactor::Four } else { ScaleFactor::Eight }
}

fn reg(v: Int64): Register { Register(v.to_uint8()) }
fn xmm(v: Int64): FloatRegister { FloatRegister(v.to_uint8()) }

fn mk(a: (Int64, Int64, Int64, Int64, Int64)): Address {
    if a.0 == 0 {
        Address::offset(reg(a.1), a.4.to_int32())
    } else if a.0 == 1 {
        Address::array(reg(a.1), reg(a.2), sc(a.3), a.4.to_int32())
    } else if a.0 == 2 {
        Address::index(reg(a.2), sc(a.3), a.4.to_int32())
    } else {
        Address::rip(a.4.to_int32())
    }
}
'''


def _addr_builder(fname, sh):
    L = ["fn %s(): Vec[(Int64, Int64, Int64, Int64, Int64)] {" % fname,
         "    let v = Vec[(Int64, Int64, Int64, Int64, Int64)]::new();"]
    L += ["    for b in %s { for d in %s { v.push((0, b, 0, 0, d)); } }" % (_arr64(sh["off"][0]), _arr64(sh["off"][1]))]
    L += ["    for b in %s { for i in %s { for s in %s { for d in %s { v.push((1, b, i, s, d)); } } } }" % (
        _arr64(sh["arr"][0]), _arr64(sh["arr"][1]), _arr64(sh["arr"][2]), _arr64(sh["arr"][3]))]
    L += ["    for i in %s { for s in %s { for d in %s { v.push((2, 0, i, s, d)); } } }" % (
        _arr64(sh["idx"][0]), _arr64(sh["idx"][1]), _arr64(sh["idx"][2]))]
    L += ["    for d in %s { v.push((3, 0, 0, 0, d)); }" % _arr64(sh["rip"])]
    L += ["    v", "}", ""]
    return L


class Method:
    def __init__(self, name, args, tmpl, ph, modes, imms, tier, conds):
        self.name, self.args, self.tmpl = name, args, tmpl
        self.kinds = dict(ph)
        self.modes = modes
        self.conds = conds
        self.label_idx = [i for i in range(len(args)) if self.kinds[i] in ("lbl", "rel")]
        self.direct = any(self.kinds[i] in ("rel", "d32") for i in range(len(args)))
        self.plain = [i for i in range(len(args)) if i not in self.label_idx]
        self.wide = len(args) >= 3
        self.domains = {}
        for i in self.plain:
            ty = args[i][1]
            if ty in ("Register", "XmmRegister"):
                self.domains[i] = list(range(16))
            elif ty == "Address":
                self.domains[i] = address_list(address_shapes(tier, self.wide))
            elif ty == "Immediate":
                self.domains[i] = list(imms)
            elif ty == "Condition":
                self.domains[i] = list(range(len(conds)))
            elif ty == "u8":
                self.domains[i] = [0, 1, 2, 3, 15, 255] if tier == "quick" else MODES
            elif ty == "i32":
                self.domains[i] = REL32
        self.scens = None
        if self.label_idx:
            n = 1
            for i in self.plain:
                n *= len(self.domains[i])
            # 64 KiB of padding is slow in cannon-compiled code: quick uses it only for small operand products
            pads = [q for q in PADS if q < 65536] if (tier == "quick" and n > 32) else PADS
            self.scens = scenario_list(name in x64_spec.SHORT_ONLY, pads)

    def tuples_per_mode(self):
        n = 1
        for i in self.plain:
            n *= len(self.domains[i])
        if self.scens is not None:
            n *= len(self.scens)
        return n

    def total(self):
        return self.tuples_per_mode() * len(self.modes)

    def _prepare(self):
        """pre-render text and meta of every domain value; split the template into literal pieces"""
        conds = self.conds
        self.pieces = []          # literal text or (position in plain) or "disp"
        pos = 0
        order = {i: n for n, i in enumerate(self.plain)}
        for mm in x64_spec.PLACEHOLDER.finditer(self.tmpl):
            if mm.start() > pos:
                self.pieces.append(self.tmpl[pos:mm.start()])
            idx = int(mm.group(1))
            self.pieces.append(order[idx] if idx in order else "disp")
            pos = mm.end()
        if pos < len(self.tmpl):
            self.pieces.append(self.tmpl[pos:])
        self.rendered = []
        for i in self.plain:
            kind = self.kinds[i]
            texts = []
            for v in self.domains[i]:
                t = render("{%d:%s}" % (i, kind), {i: v}, conds, self.direct)
                mt = meta_one(self.args[i][1], v, conds)
                texts.append((t, mt))
            self.rendered.append(texts)

    def enumerate(self):
        """yields (avx, expected text (or template pieces for label methods), meta, scenario or None) in the order
        of the generated dora loops"""
        self._prepare()
        lbl_kind = self.kinds[self.label_idx[0]] if self.label_idx else None
        for avx in self.modes:
            for combo in itertools.product(*self.rendered):
                meta = " ".join(c[1] for c in combo)
                if self.scens is None:
                    yield avx, "".join(p if isinstance(p, str) else combo[p][0] for p in self.pieces), meta, None
                else:
                    parts = [p if (isinstance(p, str) and p != "disp") else (None if p == "disp" else combo[p][0])
                             for p in self.pieces]
                    for sp in self.scens:
                        yield avx, (parts, lbl_kind), meta, sp

    # -- dora code --
    def dora_fn(self):
        L = ["fn m_%s(st: St, avx: Bool) {" % self.name, "    st.begin(avx);"]
        ind = "    "
        call = []
        for i, (an, ty) in enumerate(self.args):
            a = "a%d" % i
            if i in self.label_idx:
                call.append("l")
                continue
            if ty == "Register":
                L.append(ind + "for %s in std::range(0, 16) {" % a)
                call.append("reg(%s)" % a)
            elif ty == "XmmRegister":
                L.append(ind + "for %s in std::range(0, 16) {" % a)
                call.append("xmm(%s)" % a)
            elif ty == "Address":
                L.append(ind + "for %s in %s() {" % (a, "addrs3" if self.wide else "addrs2"))
                call.append("mk(%s)" % a)
            elif ty == "Immediate":
                L.append(ind + "for %s in %s {" % (a, _arr64(self.domains[i])))
                call.append("Immediate(%s)" % a)
            elif ty == "Condition":
                L.append(ind + "for %s in conds() {" % a)
                call.append(a)
            elif ty == "u8":
                L.append(ind + "for %s in %s {" % (a, _arr64(self.domains[i])))
                call.append("%s.to_uint8()" % a)
            elif ty == "i32":
                L.append(ind + "for %s in %s {" % (a, _arr64(self.domains[i])))
                call.append("%s.to_int32()" % a)
            ind += "    "
        callx = "asm.%s(%s);" % (self.name, ", ".join(call))
        if self.scens is None:
            L += [ind + "if st.take() {",
                  ind + "    st." + callx,
                  ind + "    st.done();",
                  ind + "}"]
        else:
            pairs = ", ".join("(%d, %d)" % sp for sp in self.scens)
            L += [ind + "for sp in Array[(Int64, Int64)]::new(%s) {" % pairs,
                  ind + "    if st.take() {",
                  ind + "        let scen = sp.0;",
                  ind + "        let pad = sp.1;",
                  ind + "        let asm = AssemblerX64::new(avx);",
                  ind + "        let ranges = Vec[Int64]::new();",
                  ind + "        let mut target = 0;",
                  ind + "        fill(asm, %d);" % PRE,
                  ind + "        if scen == 0 {",
                  ind + "            let l = asm.create_and_bind_label();",
                  ind + "            target = asm.size();",
                  ind + "            fill(asm, pad);",
                  ind + "            ranges.push(asm.size()); " + callx + " ranges.push(asm.size());",
                  ind + "        } else if scen == 1 {",
                  ind + "            let l = asm.create_label();",
                  ind + "            ranges.push(asm.size()); " + callx + " ranges.push(asm.size());",
                  ind + "            fill(asm, pad);",
                  ind + "            asm.bind_label(l);",
                  ind + "            target = asm.size();",
                  ind + "            fill(asm, 1);",
                  ind + "        } else {",
                  ind + "            let l = asm.create_label();",
                  ind + "            ranges.push(asm.size()); " + callx + " ranges.push(asm.size());",
                  ind + "            fill(asm, pad);",
                  ind + "            ranges.push(asm.size()); " + callx + " ranges.push(asm.size());",
                  ind + "            fill(asm, pad / 2);",
                  ind + "            asm.bind_label(l);",
                  ind + "            target = asm.size();",
                  ind + "            fill(asm, pad);",
                  ind + "            ranges.push(asm.size()); " + callx + " ranges.push(asm.size());",
                  ind + "        }",
                  ind + "        asm.resolve_jumps();",
                  ind + "        out_label(asm.finalize(), target, ranges);",
                  ind + "    }",
                  ind + "}"]
        for _ in self.plain:
            ind = ind[:-4]
            L.append(ind + "}")
        L += ["    st.flush();", "}", ""]
        return L


def gen_driver(methods, groups, conds, tier):
    L = [DORA_PRELUDE]
    L += _addr_builder("addrs2", address_shapes(tier, False))
    L += _addr_builder("addrs3", address_shapes(tier, True))
    L += ["fn conds(): Array[Condition] {",
          "    Array[Condition]::new(%s)" % ", ".join("Condition::" + c for c in conds), "}", ""]
    for m in methods:
        L += m.dora_fn()
    for g, members in enumerate(groups):
        L.append("fn group_%d(st: St) {" % g)
        for m in members:
            for avx in m.modes:
                L.append("    m_%s(st, %s);" % (m.name, "true" if avx else "false"))
        L += ["}", ""]
    L += ["@Test", "fn verif_c07() {",
          "    if std::argc() < 3i32 { return; }",
          "    let g = std::argv(0i32).to_int64().get_or_panic();",
          "    let st = St(n = 0, start = std::argv(1i32).to_int64().get_or_panic(),",
          "        batch = std::argv(2i32).to_int64().get_or_panic(), asm = AssemblerX64::new(false), avx = false,",
          "        ends = Vec[Int64]::new());",
          '    println("");', '    println("C07BEGIN");']
    for g in range(len(groups)):
        L.append("    if g == %d { group_%d(st); }" % (g, g))
    L += ['    println("C07END ${st.n}");', "}", ""]
    return "\n".join(L)


# ---- running -------------------------------------------------------------------------------------------
_GROUPS = None   # set before the pool forks: [[Method]]
_CONDS = None


BATCH = 4000


def _run_group_binary(args):
    """run group g of the twin binary.  Cases are printed in batches; when the process aborts (a Dora assert) the
    refused tuple is pinpointed by re-running from the last printed tuple with batch size 1, recorded, and the
    run continues behind it."""
    binary, g, total, segments, outdir = args
    lines = []          # output line per tuple index (None = refused)
    start = 0
    batch = BATCH
    refused = []
    restarts = 0
    while start < total:
        p = subprocess.run([binary, str(g), str(start), str(batch)], stdout=subprocess.PIPE, stderr=subprocess.PIPE,
                           env=dict(os.environ, DORA_FLAGS="--gc-worker 1"))
        out = p.stdout.decode("utf-8", "replace")
        pos = out.find("\nC07BEGIN\n")
        if pos < 0:
            return {"g": g, "error": "twin binary produced no C07BEGIN (exit %d): %s" % (
                p.returncode, (out[-500:] + p.stderr.decode("utf-8", "replace")[-1500:]))}
        body = out[pos + 10:].split("\n")
        done = False
        got = []
        for l in body[:-1]:
            if l.startswith("C07END"):
                done = True
                break
            got.append(l)
        lines.extend(got)
        if done:
            break
        if batch != 1:
            start = len(lines)
            batch = 1
            continue
        msg = "exit %d: %s" % (p.returncode, " | ".join(
            l.strip() for l in p.stderr.decode("utf-8", "replace").strip().split("\n")[:2]))
        seg = [s for s in segments if s[0] == len(lines)]
        if seg:
            # the very first tuple of a (method, has_avx2) enumeration is refused: the setting is refused
            refused.append((len(lines), "whole has_avx2 setting refused, " + msg))
            lines.extend([None] * (seg[0][1] - seg[0][0]))
        else:
            refused.append((len(lines), msg))
            lines.append(None)
        start = len(lines)
        batch = BATCH
        restarts += 1
        if restarts > MAX_RESTARTS:
            return {"g": g, "error": "more than %d refusals in group %d, first at tuple %d: %s" % (
                MAX_RESTARTS, g, refused[0][0], refused[0][1])}
    if len(lines) != total:
        return {"g": g, "error": "group %d printed %d tuples, %d enumerated" % (g, len(lines), total)}
    return {"g": g, "lines": lines, "refused": refused, "error": None}


def _run_group(args):
    """Worker: run the binary for one group, attach the requested text to every tuple (same enumeration order as
    the generated dora loops), write the shards and compare them with llvm-mc."""
    import time
    t0 = time.time()
    res = _run_group_binary(args)
    if res["error"]:
        return res
    t_bin = time.time() - t0
    binary, g, total, segments, outdir = args
    conds = _CONDS
    lines = res["lines"]
    refused_at = dict(res["refused"])
    out = {"g": g, "error": None, "cases": 0, "encoded": 0, "nontrivial": 0, "refusals": [], "per_method": {},
           "clobbers": {}, "crashes": {}, "shards": [], "t_bin": t_bin}
    std_hex, std_s, dir_hex, dir_exp = [], [], [], []
    idx = 0
    for m in _GROUPS[g]:
        pm = out["per_method"].setdefault(m.name, {"cases": 0, "encoded": 0, "refused": 0,
                                                   "has_avx2_settings": [int(a) for a in m.modes]})
        base = None
        for avx, exp0, meta0, sp in m.enumerate():
            line = lines[idx]
            here = idx
            idx += 1
            ncase = 1 if sp is None else (3 if sp[0] == 2 else 1)
            pm["cases"] += ncase
            out["cases"] += ncase
            if line is None:
                pm["refused"] += ncase
                if here in refused_at:
                    note = "%s has_avx2=%d %s %s: %s" % (m.name, avx, meta0, sp or "", refused_at[here][:300])
                    out["refusals"].append(note)
                    if "exit 102:" not in refused_at[here]:
                        # not an assert: the assembler crashed on these operands
                        out["crashes"].setdefault(m.name, []).append(note)
                continue
            if sp is None:
                cases = [(bytes.fromhex(line), None, "")]
            else:
                head, _, tail = line.partition(" :")
                h = head.split()
                target, clean, k = int(h[1]), int(h[2]), int(h[3])
                rng = [(int(h[4 + 2 * j]), int(h[5 + 2 * j])) for j in range(k)]
                nums_all = bytes(int(x) for x in tail.split())
                if not clean:
                    out["clobbers"].setdefault(m.name, []).append("avx=%d %s scen=%s pad=%d" % (
                        avx, meta0, ["back", "fwd", "multi"][sp[0]], sp[1]))
                cases = []
                off = 0
                for j, (s, e) in enumerate(rng):
                    cases.append((nums_all[off:off + e - s], target - e,
                                  " scen=%s pad=%d ref=%d at=%d target=%d" % (
                                      ["back", "fwd", "multi"][sp[0]], sp[1], j, s, target)))
                    off += e - s
            for nums, disp, extra in cases:
                pm["encoded"] += 1
                out["encoded"] += 1
                key = bytes(nums)
                if base is None:
                    base = key
                elif key != base:
                    out["nontrivial"] += 1
                if sp is None:
                    exp = exp0
                else:
                    dtext = str(disp) if exp0[1] == "rel" else "[rip%s]" % _disp(disp)
                    exp = "".join(dtext if q is None else q for q in exp0[0])
                meta = "%s avx=%d %s%s" % (m.name, avx, meta0, extra)
                if m.direct:
                    dir_hex.append(_hexline(nums))
                    dir_exp.append("%s # %s\n" % (exp, meta))
                else:
                    std_hex.append(_hexline(nums))
                    std_s.append("%s ; ud2 # %s\n" % (exp, meta))
    out["t_enum"] = time.time() - t0 - t_bin
    for kind, hx, tx, ext in (("std", std_hex, std_s, ".s"), ("direct", dir_hex, dir_exp, ".exp")):
        for k in range(0, len(hx), 100000):
            basep = os.path.join(outdir, "%s%03d_%03d" % (kind[0], g, k // 100000))
            with open(basep + ".hex", "w") as f:
                f.writelines(hx[k:k + 100000])
            with open(basep + ext, "w") as f:
                f.writelines(tx[k:k + 100000])
            r = pipeline.process_shard((kind, basep, len(hx[k:k + 100000]), False))
            if r["error"]:
                out["error"] = "llvm-mc pipeline: " + r["error"]
                return out
            out["shards"].append(r)
    out["t_llvm"] = time.time() - t0 - t_bin - out["t_enum"]
    return out


_HEXTOK = ["0x%02x" % i for i in range(256)]


def _hexline(nums):
    return "[" + " ".join([_HEXTOK[b] for b in nums]) + "] [0x0f 0x0b]\n"


def run(c, tier, scratch, only=None, rust_summary=None):
    """Returns dict(cases, nontrivial, samples, coverage) and registers violations on c."""
    root = boots_root()
    src_path = os.path.join(root, "assembler", "x64.dora")
    if not os.path.exists(src_path):
        raise vcommon.MachineryError("twin source not found: " + src_path)
    covered, uncovered, non_instr, conds = x64_spec.join_dora(open(src_path).read())
    rust_summary = rust_summary or {}
    methods = []
    skipped = []
    for name, args, tmpl, ph in covered:
        if only and name not in only:
            continue
        imms = None
        if name in x64_spec.DORA_ONLY:
            _, modes, imms = x64_spec.DORA_ONLY[name]
            modes = list(modes)
        elif name in rust_summary:
            st = rust_summary[name]
            modes = [m for m, ok in zip((False, True), st["zero_ok"]) if ok]
            imms = st["imm_ok"]
            # keep 0 first (all-zero tuple first)
            imms = sorted(imms, key=lambda v: (v != 0, abs(v), v))
        else:
            skipped.append(name)
            continue
        if any(a[1] == "Immediate" for a in args) and not imms:
            skipped.append(name)
            continue
        methods.append(Method(name, args, tmpl, ph, modes, imms or [], tier, conds))
    if not methods:
        return {"cases": 0, "nontrivial": 0, "samples": [], "coverage": {"methods_covered": 0, "skipped": skipped}}
    # groups: greedy bin packing by tuple count
    ngroups = max(1, min(len(methods), max(2, vcommon.NCPU - 2)))
    bins = [[0, []] for _ in range(ngroups)]
    for m in sorted(methods, key=lambda m: -m.total()):
        b = min(bins, key=lambda b: b[0])
        b[0] += m.total()
        b[1].append(m)
    groups = [b[1] for b in bins if b[1]]
    # build the test binary from a scratch copy of the package
    pkg = os.path.join(scratch, "boots")
    shutil.copytree(root, pkg)
    asm_file = os.path.join(pkg, "assembler.dora")
    text = open(asm_file).read()
    if not re.search(r"^pub mod x64;$", text, re.M):
        raise vcommon.MachineryError("cannot find `pub mod x64;` in assembler.dora")
    open(asm_file, "w").write(re.sub(r"^pub mod x64;$", "pub mod x64;\nmod verif_driver;", text, count=1, flags=re.M))
    # the package's own unit tests are not part of this check (and one failing would abort the binary before the
    # driver runs): drop their @Test annotation in the scratch copy
    for d, _, files in os.walk(pkg):
        for fn in files:
            if fn.endswith(".dora"):
                fp = os.path.join(d, fn)
                t = open(fp).read()
                t2 = re.sub(r"^(\s*)@Test\s*$", r"\1", t, flags=re.M)
                if t2 != t:
                    open(fp, "w").write(t2)
    open(os.path.join(pkg, "assembler", "verif_driver.dora"), "w").write(gen_driver(methods, groups, conds, tier))
    import time
    t0 = time.time()
    bindir = vcommon.build_plain(need_boots=False)
    binary = os.path.join(scratch, "twin-tests")
    p = vcommon.run([os.path.join(bindir, "dora"), "compile", "--internal-compile-boots", "--cannon", "--test",
                     os.path.join(pkg, "boots.dora"), "-o", binary], cwd=bindir, timeout=1200)
    if p.returncode != 0 or not os.path.exists(binary):
        err = p.stderr.decode("utf-8", "replace") + p.stdout.decode("utf-8", "replace")
        errs = "\n".join(re.findall(r"^error.*(?:\n.*){0,6}", err, re.M)[:4])
        raise vcommon.MachineryError("compiling the twin driver failed:\n" + (errs or err[-3000:]))
    vcommon.log("c07 twin: %d methods, %d tuples, driver compiled in %.1fs" % (
        len(methods), sum(m.total() for m in methods), time.time() - t0))
    t0 = time.time()
    outdir = os.path.join(scratch, "dora")
    os.makedirs(outdir)
    workers = max(2, vcommon.NCPU - 2)
    jobs = []
    for g, members in enumerate(groups):
        segs = []
        pos = 0
        for m in members:
            for _ in m.modes:
                segs.append((pos, pos + m.tuples_per_mode()))
                pos += m.tuples_per_mode()
        jobs.append((binary, g, pos, segs, outdir))
    global _GROUPS, _CONDS
    _GROUPS, _CONDS = groups, conds
    coll_groups = {}
    total_cases = 0
    encoded = 0
    nontrivial = 0
    normalized = 0
    refusals = []
    samples = []
    per_method = {}
    clobbers = {}
    crashes = {}
    tsum, tmax = {}, {}
    with multiprocessing.Pool(workers) as pool:
        for res in pool.imap_unordered(_run_group, jobs):
            if res["error"]:
                raise vcommon.MachineryError("dora twin: " + res["error"])
            for k in ("t_bin", "t_enum", "t_llvm"):
                tsum[k] = tsum.get(k, 0.0) + res[k]
                tmax[k] = max(tmax.get(k, 0.0), res[k])
            total_cases += res["cases"]
            encoded += res["encoded"]
            nontrivial += res["nontrivial"]
            refusals.extend(res["refusals"])
            per_method.update(res["per_method"])
            for k, v in res["clobbers"].items():
                clobbers.setdefault(k, []).extend(v)
            for k, v in res["crashes"].items():
                crashes.setdefault(k, []).extend(v)
            for r in res["shards"]:
                normalized += r["normalized"]
                samples.extend(r["samples"])
                for (method, what), grp in r["groups"].items():
                    key = "c07:dora:%s:%s" % (method, what)
                    cg = coll_groups.setdefault(key, {"count": 0, "examples": []})
                    cg["count"] += grp["count"]
                    cg["examples"] = sorted(cg["examples"] + grp["examples"], key=pipeline.case_weight)[:6]
    vcommon.log("c07 twin: compared in %.1fs (worker seconds, sum/max: %s)" % (time.time() - t0, ", ".join(
        "%s %.1f/%.1f" % (k[2:], tsum[k], tmax[k]) for k in sorted(tsum))))
    for key in sorted(coll_groups):
        grp = coll_groups[key]
        ex = grp["examples"][0]
        c.violation(key, "x64.dora %s(%s) has_avx2=%s emitted %s = `%s`, requested `%s` (llvm: `%s`); %d case(s) of this kind"
                    % (ex["method"], ex["operands"], ex.get("has_avx2"), ex["bytes"], ex["decoded"] or "<undecodable>",
                       ex["expected_text"], ex.get("reference_decoded", ""), grp["count"]),
                    {"tier": tier, "method": ex["method"], "count": grp["count"], "first": ex,
                     "examples": grp["examples"], "assembler": "pkgs/boots/assembler/x64.dora", "boots_root": root})
    for name, notes in sorted(clobbers.items()):
        c.violation("c07:dora:%s:label-fixup-clobbers" % name,
                    "x64.dora %s: resolving the label wrote outside the instruction in %d scenarios: %s"
                    % (name, len(notes), "; ".join(notes[:3])), {"method": name, "tier": tier, "notes": notes[:20]})
    for name, notes in sorted(crashes.items()):
        c.violation("c07:dora:%s:crash" % name,
                    "x64.dora %s: the process died (not an assert) on %d operand tuples: %s"
                    % (name, len(notes), "; ".join(notes[:2])), {"method": name, "tier": tier, "notes": notes[:20]})
    samples = sorted(samples, key=lambda s: (s["method"], s["operands"]))
    for s in samples:
        s["assembler"] = "x64.dora"
    step = max(1, len(samples) // 4)
    cov = {
        "source": src_path,
        "methods_in_source": len(covered) + len(uncovered) + len(non_instr),
        "methods_covered": len(per_method),
        "uncovered": ["%s (%s)" % u for u in uncovered] + ["%s (no operand information from the Rust run)" % n
                                                            for n in skipped if not only],
        "non_instruction": non_instr,
        "cases": total_cases, "cases_encoded_and_compared": encoded, "refusals": sum(pm["refused"] for pm in per_method.values()), "refusal_events": len(refusals),
        "refusal_examples": refusals[:10],
        "printer_aliases_normalized": normalized,
        "groups": len(groups),
        "per_method": per_method,
        "rule": "same products as the Rust side with reduced address sub-domains (" + (
            "2-operand: offset 16x{0,1,128,-2^31}, array 16x{rcx,rbp,r9,r12,r13}x{4}x{0}, index 15x{8}x{0}, rip {128}; "
            ">=3 operands: offset 16x{0,128}, array 16x{r9,r13}x{2}x{0}, index {r9}x{8}x{0}, rip {128}; "
            "rounding immediates {0,1,2,3,15,255}; 65536-byte label padding only for methods with <= 32 operand tuples"
            if tier == "quick" else
            "2-operand: offset/array/index/rip with all 16 bases, 15 indexes, 4 scales, d in {0,1,128,-2^31}; "
            ">=3 operands: array scale {1,8} x d {0,128}") +
            "); immediates and has_avx2 settings = those the Rust assembler accepts for the same method (a Dora assert "
            "aborts the process); all registers, conditions, rounding immediates, label scenarios as on the Rust side",
    }
    return {"cases": total_cases, "nontrivial": nontrivial, "samples": samples[::step][:4], "coverage": cov,
            "exhaustive": True}
