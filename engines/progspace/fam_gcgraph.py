"""Object-graph enumerator for C03, written in Dora (generated here, compiled by the toolchain under test).

The program enumerates EVERY object graph with n nodes and two reference slots per node (each slot nil or
one of the n nodes: (n+1)^(2n) graphs), x every non-empty root subset, x a collection plan (no / minor /
full collection after each build step), for one carrier (how a node stores its references) and one root
mode (where the roots live).  Each graph is built with the planned collections interleaved, garbage is
dropped, survivors are promoted, an old node is made to point to a fresh young node, and after every phase
the heap is compared with the integer encoding: exactly the expected nodes reachable, every edge right,
payloads intact, shared nodes still identical (===).  It prints counters and a checksum that depend only on
the enumeration, never on the collector.

usage of the compiled program:   prog <n> <lo> <hi> <plans>
   n      number of nodes (1..4)
   lo,hi  range of graph codes [lo, hi) out of (n+1)^(2n)
   plans  0: four plans (none, all minor, all full, alternating)   1: all 3^(n+2) plans
"""

CARRIERS = {
    # name: (declarations, mk, set, get)   -- N is the node type
    "class": dict(
        decl="""class N { id: Int64, pay: Int64, a: Option[N], b: Option[N] }
fn mk(id: Int64, pay: Int64): N { N(id = id, pay = pay, a = None[N], b = None[N]) }
fn set_ref(n: N, slot: Int64, t: Option[N]) { if slot == 0 { n.a = t; } else { n.b = t; } }
fn get_ref(n: N, slot: Int64): Option[N] { if slot == 0 { n.a } else { n.b } }
"""),
    "array": dict(
        decl="""class N { id: Int64, pay: Int64, e: Array[Option[N]] }
fn mk(id: Int64, pay: Int64): N { N(id = id, pay = pay, e = Array[Option[N]]::fill(2, None[N])) }
fn set_ref(n: N, slot: Int64, t: Option[N]) { n.e(slot) = t; }
fn get_ref(n: N, slot: Int64): Option[N] { n.e(slot) }
"""),
    "nested": dict(
        decl="""struct InS { r: Option[N], k: Int64 }
struct PairS { x: Int64, inner: InS }
class N { id: Int64, a: PairS, pay: Int64, b: (Int64, (Option[N], Float64), Float64) }
fn mk(id: Int64, pay: Int64): N {
  N(id = id, a = PairS(x = id, inner = InS(r = None[N], k = 3)), pay = pay, b = (id, (None[N], 0.25), 0.5))
}
fn set_ref(n: N, slot: Int64, t: Option[N]) {
  if slot == 0 { n.a = PairS(x = n.id + 1, inner = InS(r = t, k = 4)); } else { n.b = (n.id + 2, (t, 2.5), 1.5); }
}
fn get_ref(n: N, slot: Int64): Option[N] { if slot == 0 { assert(n.a.inner.k >= 3); n.a.inner.r } else { (n.b.1).0 } }
"""),
    "flat": dict(
        decl="""struct PairS { x: Int64, r: Option[N] }
class N { id: Int64, a: PairS, pay: Int64, b: (Int64, Option[N], Float64) }
fn mk(id: Int64, pay: Int64): N { N(id = id, a = PairS(x = id, r = None[N]), pay = pay, b = (id, None[N], 0.5)) }
fn set_ref(n: N, slot: Int64, t: Option[N]) { if slot == 0 { n.a.r = t; } else { n.b = (n.id + 2, t, 1.5); } }
fn get_ref(n: N, slot: Int64): Option[N] { if slot == 0 { n.a.r } else { n.b.1 } }
"""),
    "enum": dict(
        decl="""enum Link { Nil, To(N), Tagged(Int64, N) }
class N { id: Int64, pay: Int64, a: Link, b: Link }
fn mk(id: Int64, pay: Int64): N { N(id = id, pay = pay, a = Link::Nil, b = Link::Nil) }
fn to_link(slot: Int64, t: Option[N]): Link {
  if t.is_none() { Link::Nil } else if slot == 0 { Link::To(t.get_or_panic()) } else { Link::Tagged(77, t.get_or_panic()) }
}
fn from_link(l: Link): Option[N] { match l { Link::Nil => None[N], Link::To(n) => Some[N](n), Link::Tagged(_, n) => Some[N](n) } }
fn set_ref(n: N, slot: Int64, t: Option[N]) { if slot == 0 { n.a = to_link(slot, t); } else { n.b = to_link(slot, t); } }
fn get_ref(n: N, slot: Int64): Option[N] { if slot == 0 { from_link(n.a) } else { from_link(n.b) } }
"""),
    "vec": dict(
        decl="""class N { id: Int64, pay: Int64, e: Vec[Option[N]], s: String }
fn mk(id: Int64, pay: Int64): N {
  let v = Vec[Option[N]]::new();
  v.push(None[N]); v.push(None[N]);
  N(id = id, pay = pay, e = v, s = "n" + id.to_string())
}
fn set_ref(n: N, slot: Int64, t: Option[N]) { n.e(slot) = t; n.e.push(None[N]); let _ = n.e.pop(); }
fn get_ref(n: N, slot: Int64): Option[N] { assert(n.s == "n" + n.id.to_string()); n.e(slot) }
"""),
    "lambda": dict(
        decl="""class N { id: Int64, pay: Int64, a: (): Option[N], b: (): Option[N] }
fn mk(id: Int64, pay: Int64): N { N(id = id, pay = pay, a = ||: Option[N] { None[N] }, b = ||: Option[N] { None[N] }) }
fn set_ref(n: N, slot: Int64, t: Option[N]) {
  let f = ||: Option[N] { t };
  if slot == 0 { n.a = f; } else { n.b = f; }
}
fn get_ref(n: N, slot: Int64): Option[N] { if slot == 0 { let f = n.a; f() } else { let f = n.b; f() } }
"""),
    "trait": dict(
        decl="""trait Holder { fn target(): Option[N]; }
class Empty
class Full { t: N, pad: Int64 }
impl Holder for Empty { fn target(): Option[N] { None[N] } }
impl Holder for Full { fn target(): Option[N] { assert(self.pad == 9); Some[N](self.t) } }
class N { id: Int64, pay: Int64, a: Holder, b: Holder }
fn hold(t: Option[N]): Holder { if t.is_none() { Empty() as Holder } else { Full(t = t.get_or_panic(), pad = 9) as Holder } }
fn mk(id: Int64, pay: Int64): N { N(id = id, pay = pay, a = hold(None[N]), b = hold(None[N])) }
fn set_ref(n: N, slot: Int64, t: Option[N]) { if slot == 0 { n.a = hold(t); } else { n.b = hold(t); } }
fn get_ref(n: N, slot: Int64): Option[N] { if slot == 0 { n.a.target() } else { n.b.target() } }
"""),
}

ROOTMODES = ("array", "locals", "globals")

COMMON = r"""
let mut G0: Option[N] = None[N];
let mut G1: Option[N] = None[N];
let mut G2: Option[N] = None[N];
let mut G3: Option[N] = None[N];
let mut FAILS: Int64 = 0;
let mut COLLECTIONS: Int64 = 0;

fn gc(kind: Int64) {
  if kind == 1 { std::force_minor_collect(); COLLECTIONS = COLLECTIONS + 1; }
  else if kind == 2 { std::force_collect(); COLLECTIONS = COLLECTIONS + 1; }
}

fn plan_step(plan: Int64, step: Int64): Int64 {
  let mut p = plan;
  let mut i = 0;
  while i < step { p = p / 3; i = i + 1; }
  p % 3
}

fn fail(what: String, n: Int64, code: Int64, roots: Int64, plan: Int64) {
  FAILS = FAILS + 1;
  if FAILS <= 20 { println("MISMATCH ${what} n=${n} code=${code} roots=${roots} plan=${plan}"); }
}

fn digit(code: Int64, base: Int64, pos: Int64): Int64 {
  let mut c = code;
  let mut i = 0;
  while i < pos { c = c / base; i = i + 1; }
  c % base
}

fn bit(mask: Int64, i: Int64): Bool { digit(mask, 2, i) == 1 }

// expected reachable set (as bit mask) computed on the integer encoding only
fn expected_reach(n: Int64, code: Int64, roots: Int64): Int64 {
  let seen = Array[Bool]::fill(n, false);
  let mut changed = true;
  let mut i = 0;
  while i < n { if bit(roots, i) { seen(i) = true; } i = i + 1; }
  while changed {
    changed = false;
    i = 0;
    while i < n {
      if seen(i) {
        let mut s = 0;
        while s < 2 {
          let d = digit(code, n + 1, 2 * i + s);
          if d > 0 && !seen(d - 1) { seen(d - 1) = true; changed = true; }
          s = s + 1;
        }
      }
      i = i + 1;
    }
  }
  let mut m = 0;
  let mut w = 1;
  i = 0;
  while i < n { if seen(i) { m = m + w; } w = w * 2; i = i + 1; }
  m
}

fn pay_of(id: Int64, code: Int64): Int64 { id * 1000003 + code * 7 + 1 }

// walks the real heap from one root; records the object found for every id; checks identity of shared nodes
fn walk(node: N, n: Int64, code: Int64, found: Array[Option[N]], extra: Int64): Bool {
  let id = node.id;
  if id < 0 || id >= n { return false; }
  if found(id).is_some() { return found(id).get_or_panic() === node; }
  found(id) = Some[N](node);
  if node.pay != pay_of(id, code) { return false; }
  let mut s = 0;
  while s < 2 {
    let d = digit(code, n + 1, 2 * id + s);
    let r = get_ref(node, s);
    if extra == id * 2 + s {
      // phase 2 replaced this slot by a fresh node with id 100 pointing back to `node`
      if r.is_none() { return false; }
      let y = r.get_or_panic();
      if y.id != 100 || y.pay != 4242 { return false; }
      let back = get_ref(y, 0);
      if back.is_none() || !(back.get_or_panic() === node) { return false; }
      if get_ref(y, 1).is_some() { return false; }
    } else if d == 0 {
      if r.is_some() { return false; }
    } else {
      if r.is_none() { return false; }
      let t = r.get_or_panic();
      if t.id != d - 1 { return false; }
      if !walk(t, n, code, found, extra) { return false; }
    }
    s = s + 1;
  }
  true
}

fn verify(r0: Option[N], r1: Option[N], r2: Option[N], r3: Option[N], n: Int64, code: Int64, roots: Int64, extra: Int64): Bool {
  let found = Array[Option[N]]::fill(n, None[N]);
  let mut ok = true;
  let mut i = 0;
  while i < n {
    let r = if i == 0 { r0 } else if i == 1 { r1 } else if i == 2 { r2 } else { r3 };
    if bit(roots, i) {
      if r.is_none() { ok = false; }
      else {
        let node = r.get_or_panic();
        if node.id != i { ok = false; }
        else if !walk(node, n, code, found, extra) { ok = false; }
      }
    } else if r.is_some() { ok = false; }
    i = i + 1;
  }
  // with the phase-2 edge in place the replaced slot no longer reaches its old target
  let exp = if extra < 0 { expected_reach(n, code, roots) } else { expected_reach(n, code_without(code, n, extra), roots) };
  let mut m = 0;
  let mut w = 1;
  i = 0;
  while i < n { if found(i).is_some() { m = m + w; } w = w * 2; i = i + 1; }
  ok && m == exp
}

fn code_without(code: Int64, n: Int64, pos: Int64): Int64 {
  let mut w = 1;
  let mut i = 0;
  while i < pos { w = w * (n + 1); i = i + 1; }
  code - digit(code, n + 1, pos) * w
}

fn lowest_root(roots: Int64, n: Int64): Int64 {
  let mut i = 0;
  while i < n { if bit(roots, i) { return i; } i = i + 1; }
  0 - 1
}
"""

# one graph, roots kept in the given place
ONE_ARRAY = r"""
fn one(n: Int64, code: Int64, roots: Int64, plan: Int64): Int64 {
  let all = Array[Option[N]]::fill(n, None[N]);
  let mut i = 0;
  while i < n { all(i) = Some[N](mk(i, pay_of(i, code))); gc(plan_step(plan, i)); i = i + 1; }
  i = 0;
  while i < n {
    let mut s = 0;
    while s < 2 {
      let d = digit(code, n + 1, 2 * i + s);
      if d > 0 { set_ref(all(i).get_or_panic(), s, all(d - 1)); }
      s = s + 1;
    }
    i = i + 1;
  }
  gc(plan_step(plan, n));
  i = 0;
  while i < n { if !bit(roots, i) { all(i) = None[N]; } i = i + 1; }
  gc(plan_step(plan, n + 1));
  let r3 = if n > 3 { all(3) } else { None[N] };
  let r2 = if n > 2 { all(2) } else { None[N] };
  let r1 = if n > 1 { all(1) } else { None[N] };
  if !verify(all(0), r1, r2, r3, n, code, roots, 0 - 1) { fail("after-build", n, code, roots, plan); return 0; }
  // phase 2: promote the survivors, then make an old node point to a young one
  std::force_minor_collect(); std::force_minor_collect();
  let x = lowest_root(roots, n);
  let slot = code % 2;
  let y = mk(100, 4242);
  set_ref(y, 0, all(x));
  set_ref(all(x).get_or_panic(), slot, Some[N](y));
  std::force_minor_collect();
  let r3 = if n > 3 { all(3) } else { None[N] };
  let r2 = if n > 2 { all(2) } else { None[N] };
  let r1 = if n > 1 { all(1) } else { None[N] };
  if !verify(all(0), r1, r2, r3, n, code, roots, x * 2 + slot) { fail("old-to-young-minor", n, code, roots, plan); return 0; }
  gc(2 - plan % 2);
  let r3 = if n > 3 { all(3) } else { None[N] };
  let r2 = if n > 2 { all(2) } else { None[N] };
  let r1 = if n > 1 { all(1) } else { None[N] };
  if !verify(all(0), r1, r2, r3, n, code, roots, x * 2 + slot) { fail("old-to-young-final", n, code, roots, plan); return 0; }
  expected_reach(n, code, roots)
}
"""

ONE_LOCALS = r"""
fn pick(i: Int64, r0: Option[N], r1: Option[N], r2: Option[N], r3: Option[N]): Option[N] {
  if i == 0 { r0 } else if i == 1 { r1 } else if i == 2 { r2 } else if i == 3 { r3 } else { None[N] }
}

fn one(n: Int64, code: Int64, roots: Int64, plan: Int64): Int64 {
  // every node lives only in a local variable (a stack slot or register of this frame) while collections run
  let mut r0 = None[N];
  let mut r1 = None[N];
  let mut r2 = None[N];
  let mut r3 = None[N];
  r0 = Some[N](mk(0, pay_of(0, code))); gc(plan_step(plan, 0));
  if n > 1 { r1 = Some[N](mk(1, pay_of(1, code))); gc(plan_step(plan, 1)); }
  if n > 2 { r2 = Some[N](mk(2, pay_of(2, code))); gc(plan_step(plan, 2)); }
  if n > 3 { r3 = Some[N](mk(3, pay_of(3, code))); gc(plan_step(plan, 3)); }
  let mut i = 0;
  while i < n {
    let mut s = 0;
    while s < 2 {
      let d = digit(code, n + 1, 2 * i + s);
      if d > 0 { set_ref(pick(i, r0, r1, r2, r3).get_or_panic(), s, pick(d - 1, r0, r1, r2, r3)); }
      s = s + 1;
    }
    i = i + 1;
  }
  gc(plan_step(plan, n));
  if !bit(roots, 0) { r0 = None[N]; }
  if !bit(roots, 1) { r1 = None[N]; }
  if !bit(roots, 2) { r2 = None[N]; }
  if !bit(roots, 3) { r3 = None[N]; }
  gc(plan_step(plan, n + 1));
  if !verify(r0, r1, r2, r3, n, code, roots, 0 - 1) { fail("after-build", n, code, roots, plan); return 0; }
  std::force_minor_collect(); std::force_minor_collect();
  let x = lowest_root(roots, n);
  let slot = code % 2;
  let y = mk(100, 4242);
  set_ref(y, 0, pick(x, r0, r1, r2, r3));
  set_ref(pick(x, r0, r1, r2, r3).get_or_panic(), slot, Some[N](y));
  std::force_minor_collect();
  if !verify(r0, r1, r2, r3, n, code, roots, x * 2 + slot) { fail("old-to-young-minor", n, code, roots, plan); return 0; }
  gc(2 - plan % 2);
  if !verify(r0, r1, r2, r3, n, code, roots, x * 2 + slot) { fail("old-to-young-final", n, code, roots, plan); return 0; }
  expected_reach(n, code, roots)
}
"""

ONE_GLOBALS = r"""
fn gget(i: Int64): Option[N] { if i == 0 { G0 } else if i == 1 { G1 } else if i == 2 { G2 } else if i == 3 { G3 } else { None[N] } }
fn gset(i: Int64, v: Option[N]) { if i == 0 { G0 = v; } else if i == 1 { G1 = v; } else if i == 2 { G2 = v; } else if i == 3 { G3 = v; } }

fn one(n: Int64, code: Int64, roots: Int64, plan: Int64): Int64 {
  let mut i = 0;
  while i < 4 { gset(i, None[N]); i = i + 1; }
  i = 0;
  while i < n { gset(i, Some[N](mk(i, pay_of(i, code)))); gc(plan_step(plan, i)); i = i + 1; }
  i = 0;
  while i < n {
    let mut s = 0;
    while s < 2 {
      let d = digit(code, n + 1, 2 * i + s);
      if d > 0 { set_ref(gget(i).get_or_panic(), s, gget(d - 1)); }
      s = s + 1;
    }
    i = i + 1;
  }
  gc(plan_step(plan, n));
  i = 0;
  while i < n { if !bit(roots, i) { gset(i, None[N]); } i = i + 1; }
  gc(plan_step(plan, n + 1));
  if !verify(G0, G1, G2, G3, n, code, roots, 0 - 1) { fail("after-build", n, code, roots, plan); return 0; }
  std::force_minor_collect(); std::force_minor_collect();
  let x = lowest_root(roots, n);
  let slot = code % 2;
  let y = mk(100, 4242);
  set_ref(y, 0, gget(x));
  set_ref(gget(x).get_or_panic(), slot, Some[N](y));
  std::force_minor_collect();
  if !verify(G0, G1, G2, G3, n, code, roots, x * 2 + slot) { fail("old-to-young-minor", n, code, roots, plan); return 0; }
  gc(2 - plan % 2);
  if !verify(G0, G1, G2, G3, n, code, roots, x * 2 + slot) { fail("old-to-young-final", n, code, roots, plan); return 0; }
  expected_reach(n, code, roots)
}
"""

MAIN = r"""
fn pow(b: Int64, e: Int64): Int64 { let mut r = 1; let mut i = 0; while i < e { r = r * b; i = i + 1; } r }

fn main() {
  let n = std::argv(0i32).to_int64().get_or_panic();
  let lo = std::argv(1i32).to_int64().get_or_panic();
  let mut hi = std::argv(2i32).to_int64().get_or_panic();
  let allplans = std::argv(3i32).to_int64().get_or_panic();
  let total = pow(n + 1, 2 * n);
  if hi > total { hi = total; }
  let nplans = pow(3, n + 2);
  let mut graphs = 0;
  let mut checksum = 0;
  let mut code = lo;
  while code < hi {
    let mut roots = 1;
    while roots < pow(2, n) {
      if allplans == 1 {
        let mut plan = 0;
        while plan < nplans { checksum = (checksum * 31 + one(n, code, roots, plan) + 1) % 1000000007; graphs = graphs + 1; plan = plan + 1; }
      } else {
        // none, minor after every step, full after every step, alternating minor/full
        checksum = (checksum * 31 + one(n, code, roots, 0) + 1) % 1000000007;
        checksum = (checksum * 31 + one(n, code, roots, (nplans - 1) / 2) + 1) % 1000000007;
        checksum = (checksum * 31 + one(n, code, roots, nplans - 1) + 1) % 1000000007;
        checksum = (checksum * 31 + one(n, code, roots, alternating(n + 2)) + 1) % 1000000007;
        graphs = graphs + 4;
      }
      roots = roots + 1;
    }
    code = code + 1;
  }
  println("graphs=${graphs} checksum=${checksum} collections=${COLLECTIONS} fails=${FAILS}");
  if FAILS > 0 { std::exit(3i32); }
}

fn alternating(steps: Int64): Int64 { let mut p = 0; let mut i = 0; while i < steps { p = p * 3 + 1 + i % 2; i = i + 1; } p }
"""


def source(carrier, rootmode):
    one = {"array": ONE_ARRAY, "locals": ONE_LOCALS, "globals": ONE_GLOBALS}[rootmode]
    return "use std::string::Stringable;\n" + CARRIERS[carrier]["decl"] + COMMON + one + MAIN


def total_codes(n):
    return (n + 1) ** (2 * n)


def expected_graphs(n, lo, hi, allplans):
    hi = min(hi, total_codes(n))
    per = (2 ** n - 1) * (3 ** (n + 2) if allplans else 4)
    return max(0, hi - lo) * per
