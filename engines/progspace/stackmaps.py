"""Static analysis of the assembly files written by `dora compile -S` (C10).

parse()      reads one .s: the machine code of every function (`.byte` lines between the global label and
             `.Ldora_aot_function_end_N`), its `.reloc` entries, the code-offset labels of jump tables and the metadata
             tables (.dora.functions/.gcpoints/.gcpoint_offsets/.gcpoint_interior_pointers/.locations/.inlined_functions/
             .function_info) with the layouts of dora-runtime/src/startup.rs.
disassemble() runs llvm-mc once per file over the code of all functions (linear sweep; 16 separator bytes between
             functions) and cuts the instruction stream back into functions with exact byte offsets.
analyse()    checks every function of the file and returns (problems, statistics).

Nothing here samples: every function of a parsed file is analysed.
"""
import re
import subprocess

NO_INLINED = 0xFFFFFFFF

KIND_OPTIMIZED = 0
KIND_RUNTIME_ENTRY = 1
KIND_DORA_ENTRY = 2
KIND_ALLOC_FAILURE = 3
KIND_TRAP = 4
KIND_SAFEPOINT = 5
KIND_UNREACHABLE = 6
KIND_FATAL_ERROR = 7
KIND_STACK_OVERFLOW = 8
KIND_NAMES = {0: "optimized", 1: "runtime-entry", 2: "dora-entry", 3: "gc-allocation", 4: "trap", 5: "safepoint",
              6: "unreachable", 7: "fatal-error", 8: "stack-overflow"}
# kinds whose frames are scanned with the map stored at offset 0 (dora-runtime/src/gc/root.rs)
KINDS_MAP_AT_ZERO = (KIND_RUNTIME_ENTRY, KIND_UNREACHABLE, KIND_FATAL_ERROR, KIND_STACK_OVERFLOW)
# callee kinds after which a collection can see the caller's frame: the return address needs a map
REQUIRED_CALLEE_KINDS = (KIND_OPTIMIZED, KIND_RUNTIME_ENTRY, KIND_ALLOC_FAILURE, KIND_SAFEPOINT)
# callees that never return into the frame: a map is allowed but not demanded.
# Calibration (unchanged tree): cannon records one for the stack-overflow call, boots does not; both record one for
# trap/unreachable/fatal calls where they are emitted through the ordinary runtime-call path.
OPTIONAL_CALLEE_KINDS = (KIND_TRAP, KIND_UNREACHABLE, KIND_FATAL_ERROR, KIND_STACK_OVERFLOW)
# external (non-table) call targets reachable from compiled code; the write barrier slow path only appends to the
# remembered set and cannot collect: neither generator records a map for it.
OPTIONAL_EXTERNALS = ("dora_aot_write_barrier_slow_path",)



class ParseError(Exception):
    pass


class Func:
    __slots__ = ("sym", "index", "code", "relocs", "labels", "end_label", "addr", "insns", "sync_lost", "line", "decoded_end",
                 "data_start")

    def __init__(self, sym, index, line):
        self.sym = sym
        self.index = index
        self.code = bytearray()
        self.relocs = []     # (offset, type, target symbol, addend text)
        self.labels = []     # code offsets that are jump-table targets
        self.end_label = None
        self.addr = None     # address inside .text
        self.insns = None    # [(offset, length, text)]
        self.sync_lost = []  # offsets of bytes llvm-mc could not decode
        self.line = line


class Asm:
    def __init__(self):
        self.funcs = []          # Func in file order (everything between a global label in .text and an end label)
        self.by_sym = {}
        self.text_labels = {}    # label -> address in .text (all labels, local ones included)
        self.text_label_count = {}
        self.globl = []
        self.sections = {}       # section name -> [('q'|'l', value)] where value is int or (symbol, addend)
        self.opaque_text_after = None
        self.arch = None


_RE_BYTE = re.compile(r"0x([0-9a-fA-F]{2})")
_RE_RELOC = re.compile(r"\.reloc\s+([^\s,+]+)\+(\d+)(?:\+(\d+))?,\s*(\S+),\s*(\S+)(?:\s*([-+])\s*(\d+))?\s*$")
_RE_SYMOFF = re.compile(r"([A-Za-z_.$][\w.$]*)(?:\s*\+\s*(\d+))?$")


def _value(tok):
    tok = tok.strip()
    try:
        return int(tok, 0)
    except ValueError:
        m = _RE_SYMOFF.match(tok)
        if not m:
            raise ParseError("cannot parse data value %r" % tok)
        return (m.group(1), int(m.group(2) or 0))


def parse(path):
    a = Asm()
    section = ".text"
    pos = 0            # address in .text
    cur = None         # function being read
    pending_globl = None
    opaque = False     # instructions of unknown size seen in .text (only the final `main`)
    with open(path, "r", errors="replace") as f:
        for lineno, raw in enumerate(f, 1):
            line = raw.strip()
            if not line:
                continue
            if section == ".text":
                if line.startswith(".byte"):
                    bs = bytes(int(x, 16) for x in _RE_BYTE.findall(line))
                    if not bs:
                        bs = bytes([int(line[5:].strip(), 0) & 0xff])
                    if cur is not None:
                        cur.code += bs
                    pos += len(bs)
                    continue
                if line.startswith(".reloc"):
                    m = _RE_RELOC.match(line)
                    if not m:
                        raise ParseError("%s:%d: cannot parse %r" % (path, lineno, line))
                    base, off, off2, typ, target, sign, addend = m.groups()
                    if cur is None or base != cur.sym:
                        raise ParseError("%s:%d: relocation against %s outside its function" % (path, lineno, base))
                    cur.relocs.append((int(off) + int(off2 or 0), typ, target, (sign or "") + (addend or "")))
                    continue
            if line.startswith(".p2align"):
                if section == ".text":
                    al = 1 << int(line.split()[1])
                    pos = (pos + al - 1) // al * al
                continue
            if line.startswith(".globl"):
                g = line.split()[1]
                a.globl.append((g, section))
                if section == ".text":
                    pending_globl = g
                continue
            if line == ".text":
                section = ".text"
                continue
            if line == ".bss":
                section = ".bss"
                continue
            if line.startswith(".section"):
                section = line.split()[1].split(",")[0]
                continue
            if line.endswith(":") and " " not in line:
                lab = line[:-1]
                if section == ".text":
                    a.text_label_count[lab] = a.text_label_count.get(lab, 0) + 1
                    a.text_labels[lab] = pos
                    if opaque:
                        raise ParseError("%s:%d: label %s after code of unknown size" % (path, lineno, lab))
                    if lab.startswith(".Ldora_aot_function_end_") or lab == ".Ldora_entry_trampoline_end":
                        if cur is None:
                            raise ParseError("%s:%d: end label %s without function" % (path, lineno, lab))
                        cur.end_label = lab
                        cur = None
                    elif lab.startswith(".L"):
                        if cur is None:
                            raise ParseError("%s:%d: local label %s outside a function" % (path, lineno, lab))
                        m = re.match(r"\.L(.*)_offset_(\d+)$", lab)
                        if not m or m.group(1) != cur.sym or int(m.group(2)) != len(cur.code):
                            raise ParseError("%s:%d: code-offset label %s does not match its position %s+%d" % (
                                path, lineno, lab, cur.sym, len(cur.code)))
                        cur.labels.append(len(cur.code))
                    else:
                        if cur is not None:
                            # a global label inside another function's range
                            raise ParseError("%s:%d: label %s inside function %s" % (path, lineno, lab, cur.sym))
                        if lab in ("main", "dora_gc_collector"):
                            pending_globl = None
                            continue
                        if pending_globl != lab:
                            raise ParseError("%s:%d: function label %s without .globl" % (path, lineno, lab))
                        pending_globl = None
                        cur = Func(lab, len(a.funcs), lineno)
                        cur.addr = pos
                        a.funcs.append(cur)
                        a.by_sym.setdefault(lab, []).append(cur)
                continue
            if section == ".text":
                # real instructions: only the C entry `main` at the very end of .text
                if cur is not None:
                    raise ParseError("%s:%d: unexpected line inside function %s: %r" % (path, lineno, cur.sym, line))
                opaque = True
                continue
            if line.startswith(".long"):
                a.sections.setdefault(section, []).append(("l", _value(line[5:])))
            elif line.startswith(".quad"):
                a.sections.setdefault(section, []).append(("q", _value(line[5:])))
            # .byte/.zero in data sections are not needed
    if cur is not None:
        raise ParseError("%s: function %s has no end label" % (path, cur.sym))
    return a


# ---------------------------------------------------------------------------------------------
# metadata tables

class FnEntry:
    __slots__ = ("start", "end", "fct_id", "kind", "info", "gc_start", "gc_len", "loc_start", "loc_len",
                 "inl_start", "inl_len", "pad", "row")


def _ints(a, section, kinds):
    toks = a.sections.get(section, [])
    for k, v in toks:
        if k not in kinds or not isinstance(v, int):
            raise ParseError("unexpected entry %r in %s" % ((k, v), section))
    return [v for _, v in toks]


def tables(a):
    """Decodes the metadata sections.  Returns dict with functions, gcpoints, offsets, interior, locations, inlined, ninfo."""
    toks = a.sections.get(".dora.functions", [])
    if len(toks) % 12:
        raise ParseError(".dora.functions: %d values, not a multiple of 12" % len(toks))
    fns = []
    for i in range(0, len(toks), 12):
        row = toks[i:i + 12]
        if [k for k, _ in row] != ["q", "q"] + ["l"] * 10:
            raise ParseError(".dora.functions entry %d has the wrong shape" % (i // 12))
        e = FnEntry()
        e.row = i // 12
        e.start, e.end = row[0][1], row[1][1]
        if not (isinstance(e.start, tuple) and isinstance(e.end, tuple)):
            raise ParseError(".dora.functions entry %d: code range is not symbolic" % e.row)
        vals = [v for _, v in row[2:]]
        if not all(isinstance(v, int) for v in vals):
            raise ParseError(".dora.functions entry %d: non-numeric field" % e.row)
        (e.fct_id, e.kind, e.info, e.gc_start, e.gc_len, e.loc_start, e.loc_len, e.inl_start, e.inl_len, e.pad) = vals
        fns.append(e)

    def rows(section, n):
        v = _ints(a, section, ("l",))
        if len(v) % n:
            raise ParseError("%s: %d values, not a multiple of %d" % (section, len(v), n))
        return [tuple(v[i:i + n]) for i in range(0, len(v), n)]

    def signed(v):
        v &= 0xFFFFFFFF
        return v - (1 << 32) if v & 0x80000000 else v
    return {
        "functions": fns,
        "gcpoints": rows(".dora.gcpoints", 5),
        "offsets": [signed(v) for v in _ints(a, ".dora.gcpoint_offsets", ("l",))],
        "interior": [signed(v) for v in _ints(a, ".dora.gcpoint_interior_pointers", ("l",))],
        "locations": [tuple(x & 0xFFFFFFFF for x in r) for r in rows(".dora.locations", 4)],
        "inlined": [tuple(x & 0xFFFFFFFF for x in r) for r in rows(".dora.inlined_functions", 4)],
        "ninfo": len(rows(".dora.function_info", 4)),
    }


# ---------------------------------------------------------------------------------------------
# disassembly

_RE_ENC = re.compile(r"encoding: \[([^\]]*)\]")
_RE_WARN = re.compile(r"^<stdin>:(\d+):(\d+): warning: (.*)$")


_SEP = {
    # a block of its own between two functions: decodes to exactly these instructions
    "x64": ("0x0f 0x0b 0xf4 0x0f 0x0b 0xf4 0x0f 0x0b", ["ud2", "hlt", "ud2", "hlt", "ud2"]),
    "arm64": ("0x00 0x82 0x4f 0xd4 0x20 0x86 0x48 0xd4 0x00 0x82 0x4f 0xd4", ["hlt #0x7c10", "hlt #0x4431", "hlt #0x7c10"]),
}


def disassemble(a, arch, funcs=None):
    """Fills f.insns for every function (or the given ones) with one llvm-mc process (linear sweep per function).
    Every function is an atomic block `[ bytes ]` of the input, followed by a separator block: decoding of a block
    stops at its first undecodable byte and the next block starts cleanly.  llvm-mc prints no addresses; offsets come
    from the re-encoding it prints (--show-encoding), and every instruction's re-encoded bytes are compared with the
    function's bytes at that offset -- the sweep stops at the first difference (f.decoded_end).  So an instruction list
    that reaches the end of the code is known to be in step with the bytes."""
    funcs = a.funcs if funcs is None else funcs
    sep_bytes, sep_txt = _SEP[arch]
    lines = []
    for f in funcs:
        lines.append("[ " + " ".join("0x%02x" % b for b in f.code) + " ]")
        lines.append("[ " + sep_bytes + " ]")
    text = "\n".join(lines) + "\n"
    if arch == "x64":
        cmd = ["llvm-mc", "--disassemble", "-triple=x86_64", "-output-asm-variant=1", "--show-encoding"]
    else:
        cmd = ["llvm-mc", "--disassemble", "-triple=aarch64", "-mattr=+lse,+v8.1a,+fp-armv8,+neon", "--show-encoding"]
    p = subprocess.run(cmd, input=text.encode(), stdout=subprocess.PIPE, stderr=subprocess.PIPE)
    if p.returncode != 0 and not p.stdout:
        raise ParseError("llvm-mc failed: " + p.stderr.decode("utf-8", "replace")[-1000:])
    chunks = [[]]
    nsep = len(sep_txt)
    for l in p.stdout.decode("utf-8", "replace").splitlines():
        m = _RE_ENC.search(l)
        if not m:
            continue
        txt = l[:m.start()].rstrip().rstrip("#/").strip()
        cur = chunks[-1]
        cur.append((m.group(1), txt))
        if len(cur) >= nsep and _norm(txt) == sep_txt[-1] and [_norm(x[1]) for x in cur[-nsep:]] == sep_txt:
            del cur[-nsep:]
            chunks.append([])
    if len(chunks) != len(funcs) + 1 or chunks[-1]:
        raise ParseError("disassembly: %d instruction groups for %d functions" % (len(chunks) - 1, len(funcs)))
    for f, chunk in zip(funcs, chunks):
        code = f.code
        size = len(code)
        insns = []
        off = 0
        for enc, txt in chunk:
            parts = enc.split(",")
            n = len(parts)
            if off + n > size:
                break
            ok = True
            for i, b in enumerate(parts):
                if b[0] == "0" and int(b, 16) != code[off + i]:
                    ok = False
                    break
            if not ok:
                break
            insns.append((off, n, txt))
            off += n
        f.insns = insns
        f.decoded_end = off
        cut_data_region(f, arch)
        f.sync_lost = [f.decoded_end] if f.decoded_end < f.data_start else []


_RE_RIPREL = re.compile(r"\[rip ([-+]) (\d+)\]")
_RE_A64_LIT = re.compile(r"^(?:ldr|ldrsw|prfm|adr) \w+, #(\d+)$")


def cut_data_region(f, arch):
    """The baseline generator appends its constant pool (float constants ...) to the function's code and addresses it
    pc-relatively with a fixed displacement (no relocation).  Code precedes data: the first such address marks the end
    of the instructions; the linear sweep is cut there (what it decoded from the constants is not code)."""
    size = len(f.code)
    rel = set(o for o, _, _, _ in f.relocs)
    data = size
    keep = []
    for off, n, txt in f.insns:
        if off >= data:
            break
        keep.append((off, n, txt))
        tgt = None
        if arch == "x64":
            m = _RE_RIPREL.search(txt)
            if m and not _norm(txt).startswith("lea ") and not any((off + i) in rel for i in range(n)):
                tgt = off + n + (int(m.group(2)) if m.group(1) == "+" else -int(m.group(2)))
        else:
            m = _RE_A64_LIT.match(_norm(txt))
            if m and off not in rel:
                tgt = off + int(m.group(1))
        if tgt is not None and off + n <= tgt <= size:
            data = min(data, tgt)
    f.data_start = data
    if data < size:
        f.insns = keep
        if keep and keep[-1][0] + keep[-1][1] > data:
            f.decoded_end = keep[-1][0]        # an instruction runs into the constants
        else:
            f.decoded_end = min(max(f.decoded_end, 0), data) if f.decoded_end < data else data


# ---------------------------------------------------------------------------------------------
# per-architecture instruction reading

_X64_PUSH = re.compile(r"push\s+(r\w+)$")
_X64_SUB_RSP = re.compile(r"sub\s+rsp, (-?\d+|0x[0-9a-f]+)$")
_A64_SUB_SP = re.compile(r"sub\s+sp, sp, #(\d+|0x[0-9a-f]+)(?:, lsl #(\d+))?$")
_A64_SUB_SP_REG = re.compile(r"sub\s+sp, sp, (x\d+)(?:, uxtx)?$")
_A64_MOVZ = re.compile(r"mov\s+(x\d+), #(-?\d+|0x[0-9a-f]+)$")
_A64_MOVZ2 = re.compile(r"movz\s+(x\d+), #(\d+|0x[0-9a-f]+)(?:, lsl #(\d+))?$")
_A64_MOVK = re.compile(r"movk\s+(x\d+), #(\d+|0x[0-9a-f]+)(?:, lsl #(\d+))?$")


def _norm(txt):
    return re.sub(r"\s+", " ", txt.strip())


def _imm(x):
    return int(x, 0)


_X64_JCC = re.compile(r"(j\w+) (-?\d+)$")
_X64_MOVIMM = re.compile(r"(?:mov|movabs) (r\w+|e\w+), (-?\d+|0x[0-9a-f]+)$")


def _step_x64(t, d, consts):
    """effect of one instruction on d = rbp - rsp.  Returns (new d | None if unknown, note)."""
    if t.startswith("push "):
        return d + 8, None
    if t.startswith("pop "):
        if t == "pop rsp":
            return None, t
        return d - 8, None
    m = re.match(r"(sub|add) rsp, (-?\d+|0x[0-9a-f]+)$", t)
    if m:
        v = _imm(m.group(2))
        return (d + v if m.group(1) == "sub" else d - v), None
    m = re.match(r"(sub|add) rsp, (r\w+)$", t)
    if m:
        r = m.group(2)
        v = consts.get(r, consts.get("e" + r[1:]))
        if v is None:
            return None, t
        return (d + v if m.group(1) == "sub" else d - v), None
    if t == "mov rsp, rbp":
        return 0, None
    if t == "leave":
        return -8, None
    if re.match(r"\w+ rsp,", t) and not t.startswith(("cmp ", "test ")):
        return None, t
    if re.match(r"(?!cmp |test |push )\w+ rbp\b", t) and not t.startswith("pop rbp"):
        return None, t  # the frame pointer must stay put
    return d, None


_A64_BR = re.compile(r"(b|b\.\w+|cbn?z \w+,|tbn?z \w+, #\d+,) #(-?\d+)$")


def _step_a64(t, d, consts):
    m = re.search(r"\[sp, #(-?\d+)\]!$", t)
    if m:
        return d - _imm(m.group(1)), None
    m = re.search(r"\[sp\], #(-?\d+)$", t)
    if m:
        return d - _imm(m.group(1)), None
    m = re.match(r"(sub|add) sp, sp, #(\d+|0x[0-9a-f]+)(?:, lsl #(\d+))?$", t)
    if m:
        v = _imm(m.group(2)) << int(m.group(3) or 0)
        return (d + v if m.group(1) == "sub" else d - v), None
    m = re.match(r"(sub|add) sp, sp, (x\d+)(?:, uxtx)?$", t)
    if m:
        v = consts.get(m.group(2))
        if v is None:
            return None, t
        return (d + v if m.group(1) == "sub" else d - v), None
    if t in ("mov sp, x29", "add sp, x29, xzr", "add sp, x29, #0"):
        return 0, None
    if re.match(r"\w+ (sp|wsp),", t) and not t.startswith(("cmp ", "cmn ", "tst ")):
        return None, t
    if re.match(r"(?!cmp |cmn |tst |st|cb|tb)\w+ x29,", t) or re.match(r"ldp x29,|ldp \w+, x29,", t):
        if not re.match(r"ldp x29, x30, \[sp\], #16$", t):
            return None, t
    return d, None


def _track_const(arch, t, consts):
    """remembers immediates moved into registers (used by `sub sp, sp, reg` for large frames)"""
    if arch == "x64":
        m = _X64_MOVIMM.match(t)
        if m:
            consts[m.group(1)] = _imm(m.group(2))
            return
    else:
        m = re.match(r"mov (x\d+), #(-?\d+|0x[0-9a-f]+)$", t)
        if m:
            consts[m.group(1)] = _imm(m.group(2))
            return
        m = re.match(r"movz (x\d+), #(\d+|0x[0-9a-f]+)(?:, lsl #(\d+))?$", t)
        if m:
            consts[m.group(1)] = _imm(m.group(2)) << int(m.group(3) or 0)
            return
        m = re.match(r"movk (x\d+), #(\d+|0x[0-9a-f]+)(?:, lsl #(\d+))?$", t)
        if m and m.group(1) in consts:
            sh = int(m.group(3) or 0)
            consts[m.group(1)] = (consts[m.group(1)] & ~(0xFFFF << sh)) | (_imm(m.group(2)) << sh)
            return
    # any other write to a tracked register forgets it
    m = re.match(r"\w+ (\w+),", t)
    if m and m.group(1) in consts:
        del consts[m.group(1)]


def stack_depths(f, arch):
    """Forward data flow over the function's control-flow graph: for every reachable instruction the distance
    d = frame pointer - stack pointer before it executes.  The frame at a call site is [fp - d, fp).
    (boots saves live registers with pushes around slow-path calls, so the frame is not a per-function constant.)
    Returns (depth dict offset -> d, issues [(class, text)])."""
    insns = f.insns
    issues = []
    t = [_norm(x[2]) for x in insns]
    if arch == "x64":
        ok = len(t) >= 2 and t[0] == "push rbp" and t[1] == "mov rbp, rsp"
        step = _step_x64
    else:
        ok = len(t) >= 2 and t[0] == "stp x29, x30, [sp, #-16]!" and t[1] in ("mov x29, sp", "add x29, sp, xzr")
        step = _step_a64
    if not ok:
        return None, [("prologue-unrecognised", "prologue is %s" % "; ".join(t[:3]))], set()
    index = {o: i for i, (o, _, _) in enumerate(insns)}
    size = len(f.code)
    depth = {}
    dead = set()
    in_dead = False
    work = [(2, 0, {})]
    base = None
    scan = 2
    while True:
        if not work:
            # code no path from the entry reaches (cannon emits e.g. `call unreachable; int3` behind a jump): analysed
            # with the frame the prologue set up, and reported as dead, never as a violation by itself
            if base is None:
                for o, n, _ in insns[2:]:
                    x = t[index[o]]
                    if o in depth and (x.startswith("j") or x.startswith("b") or x.startswith("cb") or x.startswith("call")):
                        base = depth[o]
                        break
                if base is None:
                    base = max(depth.values()) if depth else 0
            while scan < len(insns) and (insns[scan][0] in depth or t[scan] in ("int3", "nop", "brk #0") or t[scan].startswith("brk")):
                scan += 1
            if scan >= len(insns):
                break
            ndead = len(depth)
            work.append((scan, base, {}))
            in_dead = True
        i, d, consts = work.pop()
        consts = dict(consts)
        while True:
            if i >= len(insns):
                break
            off, n, _ = insns[i]
            if off in depth:
                if depth[off] != d and not in_dead:
                    issues.append(("stack-depth-conflict", "offset %d reached with depths %d and %d" % (off, depth[off], d)))
                break
            depth[off] = d
            if in_dead:
                dead.add(off)
            x = t[i]
            nd, note = step(x, d, consts)
            if nd is None:
                issues.append(("stack-pointer-write", "offset %d: %s" % (off, note)))
                nd = d
            _track_const(arch, x, consts)
            d = nd
            nxt = off + n
            targets = None
            fall = True
            if arch == "x64":
                m = _X64_JCC.match(x)
                if m:
                    targets = [nxt + int(m.group(2))]
                    fall = m.group(1) != "jmp"
                elif x.startswith("jmp"):
                    targets = list(f.labels)  # indirect jump: a jump table of this function
                    fall = False
                elif x.startswith("ret") or x in ("int3", "ud2", "hlt"):
                    fall = False
            else:
                m = _A64_BR.match(x)
                if m:
                    targets = [off + int(m.group(2))]
                    fall = m.group(1) != "b"
                elif re.match(r"br x\d+$", x):
                    targets = list(f.labels)
                    fall = False
                elif x.startswith("ret") or x.startswith("brk") or x.startswith("udf"):
                    fall = False
            if targets:
                for tg in targets:
                    if tg == size:
                        continue
                    if tg not in index:
                        issues.append(("branch-into-instruction", "offset %d: %s targets %d" % (off, x, tg)))
                        continue
                    if tg not in depth:
                        work.append((index[tg], d, consts))
                    elif depth[tg] != d and not in_dead:
                        issues.append(("stack-depth-conflict", "offset %d reached with depths %d and %d" % (tg, depth[tg], d)))
            if not fall:
                break
            i += 1
    f_dead = dead
    return depth, issues, f_dead


def calls_x64(f):
    """[(offset, return offset, 'direct'|'indirect', text)] and jumps with relocations"""
    res = []
    for off, n, txt in f.insns:
        t = _norm(txt)
        if t.startswith("call"):
            if f.code[off] == 0xe8 and n == 5:
                res.append((off, off + n, "direct", t))
            else:
                res.append((off, off + n, "indirect", t))
    return res


def calls_a64(f):
    res = []
    for off, n, txt in f.insns:
        t = _norm(txt)
        if t.startswith("bl ") or t.startswith("bl\t"):
            res.append((off, off + 4, "direct", t))
        elif t.startswith("blr") or t.startswith("blraa") or t.startswith("blrab"):
            res.append((off, off + 4, "indirect", t))
    return res


# ---------------------------------------------------------------------------------------------
# the analysis

_RE_FPPOS_X64 = re.compile(r"\[rbp \+ (\d+)\]")
_RE_FPPOS_A64 = re.compile(r"\[x29, #(\d+)\]")


class Problem:
    __slots__ = ("cls", "sub", "sym", "text", "data")

    def __init__(self, cls, sub, sym, text, data=None):
        self.cls = cls      # problem class (stable)
        self.sub = sub      # sub-class for the key (callee class, table name ...)
        self.sym = sym      # function symbol or None for file-level problems
        self.text = text
        self.data = data or {}


def callee_class(target, kind):
    if kind is None:
        return "external:" + target
    if kind == KIND_OPTIMIZED:
        return "dora-function"
    return KIND_NAMES.get(kind, "kind%d" % kind)


def analyse(a, arch, only=None, file_level=None):
    """Checks every function of a parsed+disassembled file (or only the symbols in `only`), and the file-level
    relations (code ranges, table slices) unless file_level is False.  Returns (problems, stats)."""
    P = []
    st = {"functions": 0, "optimized_functions": 0, "trampolines": 0, "call_sites_required": 0, "call_sites_optional": 0,
          "optional_with_map": 0, "indirect_calls": 0, "gcpoints": 0, "gcpoint_slots": 0, "interior_pairs": 0,
          "nonempty_maps": 0, "locations": 0, "inlined_functions": 0, "code_bytes": 0, "instructions": 0,
          "max_frame": 0, "callee_classes": {}, "trampoline_caller_slots": 0, "safepoint_polls": 0,
          "backedges": 0, "atomic_insns": 0, "dead_call_sites": 0, "incoming_stack_arg_slots": 0, "functions_with_constant_pool": 0, "constant_pool_bytes": 0}
    try:
        T = tables(a)
    except ParseError as e:
        return [Problem("metadata-malformed", "tables", None, str(e))], st
    fns = T["functions"]
    gcp, offs, inter, locs, inl = T["gcpoints"], T["offsets"], T["interior"], T["locations"], T["inlined"]

    # ---- file level: code ranges -------------------------------------------------------------
    by_start = {}
    for e in fns:
        by_start.setdefault(e.start[0], []).append(e)
    if file_level is None:
        file_level = only is None
    if file_level:
        for f in a.funcs:
            n = len(by_start.get(f.sym, []))
            if n != 1:
                P.append(Problem("function-table", "missing" if n == 0 else "duplicate", f.sym,
                                 "function symbol %s occurs %d times in .dora.functions" % (f.sym, n)))
        for lab, cnt in a.text_label_count.items():
            if cnt > 1:
                P.append(Problem("function-table", "label-defined-twice", lab, "label %s defined %d times in .text" % (lab, cnt)))
        ranges = []
        for e in fns:
            s, en = e.start, e.end
            if s[0] not in a.text_labels or en[0] not in a.text_labels:
                P.append(Problem("function-table", "undefined-label", s[0],
                                 "entry %d: range [%s, %s) uses a label not defined in .text" % (e.row, s[0], en[0])))
                continue
            sa, ea = a.text_labels[s[0]] + s[1], a.text_labels[en[0]] + en[1]
            fl = a.by_sym.get(s[0])
            if s[1] != 0 or not fl:
                P.append(Problem("function-table", "start-not-a-function", s[0], "entry %d starts at %s+%d" % (e.row, s[0], s[1])))
            elif fl[0].end_label != en[0] or en[1] != 0:
                P.append(Problem("code-range", "end-label", s[0],
                                 "entry %d: range of %s ends at %s+%d but its code ends at %s" % (e.row, s[0], en[0], en[1], fl[0].end_label)))
            if sa > ea:
                P.append(Problem("code-range", "negative", s[0], "entry %d: start %d > end %d" % (e.row, sa, ea)))
            if sa == ea:
                P.append(Problem("code-range", "empty", s[0], "entry %d: empty code range" % e.row))
            ranges.append((sa, ea, e))
        for (s1, e1, x1), (s2, e2, x2) in zip(ranges, ranges[1:]):
            if s2 < s1:
                P.append(Problem("code-range", "unordered", x2.start[0], "entry %d (%s) starts before entry %d (%s)" % (
                    x2.row, x2.start[0], x1.row, x1.start[0])))
        sr = sorted(ranges, key=lambda r: (r[0], r[1]))
        for (s1, e1, x1), (s2, e2, x2) in zip(sr, sr[1:]):
            if e1 > s2:
                P.append(Problem("code-range", "overlap", x2.start[0], "[%d,%d) of %s overlaps [%d,%d) of %s" % (
                    s1, e1, x1.start[0], s2, e2, x2.start[0])))
        # sub-table partitions: every function owns the slice directly behind its predecessor's
        for name, tab, get in (("gcpoints", gcp, lambda e: (e.gc_start, e.gc_len)),
                               ("locations", locs, lambda e: (e.loc_start, e.loc_len)),
                               ("inlined_functions", inl, lambda e: (e.inl_start, e.inl_len))):
            nxt = 0
            for e in fns:
                s, n = get(e)
                if s != nxt or s + n > len(tab):
                    P.append(Problem("metadata-slices", name, e.start[0], "entry %d: %s slice [%d,+%d) does not follow its predecessor (expected start %d, table has %d)" % (
                        e.row, name, s, n, nxt, len(tab))))
                    nxt = s + n
                else:
                    nxt = s + n
            if nxt != len(tab):
                P.append(Problem("metadata-slices", name, None, "%s: %d entries owned by functions, table has %d" % (name, nxt, len(tab))))
        nxt_o = nxt_i = 0
        for gi, (pc, os_, ol, is_, il) in enumerate(gcp):
            if os_ != nxt_o or os_ + ol > len(offs) or is_ != nxt_i or is_ + il > len(inter):
                P.append(Problem("metadata-slices", "gcpoint-offsets", None, "gcpoint %d: offsets [%d,+%d) / interior [%d,+%d) do not follow the predecessor (%d/%d) or exceed the tables (%d/%d)" % (
                    gi, os_, ol, is_, il, nxt_o, nxt_i, len(offs), len(inter))))
            nxt_o, nxt_i = os_ + ol, is_ + il
        if nxt_o != len(offs) or nxt_i != len(inter):
            P.append(Problem("metadata-slices", "gcpoint-offsets", None, "offset tables have unowned entries (%d of %d, %d of %d)" % (nxt_o, len(offs), nxt_i, len(inter))))

    kind_of = {}
    for e in fns:
        kind_of.setdefault(e.start[0], e.kind)

    # ---- per function ------------------------------------------------------------------------
    for e in fns:
        sym = e.start[0]
        if only is not None and sym not in only:
            continue
        fl = a.by_sym.get(sym)
        if not fl:
            continue
        f = fl[0]
        size = len(f.code)
        st["functions"] += 1
        st["code_bytes"] += size
        st["instructions"] += len(f.insns)
        if e.kind not in KIND_NAMES:
            P.append(Problem("function-table", "bad-kind", sym, "code kind %d" % e.kind))
            continue
        if e.pad != 0:
            P.append(Problem("function-table", "padding", sym, "reserved field is %d" % e.pad))
        if e.info >= T["ninfo"]:
            P.append(Problem("function-table", "function-info", sym, "function_info index %d of %d" % (e.info, T["ninfo"])))
        if f.sync_lost:
            P.append(Problem("undecodable-code", KIND_NAMES[e.kind], sym, "bytes at offsets %s of %s do not decode / run over the end" % (f.sync_lost[:5], sym)))
        mygc = gcp[e.gc_start:e.gc_start + e.gc_len] if e.gc_start + e.gc_len <= len(gcp) else []
        myloc = locs[e.loc_start:e.loc_start + e.loc_len] if e.loc_start + e.loc_len <= len(locs) else []
        myinl = inl[e.inl_start:e.inl_start + e.inl_len] if e.inl_start + e.inl_len <= len(inl) else []
        st["gcpoints"] += len(mygc)
        st["locations"] += len(myloc)
        st["inlined_functions"] += len(myinl)
        boundaries = set(o for o, _, _ in f.insns)
        boundaries.add(size)
        boundaries.add(f.data_start)
        if f.data_start < size:
            st["functions_with_constant_pool"] += 1
            st["constant_pool_bytes"] += size - f.data_start

        # frame extent per call site: fp - sp before the call instruction (data flow over the function)
        calls = calls_x64(f) if arch == "x64" else calls_a64(f)
        depth, issues, dead = stack_depths(f, arch)
        for cls, text in issues[:3]:
            P.append(Problem(cls, KIND_NAMES[e.kind] + ":" + arch, sym, text))
        why = issues[0][1] if issues else ""
        ret_depth = {}
        if depth is not None:
            for off, n, _ in f.insns:
                if off in depth:
                    ret_depth[off + n] = depth[off]
            fmax = max(depth.values()) if depth else 0
            st["max_frame"] = max(st["max_frame"], fmax)
        else:
            fmax = None

        fp_args = set()
        for _, _, txt in f.insns:
            for m in (_RE_FPPOS_X64 if arch == "x64" else _RE_FPPOS_A64).finditer(txt):
                fp_args.add(int(m.group(1)))
        # relocations: every call-type relocation must sit on a direct call/branch
        reloc_at = {}
        for off, typ, target, addend in f.relocs:
            reloc_at.setdefault(off, []).append((typ, target, addend))

        # ---- gcpoints: order, range, slots ----------------------------------------------------
        prev = None
        gc_pcs = {}
        for gi, (pc, os_, ol, is_, il) in enumerate(mygc):
            if prev is not None and pc <= prev:
                P.append(Problem("gcpoint-order", KIND_NAMES[e.kind], sym, "gcpoint pc offsets not strictly increasing: %d after %d" % (pc, prev)))
            prev = pc
            if pc in gc_pcs:
                pass
            gc_pcs[pc] = gi
            if pc > size:
                P.append(Problem("gcpoint-outside-function", KIND_NAMES[e.kind], sym, "gcpoint at %d, function has %d bytes" % (pc, size)))
            slots = offs[os_:os_ + ol] if os_ + ol <= len(offs) else []
            pairs = inter[is_:is_ + il] if is_ + il <= len(inter) else []
            st["gcpoint_slots"] += len(slots)
            st["interior_pairs"] += len(pairs)
            if slots or pairs:
                st["nonempty_maps"] += 1
            seen = set()
            for s in slots:
                if s in seen:
                    P.append(Problem("slot-duplicate", KIND_NAMES[e.kind], sym, "gcpoint %d lists slot %d twice" % (pc, s)))
                seen.add(s)
                if s % 8:
                    P.append(Problem("slot-unaligned", KIND_NAMES[e.kind], sym, "gcpoint %d: slot %d is not 8-aligned" % (pc, s)))
                    continue
                if e.kind == KIND_OPTIMIZED:
                    ext = ret_depth.get(pc)
                    if ext is None:
                        continue  # reported below: map not at a (reachable) call
                    if s >= 16 and s in fp_args:
                        # calibration: boots leaves stack-passed arguments where the caller put them (fp+16+8k is the
                        # `Arg`'s spill slot, pkgs/boots/regalloc.dora allocate_fixed_output) and lists them in the
                        # callee's maps.  Accepted only for slots the function itself reads as [fp + s].
                        st["incoming_stack_arg_slots"] += 1
                    elif not (-ext <= s < 0):
                        P.append(Problem("slot-outside-frame", KIND_NAMES[e.kind], sym, "gcpoint %d: slot %d outside the frame [-%d, 0)" % (pc, s, ext),
                                         {"slot": s, "frame": ext, "pc": pc}))
                else:
                    # trampolines: saved argument registers inside the frame, or handles to stack arguments of the
                    # caller (fp+16 upwards): dora-compiler/src/runtime_entry_trampoline.rs ArgumentSource::CallerArg
                    if s >= 0:
                        st["trampoline_caller_slots"] += 1
                        if s < 16 or s >= 16 + 8 * 64:
                            P.append(Problem("slot-outside-frame", KIND_NAMES[e.kind], sym, "gcpoint %d: slot %d is neither in the frame nor a caller stack argument" % (pc, s)))
                    elif fmax is not None and s < -fmax:
                        P.append(Problem("slot-outside-frame", KIND_NAMES[e.kind], sym, "gcpoint %d: slot %d outside the frame [-%d, 0)" % (pc, s, fmax)))
            pseen = set()
            for s in pairs:
                words = (s, s + 8)
                if s % 8:
                    P.append(Problem("slot-unaligned", "interior", sym, "gcpoint %d: interior pair at %d is not 8-aligned" % (pc, s)))
                    continue
                ext = ret_depth.get(pc) if e.kind == KIND_OPTIMIZED else fmax
                if ext is not None and not (-ext <= s and s + 16 <= 0):
                    P.append(Problem("slot-outside-frame", "interior", sym, "gcpoint %d: interior pair [%d,%d) outside the frame [-%d, 0)" % (pc, s, s + 16, ext)))
                for w in words:
                    if w in seen or w in pseen:
                        P.append(Problem("slot-duplicate", "interior", sym, "gcpoint %d: interior pair at %d overlaps another slot (%d)" % (pc, s, w)))
                    pseen.add(w)
        if e.kind == KIND_OPTIMIZED:
            st["optimized_functions"] += 1
            # ---- call sites ------------------------------------------------------------------
            ret_required = {}
            ret_optional = {}
            for off, ret, how, txt in calls:
                if how == "direct":
                    roff = off + 1 if arch == "x64" else off
                    rl = [r for r in reloc_at.get(roff, []) if r[0] in ("R_X86_64_PC32", "R_AARCH64_CALL26")]
                    if not rl:
                        # a direct call without relocation targets a fixed address inside this object: unknown callee
                        cls = "unrelocated"
                        ret_required[ret] = (cls, txt)
                        P.append(Problem("call-unclassified", cls, sym, "direct call at %d without relocation (%s)" % (off, txt)))
                        continue
                    target = rl[0][1]
                    k = kind_of.get(target)
                    cls = callee_class(target, k)
                    st["callee_classes"][cls] = st["callee_classes"].get(cls, 0) + 1
                    if k in REQUIRED_CALLEE_KINDS:
                        ret_required[ret] = (cls, target)
                    elif k in OPTIONAL_CALLEE_KINDS or (k is None and target in OPTIONAL_EXTERNALS):
                        ret_optional[ret] = (cls, target)
                    else:
                        ret_required[ret] = (cls, target)
                        P.append(Problem("call-unclassified", cls, sym, "call at %d to %s (kind %s): not a known callee class" % (off, target, k)))
                else:
                    st["indirect_calls"] += 1
                    st["callee_classes"]["indirect"] = st["callee_classes"].get("indirect", 0) + 1
                    ret_required[ret] = ("indirect", txt)
            st["dead_call_sites"] += sum(1 for off, ret, how, txt in calls if off in dead)
            st["call_sites_required"] += len(ret_required)
            st["call_sites_optional"] += len(ret_optional)
            for ret, (cls, target) in sorted(ret_required.items()):
                if ret not in gc_pcs:
                    P.append(Problem("missing-gcpoint", cls, sym, "call to %s returning at offset %d has no stack map" % (target, ret),
                                     {"return_offset": ret, "callee": target}))
            for ret in ret_optional:
                if ret in gc_pcs:
                    st["optional_with_map"] += 1
            for pc in gc_pcs:
                if depth is not None and (pc in ret_required or pc in ret_optional) and pc not in ret_depth:
                    P.append(Problem("call-unreachable", "optimized", sym, "the call returning at %d carries a stack map but was not analysed" % pc))
                if pc not in ret_required and pc not in ret_optional:
                    P.append(Problem("gcpoint-not-at-call", "optimized", sym, "stack map at offset %d is not the return offset of any call" % pc,
                                     {"pc": pc}))
            # call relocations must all have been seen as calls (or be tail jumps): the sweep is in step with the code
            call_offs = set((o + 1 if arch == "x64" else o) for o, _, h, _ in calls if h == "direct")
            for off, typ, target, addend in f.relocs:
                is_fn = target in kind_of or target in OPTIONAL_EXTERNALS or target.startswith("dora_native_") or target.startswith("dora_aot_")
                if arch == "x64" and typ == "R_X86_64_PC32" and is_fn and not target.startswith(".L") and off not in call_offs:
                    if target == "dora_aot_shape_base":
                        continue
                    op = f.code[off - 1] if off >= 1 else None
                    if op == 0xe9 and (off - 1) in boundaries:
                        continue  # tail jump
                    P.append(Problem("reloc-not-a-call", "x64", sym, "relocation to %s at %d is not on a decoded call" % (target, off)))
                if arch == "arm64" and typ == "R_AARCH64_CALL26" and off not in call_offs:
                    word = int.from_bytes(f.code[off:off + 4], "little")
                    if (word >> 26) == 0x05 and off in boundaries:
                        continue  # plain b: tail jump
                    P.append(Problem("reloc-not-a-call", "arm64", sym, "relocation to %s at %d is not on a decoded bl" % (target, off)))
            # ---- safepoint polls and atomics (statistics + entry poll) -----------------------------
            polls, backedges, atomics = poll_stats(f, arch)
            st["safepoint_polls"] += polls
            st["backedges"] += backedges
            st["atomic_insns"] += atomics
        else:
            st["trampolines"] += 1
            pcs = sorted(gc_pcs)
            if e.kind in KINDS_MAP_AT_ZERO:
                if pcs != [0]:
                    P.append(Problem("trampoline-map", KIND_NAMES[e.kind], sym, "%s trampoline must carry exactly one map at offset 0, has %s" % (KIND_NAMES[e.kind], pcs)))
            elif pcs not in ([], [0]):
                # calibration: the trap, safepoint and gc-allocation trampolines also carry a map at offset 0 that the
                # runtime never reads (their frames are skipped / never walked); the dora-entry trampoline has none
                P.append(Problem("trampoline-map", KIND_NAMES[e.kind], sym, "%s trampoline has maps at %s" % (KIND_NAMES[e.kind], pcs)))

        # ---- locations -----------------------------------------------------------------------
        prevpc = None
        for (pc, iid, line, col) in myloc:
            if prevpc is not None and pc <= prevpc:
                P.append(Problem("location-order", KIND_NAMES[e.kind], sym, "location pc offsets not strictly increasing: %d after %d" % (pc, prevpc),
                                 {"pc": pc, "prev": prevpc}))
            prevpc = pc
            if pc > size or pc == 0:
                P.append(Problem("location-outside-function", KIND_NAMES[e.kind], sym, "location at %d, function has %d bytes" % (pc, size)))
            elif pc not in boundaries:
                P.append(Problem("location-inside-instruction", KIND_NAMES[e.kind], sym, "location at %d is not an instruction boundary" % pc))
            if iid != NO_INLINED and iid >= len(myinl):
                P.append(Problem("location-inlined-id", KIND_NAMES[e.kind], sym, "location at %d names inlined function %d of %d" % (pc, iid, len(myinl))))
        for ii, (info, parent, line, col) in enumerate(myinl):
            if info >= T["ninfo"]:
                P.append(Problem("inlined-function-info", KIND_NAMES[e.kind], sym, "inlined function %d: function_info %d of %d" % (ii, info, T["ninfo"])))
            if parent != NO_INLINED and parent >= len(myinl):
                P.append(Problem("inlined-parent", "range", sym, "inlined function %d has parent %d of %d" % (ii, parent, len(myinl))))
                continue
            # acyclic: follow the chain
            seen = {ii}
            p = parent
            while p != NO_INLINED and p < len(myinl):
                if p in seen:
                    P.append(Problem("inlined-parent", "cycle", sym, "inlined function %d: parent chain returns to %d" % (ii, p)))
                    break
                seen.add(p)
                p = myinl[p][1]
    return P, st


_X64_POLL = re.compile(r"cmp byte ptr \[r15 \+ \d+\], 0$")
_A64_POLL = re.compile(r"ldrb w\d+, \[x28, #\d+\]$")


def poll_stats(f, arch):
    polls = backedges = atomics = 0
    for off, n, txt in f.insns:
        t = _norm(txt)
        if arch == "x64":
            if _X64_POLL.match(t):
                polls += 1
            if t.startswith("lock") or t.startswith("xchg"):
                atomics += 1
            m = re.match(r"j\w+ (-?\d+)$", t)
            if m and int(m.group(1)) < 0:
                backedges += 1
        else:
            if _A64_POLL.match(t):
                polls += 1
            if re.match(r"(ldadd|swp|cas|ldaxr|stlxr|ldar|stlr|ldaddal|swpal|casal)", t):
                atomics += 1
            m = re.match(r"(?:b|b\.\w+|cbn?z \w+,|tbn?z \w+, #\d+,) #(-?\d+)$", t)
            if m and int(m.group(1)) < 0:
                backedges += 1
    return polls, backedges, atomics
