"""Static analysis of the assembly files written by `dora compile -S` (C10).

parse()       reads one .s: the machine code of every function (`.byte` lines between the global label and
              `.Ldora_aot_function_end_N`), its `.reloc` entries, the code-offset labels and the jump tables, and the
              metadata tables (.dora.functions/.gcpoints/.gcpoint_offsets/.gcpoint_interior_pointers/.locations/
              .inlined_functions/.function_info) with the layouts of dora-runtime/src/startup.rs.
disassemble() runs llvm-mc once over the code of the given functions (linear sweep per function, every instruction's
              re-encoding compared with the bytes) and cuts off constant pools behind the code.
analyse()     checks every function of the file and the file-level relations; returns (problems, statistics).

Nothing here samples: every function of a parsed file is analysed.

Calibrations made on the unchanged tree (each is an over-demand of an earlier version of this analysis, not a defect):
  * frame extent is per call site (fp - sp by data flow): the optimizing generator pushes live registers around its slow
    paths, so slots below the prologue's `sub` are inside the frame there;
  * the optimizing generator lists stack-passed arguments at fp+16+8k in the callee's maps (its spill slot of an `Arg`);
  * runtime-entry/unreachable/fatal-error/stack-overflow trampolines carry exactly one map at offset 0 (that is what
    gc/root.rs reads); trap, safepoint and gc-allocation trampolines carry an unused one at 0 as well; dora-entry none;
  * maps at calls that never return (trap/stack-overflow/unreachable/fatal) and at the write-barrier slow path are
    optional: cannon maps the stack-overflow call, boots does not; neither maps the write barrier;
  * both generators append constants (floats) to the code: addressed pc-relatively without relocation, cut off the sweep;
  * cannon emits dead code behind unconditional jumps (calls with maps included): analysed, counted, not reported;
  * zero-fill loops of fresh arrays/objects and ll/sc retry loops have no safepoint poll by design.
"""
import bisect
import re
import subprocess

NO_INLINED = 0xFFFFFFFF

KIND_OPTIMIZED = 0
KIND_RUNTIME_ENTRY = 1
KIND_DORA_ENTRY = 2
KIND_ALLOC_FAILURE = 3
KIND_TRAP = 4
KIND_SAFEPOINT = 5
KIND_UNREACHABLE = 6
KIND_FATAL_ERROR = 7
KIND_STACK_OVERFLOW = 8
KIND_NAMES = {0: "optimized", 1: "runtime-entry", 2: "dora-entry", 3: "gc-allocation", 4: "trap", 5: "safepoint",
              6: "unreachable", 7: "fatal-error", 8: "stack-overflow"}
# kinds whose frames are scanned with the map stored at offset 0 (dora-runtime/src/gc/root.rs)
KINDS_MAP_AT_ZERO = (KIND_RUNTIME_ENTRY, KIND_UNREACHABLE, KIND_FATAL_ERROR, KIND_STACK_OVERFLOW)
# callee kinds after which a collection can see the caller's frame: the return address needs a map
REQUIRED_CALLEE_KINDS = (KIND_OPTIMIZED, KIND_RUNTIME_ENTRY, KIND_ALLOC_FAILURE, KIND_SAFEPOINT)
# callees that never return into the frame: a map is allowed but not demanded.
# Calibration (unchanged tree): cannon records one for the stack-overflow call, boots does not; both record one for
# trap/unreachable/fatal calls where they are emitted through the ordinary runtime-call path.
OPTIONAL_CALLEE_KINDS = (KIND_TRAP, KIND_UNREACHABLE, KIND_FATAL_ERROR, KIND_STACK_OVERFLOW)
# external (non-table) call targets reachable from compiled code; the write barrier slow path only appends to the
# remembered set and cannot collect: neither generator records a map for it.
OPTIONAL_EXTERNALS = ("dora_aot_write_barrier_slow_path",)



class ParseError(Exception):
    pass


class Func:
    __slots__ = ("sym", "index", "code", "relocs", "labels", "end_label", "addr", "insns", "sync_lost", "line", "decoded_end",
                 "data_start", "succ", "micro_loops")

    def __init__(self, sym, index, line):
        self.sym = sym
        self.index = index
        self.code = bytearray()
        self.relocs = []     # (offset, type, target symbol, addend text)
        self.labels = []     # code offsets that are jump-table targets
        self.end_label = None
        self.addr = None     # address inside .text
        self.insns = None    # [(offset, length, text)]
        self.sync_lost = []  # offsets of bytes llvm-mc could not decode
        self.line = line


class Asm:
    def __init__(self):
        self.funcs = []          # Func in file order (everything between a global label in .text and an end label)
        self.by_sym = {}
        self.text_labels = {}    # label -> address in .text (all labels, local ones included)
        self.text_label_count = {}
        self.globl = []
        self.sections = {}       # section name -> [('q'|'l', value)] where value is int or (symbol, addend)
        self.jump_tables = {}    # label of a table in .dora.jump_tables -> [code offsets inside its function]
        self.opaque_text_after = None
        self.arch = None


_RE_BYTE = re.compile(r"0x([0-9a-fA-F]{2})")
_RE_RELOC = re.compile(r"\.reloc\s+([^\s,+]+)\+(\d+)(?:\+(\d+))?,\s*(\S+),\s*(\S+)(?:\s*([-+])\s*(\d+))?\s*$")
_RE_SYMOFF = re.compile(r"([A-Za-z_.$][\w.$]*)(?:\s*\+\s*(\d+))?$")


def _value(tok):
    tok = tok.strip()
    try:
        return int(tok, 0)
    except ValueError:
        m = _RE_SYMOFF.match(tok)
        if not m:
            raise ParseError("cannot parse data value %r" % tok)
        return (m.group(1), int(m.group(2) or 0))


def parse(path):
    a = Asm()
    section = ".text"
    pos = 0            # address in .text
    cur = None         # function being read
    pending_globl = None
    cur_table = None
    opaque = False     # instructions of unknown size seen in .text (only the final `main`)
    with open(path, "r", errors="replace") as f:
        for lineno, raw in enumerate(f, 1):
            line = raw.strip()
            if not line:
                continue
            if section == ".text":
                if line.startswith(".byte"):
                    bs = bytes(int(x, 16) for x in _RE_BYTE.findall(line))
                    if not bs:
                        bs = bytes([int(line[5:].strip(), 0) & 0xff])
                    if cur is not None:
                        cur.code += bs
                    pos += len(bs)
                    continue
                if line.startswith(".reloc"):
                    m = _RE_RELOC.match(line)
                    if not m:
                        raise ParseError("%s:%d: cannot parse %r" % (path, lineno, line))
                    base, off, off2, typ, target, sign, addend = m.groups()
                    if cur is None or base != cur.sym:
                        raise ParseError("%s:%d: relocation against %s outside its function" % (path, lineno, base))
                    cur.relocs.append((int(off) + int(off2 or 0), typ, target, (sign or "") + (addend or "")))
                    continue
            if line.startswith(".p2align"):
                if section == ".text":
                    al = 1 << int(line.split()[1])
                    pos = (pos + al - 1) // al * al
                continue
            if line.startswith(".globl"):
                g = line.split()[1]
                a.globl.append((g, section))
                if section == ".text":
                    pending_globl = g
                continue
            if line == ".text":
                section = ".text"
                continue
            if line == ".bss":
                section = ".bss"
                continue
            if line.startswith(".section"):
                section = line.split()[1].split(",")[0]
                continue
            if line.endswith(":") and " " not in line:
                lab = line[:-1]
                if section == ".text":
                    a.text_label_count[lab] = a.text_label_count.get(lab, 0) + 1
                    a.text_labels[lab] = pos
                    if opaque:
                        raise ParseError("%s:%d: label %s after code of unknown size" % (path, lineno, lab))
                    if lab.startswith(".Ldora_aot_function_end_") or lab == ".Ldora_entry_trampoline_end":
                        if cur is None:
                            raise ParseError("%s:%d: end label %s without function" % (path, lineno, lab))
                        cur.end_label = lab
                        cur = None
                    elif lab.startswith(".L"):
                        if cur is None:
                            raise ParseError("%s:%d: local label %s outside a function" % (path, lineno, lab))
                        m = re.match(r"\.L(.*)_offset_(\d+)$", lab)
                        if not m or m.group(1) != cur.sym or int(m.group(2)) != len(cur.code):
                            raise ParseError("%s:%d: code-offset label %s does not match its position %s+%d" % (
                                path, lineno, lab, cur.sym, len(cur.code)))
                        cur.labels.append(len(cur.code))
                    else:
                        if cur is not None:
                            # a global label inside another function's range
                            raise ParseError("%s:%d: label %s inside function %s" % (path, lineno, lab, cur.sym))
                        if lab in ("main", "dora_gc_collector"):
                            pending_globl = None
                            continue
                        if pending_globl != lab:
                            raise ParseError("%s:%d: function label %s without .globl" % (path, lineno, lab))
                        pending_globl = None
                        cur = Func(lab, len(a.funcs), lineno)
                        cur.addr = pos
                        a.funcs.append(cur)
                        a.by_sym.setdefault(lab, []).append(cur)
                elif section == ".dora.jump_tables":
                    cur_table = a.jump_tables.setdefault(lab, [])
                continue
            if section == ".text":
                # real instructions: only the C entry `main` at the very end of .text
                if cur is not None:
                    raise ParseError("%s:%d: unexpected line inside function %s: %r" % (path, lineno, cur.sym, line))
                opaque = True
                continue
            if line.startswith(".long"):
                a.sections.setdefault(section, []).append(("l", _value(line[5:])))
            elif line.startswith(".quad"):
                if section == ".dora.jump_tables":
                    m = re.search(r"_offset_(\d+)$", line)
                    if m is None or cur_table is None:
                        raise ParseError("%s:%d: unexpected jump table entry %r" % (path, lineno, line))
                    cur_table.append(int(m.group(1)))
                    continue
                a.sections.setdefault(section, []).append(("q", _value(line[5:])))
            # .byte/.zero in data sections are not needed
    if cur is not None:
        raise ParseError("%s: function %s has no end label" % (path, cur.sym))
    return a


# ---------------------------------------------------------------------------------------------
# metadata tables

class FnEntry:
    __slots__ = ("start", "end", "fct_id", "kind", "info", "gc_start", "gc_len", "loc_start", "loc_len",
                 "inl_start", "inl_len", "pad", "row")


def _ints(a, section, kinds):
    toks = a.sections.get(section, [])
    for k, v in toks:
        if k not in kinds or not isinstance(v, int):
            raise ParseError("unexpected entry %r in %s" % ((k, v), section))
    return [v for _, v in toks]


def tables(a):
    """Decodes the metadata sections.  Returns dict with functions, gcpoints, offsets, interior, locations, inlined, ninfo."""
    toks = a.sections.get(".dora.functions", [])
    if len(toks) % 12:
        raise ParseError(".dora.functions: %d values, not a multiple of 12" % len(toks))
    fns = []
    for i in range(0, len(toks), 12):
        row = toks[i:i + 12]
        if [k for k, _ in row] != ["q", "q"] + ["l"] * 10:
            raise ParseError(".dora.functions entry %d has the wrong shape" % (i // 12))
        e = FnEntry()
        e.row = i // 12
        e.start, e.end = row[0][1], row[1][1]
        if not (isinstance(e.start, tuple) and isinstance(e.end, tuple)):
            raise ParseError(".dora.functions entry %d: code range is not symbolic" % e.row)
        vals = [v for _, v in row[2:]]
        if not all(isinstance(v, int) for v in vals):
            raise ParseError(".dora.functions entry %d: non-numeric field" % e.row)
        (e.fct_id, e.kind, e.info, e.gc_start, e.gc_len, e.loc_start, e.loc_len, e.inl_start, e.inl_len, e.pad) = vals
        fns.append(e)

    def rows(section, n):
        v = _ints(a, section, ("l",))
        if len(v) % n:
            raise ParseError("%s: %d values, not a multiple of %d" % (section, len(v), n))
        return [tuple(v[i:i + n]) for i in range(0, len(v), n)]

    def signed(v):
        v &= 0xFFFFFFFF
        return v - (1 << 32) if v & 0x80000000 else v
    return {
        "functions": fns,
        "gcpoints": rows(".dora.gcpoints", 5),
        "offsets": [signed(v) for v in _ints(a, ".dora.gcpoint_offsets", ("l",))],
        "interior": [signed(v) for v in _ints(a, ".dora.gcpoint_interior_pointers", ("l",))],
        "locations": [tuple(x & 0xFFFFFFFF for x in r) for r in rows(".dora.locations", 4)],
        "inlined": [tuple(x & 0xFFFFFFFF for x in r) for r in rows(".dora.inlined_functions", 4)],
        "ninfo": len(rows(".dora.function_info", 4)),
    }


# ---------------------------------------------------------------------------------------------
# disassembly



_SEP = {
    # a block of its own between two functions: decodes to exactly these instructions
    "x64": ("0x0f 0x0b 0xf4 0x0f 0x0b 0xf4 0x0f 0x0b", ["ud2", "hlt", "ud2", "hlt", "ud2"]),
    "arm64": ("0x00 0x82 0x4f 0xd4 0x20 0x86 0x48 0xd4 0x00 0x82 0x4f 0xd4", ["hlt #0x7c10", "hlt #0x4431", "hlt #0x7c10"]),
}


def disassemble(a, arch, funcs=None, tmpdir=None):
    """Fills f.insns for every function (or the given ones) with one llvm-mc process (linear sweep per function).
    Every function is an atomic block `[ bytes ]` of the input, followed by a separator block: decoding of a block
    stops at its first undecodable byte and the next block starts cleanly.  llvm-mc prints no addresses; offsets come
    from the re-encoding it prints (--show-encoding), and every instruction's re-encoded bytes are compared with the
    function's bytes at that offset -- the sweep stops at the first difference (f.decoded_end).  So an instruction list
    that reaches the end of the code is known to be in step with the bytes.
    Input and output are streamed (large buffers are expensive in this sandbox)."""
    import tempfile
    funcs = a.funcs if funcs is None else funcs   # (functions of several files may be passed with a = None)
    sep_bytes, sep_txt = _SEP[arch]
    sep_line = "[ " + sep_bytes + " ]\n"
    hexes = ["0x%02x" % i for i in range(256)]
    if arch == "x64":
        cmd = ["llvm-mc", "--disassemble", "-triple=x86_64", "-output-asm-variant=1", "--show-encoding"]
    else:
        cmd = ["llvm-mc", "--disassemble", "-triple=aarch64", "-mattr=+lse,+v8.1a,+fp-armv8,+neon", "--show-encoding"]
    with tempfile.NamedTemporaryFile("w", suffix=".hex", dir=tmpdir or _default_tmp(), delete=True) as tf:
        for f in funcs:
            code = f.code
            tf.write("[\n")
            for i in range(0, len(code), 32):
                tf.write(" ".join([hexes[b] for b in code[i:i + 32]]))
                tf.write("\n")
            tf.write("]\n")
            tf.write(sep_line)
        tf.flush()
        proc = subprocess.Popen(cmd + [tf.name], stdout=subprocess.PIPE, stderr=subprocess.DEVNULL)
        nsep = len(sep_txt)
        last_sep = sep_txt[-1]
        fi = 0
        cur = []
        nfuncs = len(funcs)
        for raw in proc.stdout:
            k = raw.find(b"encoding: [")
            if k < 0:
                continue
            l = raw.decode("utf-8", "replace")
            k = l.find("encoding: [")
            enc = l[k + 11:l.index("]", k)]
            txt = l[:k].rstrip(" \t#/").strip().replace("\t", " ")
            cur.append((enc, txt))
            if txt == last_sep and len(cur) >= nsep and [x[1] for x in cur[-nsep:]] == sep_txt:
                del cur[-nsep:]
                if fi >= nfuncs:
                    proc.kill()
                    raise ParseError("disassembly: more instruction groups than functions")
                _assign(funcs[fi], cur, arch)
                fi += 1
                cur = []
        proc.wait()
    if fi != nfuncs or cur:
        raise ParseError("disassembly: %d instruction groups for %d functions (llvm-mc exit %s)" % (fi, nfuncs, proc.returncode))


def _default_tmp():
    import os
    d = os.environ.get("VERIF_SCRATCH", "/var/tmp")
    return d


def _assign(f, chunk, arch):
    code = f.code
    size = len(code)
    insns = []
    off = 0
    for enc, txt in chunk:
        parts = enc.split(",")
        n = len(parts)
        if off + n > size:
            break
        ok = True
        for i, b in enumerate(parts):
            if b[0] == "0" and int(b, 16) != code[off + i]:
                ok = False
                break
        if not ok:
            break
        insns.append((off, n, txt))
        off += n
    f.insns = insns
    f.decoded_end = off
    cut_data_region(f, arch)
    f.sync_lost = [f.decoded_end] if f.decoded_end < f.data_start else []


_RE_RIPREL = re.compile(r"\[rip ([-+]) (\d+)\]")
_RE_A64_LIT = re.compile(r"^(?:ldr|ldrsw|prfm|adr) \w+, #(\d+)$")


def cut_data_region(f, arch):
    """The baseline generator appends its constant pool (float constants ...) to the function's code and addresses it
    pc-relatively with a fixed displacement (no relocation).  Code precedes data: the first such address marks the end
    of the instructions; the linear sweep is cut there (what it decoded from the constants is not code)."""
    size = len(f.code)
    rel = set(o for o, _, _, _ in f.relocs)
    data = size
    keep = []
    for off, n, txt in f.insns:
        if off >= data:
            break
        keep.append((off, n, txt))
        tgt = None
        if arch == "x64":
            m = _RE_RIPREL.search(txt)
            if m and not _norm(txt).startswith("lea ") and not any((off + i) in rel for i in range(n)):
                tgt = off + n + (int(m.group(2)) if m.group(1) == "+" else -int(m.group(2)))
        else:
            m = _RE_A64_LIT.match(_norm(txt))
            if m and off not in rel:
                tgt = off + int(m.group(1))
        if tgt is not None and off + n <= tgt <= size:
            data = min(data, tgt)
    f.data_start = data
    if data < size:
        f.insns = keep
        if keep and keep[-1][0] + keep[-1][1] > data:
            f.decoded_end = keep[-1][0]        # an instruction runs into the constants
        else:
            f.decoded_end = min(max(f.decoded_end, 0), data) if f.decoded_end < data else data


# ---------------------------------------------------------------------------------------------
# per-architecture instruction reading



def _norm(txt):
    return txt  # instruction texts are normalised (single spaces) when they are read from the disassembler


def _imm(x):
    return int(x, 0)


_X64_JCC = re.compile(r"(j\w+) (-?\d+)$")
_X64_MOVIMM = re.compile(r"(?:mov|movabs) (r\w+|e\w+), (-?\d+|0x[0-9a-f]+)$")


def _step_x64(t, d, consts):
    """effect of one instruction on d = rbp - rsp.  Returns (new d | None if unknown, note)."""
    sp = t.find(" ")
    mn = t[:sp] if sp > 0 else t
    if mn in ("push", "pushfq"):
        return d + 8, None
    if mn in ("pop", "popfq"):
        if t == "pop rsp":
            return None, t
        return d - 8, None
    if mn == "leave":
        return -8, None
    if mn == "enter":
        return None, t
    if sp < 0:
        return d, None
    if t.startswith("rsp,", sp + 1):
        if mn in ("cmp", "test"):
            return d, None
        rest = t[sp + 6:]
        if mn in ("sub", "add"):
            try:
                v = int(rest, 0)
            except ValueError:
                v = consts.get(rest, consts.get("e" + rest[1:]))
                if v is None:
                    return None, t
            return (d + v if mn == "sub" else d - v), None
        if t == "mov rsp, rbp":
            return 0, None
        return None, t
    if t.startswith("rbp", sp + 1) and (len(t) == sp + 4 or t[sp + 4] == ","):
        if mn in ("cmp", "test"):
            return d, None
        return None, t  # the frame pointer must stay put
    return d, None


_A64_BR = re.compile(r"(b|b\.\w+|cbn?z \w+,|tbn?z \w+, #\d+,) #(-?\d+)$")
_A64_NOWRITE = ("cmp", "cmn", "tst", "cbz", "cbnz", "tbz", "tbnz")


def _step_a64(t, d, consts):
    sp = t.find(" ")
    if sp < 0:
        return d, None
    mn = t[:sp]
    nd = d
    if t.endswith("]!"):
        k = t.rfind("[sp, #")
        if k >= 0:
            nd = d - int(t[k + 6:-2], 0)       # stp a, b, [sp, #-16]!  grows the frame by 16
    else:
        k = t.rfind("[sp], #")
        if k >= 0:
            nd = d - int(t[k + 7:], 0)
    if t.startswith("sp,", sp + 1) or t.startswith("wsp,", sp + 1):
        if mn in _A64_NOWRITE:
            return d, None
        m = re.match(r"(sub|add) sp, sp, #(\d+|0x[0-9a-f]+)(?:, lsl #(\d+))?$", t)
        if m:
            v = _imm(m.group(2)) << int(m.group(3) or 0)
            return (d + v if m.group(1) == "sub" else d - v), None
        m = re.match(r"(sub|add) sp, sp, (x\d+)(?:, uxtx)?$", t)
        if m:
            v = consts.get(m.group(2))
            if v is None:
                return None, t
            return (d + v if m.group(1) == "sub" else d - v), None
        if t in ("mov sp, x29", "add sp, x29, xzr", "add sp, x29, #0"):
            return 0, None
        return None, t
    if t.startswith("x29,", sp + 1) or (mn == "ldp" and ", x29, [" in t):
        if mn in _A64_NOWRITE or mn.startswith("st"):
            return nd, None
        if t == "ldp x29, x30, [sp], #16":
            return nd, None
        return None, t  # the frame pointer must stay put
    return nd, None


def _track_const(arch, t, consts):
    """remembers immediates moved into registers (used by `sub sp, sp, reg` for large frames)"""
    if arch == "x64":
        m = _X64_MOVIMM.match(t)
        if m:
            consts[m.group(1)] = _imm(m.group(2))
            return
    else:
        m = re.match(r"mov (x\d+), #(-?\d+|0x[0-9a-f]+)$", t)
        if m:
            consts[m.group(1)] = _imm(m.group(2))
            return
        m = re.match(r"movz (x\d+), #(\d+|0x[0-9a-f]+)(?:, lsl #(\d+))?$", t)
        if m:
            consts[m.group(1)] = _imm(m.group(2)) << int(m.group(3) or 0)
            return
        m = re.match(r"movk (x\d+), #(\d+|0x[0-9a-f]+)(?:, lsl #(\d+))?$", t)
        if m and m.group(1) in consts:
            sh = int(m.group(3) or 0)
            consts[m.group(1)] = (consts[m.group(1)] & ~(0xFFFF << sh)) | (_imm(m.group(2)) << sh)
            return
    # any other write to a tracked register forgets it
    m = re.match(r"\w+ (\w+),", t)
    if m and m.group(1) in consts:
        del consts[m.group(1)]


def stack_depths(f, arch, noreturn=(), jump_tables=None):
    """Forward data flow over the function's control-flow graph: for every reachable instruction the distance
    d = frame pointer - stack pointer before it executes.  The frame at a call site is [fp - d, fp).
    (boots saves live registers with pushes around slow-path calls, so the frame is not a per-function constant.)
    Returns (depth dict offset -> d, issues [(class, text)], offsets of dead code); f.succ = successor offsets of
    every instruction that changes the flow of control (all others fall through)."""
    insns = f.insns
    issues = []
    f.succ = succ = {}
    t = [_norm(x[2]) for x in insns]
    if arch == "x64":
        ok = len(t) >= 2 and t[0] == "push rbp" and t[1] == "mov rbp, rsp"
        step = _step_x64
    else:
        ok = len(t) >= 2 and t[0] == "stp x29, x30, [sp, #-16]!" and t[1] in ("mov x29, sp", "add x29, sp, xzr")
        step = _step_a64
    if not ok:
        return None, [("prologue-unrecognised", "prologue is %s" % "; ".join(t[:3]))], set()
    index = {o: i for i, (o, _, _) in enumerate(insns)}
    size = len(f.code)
    table_at = {}
    if jump_tables:
        for o, typ, target, _ in f.relocs:
            if target in jump_tables:
                table_at[o] = jump_tables[target]

    def indirect_targets(i):
        """the targets of an indirect jump: the table whose address is loaded just before it (else every table target)"""
        for k in range(i - 1, max(i - 6, -1), -1):
            o, n, _ = insns[k]
            for b in range(o, o + n):
                if b in table_at:
                    return list(table_at[b])
        return list(f.labels)
    depth = {}
    dead = set()
    in_dead = False
    work = [(2, 0, {})]
    base = None
    scan = 2
    while True:
        if not work:
            # code no path from the entry reaches (cannon emits e.g. `call unreachable; int3` behind a jump): analysed
            # with the frame the prologue set up, and reported as dead, never as a violation by itself
            if base is None:
                for o, n, _ in insns[2:]:
                    x = t[index[o]]
                    if o in depth and (x.startswith("j") or x.startswith("b") or x.startswith("cb") or x.startswith("call")):
                        base = depth[o]
                        break
                if base is None:
                    base = max(depth.values()) if depth else 0
            while scan < len(insns) and (insns[scan][0] in depth or t[scan] in ("int3", "nop", "brk #0") or t[scan].startswith("brk")):
                scan += 1
            if scan >= len(insns):
                break
            ndead = len(depth)
            work.append((scan, base, {}))
            in_dead = True
        i, d, consts = work.pop()
        consts = dict(consts)
        while True:
            if i >= len(insns):
                break
            off, n, _ = insns[i]
            if off in depth:
                if depth[off] != d and not in_dead:
                    issues.append(("stack-depth-conflict", "offset %d reached with depths %d and %d" % (off, depth[off], d)))
                break
            depth[off] = d
            if in_dead:
                dead.add(off)
            x = t[i]
            nd, note = step(x, d, consts)
            if nd is None:
                issues.append(("stack-pointer-write", "offset %d: %s" % (off, note)))
                nd = d
            if i < 16:
                _track_const(arch, x, consts)
            d = nd
            nxt = off + n
            targets = None
            fall = True
            c0 = x[0]
            if off in noreturn:
                fall = False
                succ[off] = []
            elif arch == "x64":
                m = _X64_JCC.match(x) if c0 == "j" else None
                if m:
                    targets = [nxt + int(m.group(2))]
                    fall = m.group(1) != "jmp"
                elif c0 == "j" and x.startswith("jmp"):
                    targets = indirect_targets(i)  # indirect jump: a jump table of this function
                    fall = False
                elif x.startswith("ret") or x in ("int3", "ud2", "hlt"):
                    fall = False
            elif c0 in "bcrtu":
                m = _A64_BR.match(x)
                if m:
                    targets = [off + int(m.group(2))]
                    fall = m.group(1) != "b"
                elif re.match(r"br x\d+$", x):
                    targets = indirect_targets(i)
                    fall = False
                elif x.startswith("ret") or x.startswith("brk") or x.startswith("udf"):
                    fall = False
            if targets is not None or not fall:
                succ[off] = ([nxt] if fall else []) + [tg for tg in (targets or ()) if tg in index]
            if targets:
                for tg in targets:
                    if tg == size:
                        continue
                    if tg not in index:
                        issues.append(("branch-into-instruction", "offset %d: %s targets %d" % (off, x, tg)))
                        continue
                    if tg not in depth:
                        work.append((index[tg], d, consts))
                    elif depth[tg] != d and not in_dead:
                        issues.append(("stack-depth-conflict", "offset %d reached with depths %d and %d" % (tg, depth[tg], d)))
            if not fall:
                break
            i += 1
    f_dead = dead
    return depth, issues, f_dead


def calls_x64(f):
    """[(offset, return offset, 'direct'|'indirect', text)] and jumps with relocations"""
    res = []
    for off, n, txt in f.insns:
        t = _norm(txt)
        if t.startswith("call"):
            if f.code[off] == 0xe8 and n == 5:
                res.append((off, off + n, "direct", t))
            else:
                res.append((off, off + n, "indirect", t))
    return res


def calls_a64(f):
    res = []
    for off, n, txt in f.insns:
        t = _norm(txt)
        if t.startswith("bl ") or t.startswith("bl\t"):
            res.append((off, off + 4, "direct", t))
        elif t.startswith("blr") or t.startswith("blraa") or t.startswith("blrab"):
            res.append((off, off + 4, "indirect", t))
    return res


# ---------------------------------------------------------------------------------------------
# the analysis

_RE_FPPOS_X64 = re.compile(r"\[rbp \+ (\d+)\]")
_RE_FPPOS_A64 = re.compile(r"\[x29, #(\d+)\]")


class Problem:
    __slots__ = ("cls", "sub", "sym", "text", "data")

    def __init__(self, cls, sub, sym, text, data=None):
        self.cls = cls      # problem class (stable)
        self.sub = sub      # sub-class for the key (callee class, table name ...)
        self.sym = sym      # function symbol or None for file-level problems
        self.text = text
        self.data = data or {}


def callee_class(target, kind):
    if kind is None:
        return "external:" + target
    if kind == KIND_OPTIMIZED:
        return "dora-function"
    return KIND_NAMES.get(kind, "kind%d" % kind)


def analyse(a, arch, only=None, file_level=None):
    """Checks every function of a parsed+disassembled file (or only the symbols in `only`), and the file-level
    relations (code ranges, table slices) unless file_level is False.  Returns (problems, stats)."""
    P = []
    st = {"functions": 0, "optimized_functions": 0, "trampolines": 0, "call_sites_required": 0, "call_sites_optional": 0,
          "optional_with_map": 0, "indirect_calls": 0, "gcpoints": 0, "gcpoint_slots": 0, "interior_pairs": 0,
          "nonempty_maps": 0, "locations": 0, "inlined_functions": 0, "code_bytes": 0, "instructions": 0,
          "max_frame": 0, "callee_classes": {}, "trampoline_caller_slots": 0, "safepoint_polls": 0,
          "backedges": 0, "atomic_insns": 0, "dead_call_sites": 0, "incoming_stack_arg_slots": 0, "functions_with_constant_pool": 0, "constant_pool_bytes": 0, "intrinsic_micro_loops": 0}
    try:
        T = tables(a)
    except ParseError as e:
        return [Problem("metadata-malformed", "tables", None, str(e))], st
    fns = T["functions"]
    gcp, offs, inter, locs, inl = T["gcpoints"], T["offsets"], T["interior"], T["locations"], T["inlined"]

    # ---- file level: code ranges -------------------------------------------------------------
    by_start = {}
    for e in fns:
        by_start.setdefault(e.start[0], []).append(e)
    if file_level is None:
        file_level = only is None
    if file_level:
        for f in a.funcs:
            n = len(by_start.get(f.sym, []))
            if n != 1:
                P.append(Problem("function-table", "missing" if n == 0 else "duplicate", f.sym,
                                 "function symbol %s occurs %d times in .dora.functions" % (f.sym, n)))
        for lab, cnt in a.text_label_count.items():
            if cnt > 1:
                P.append(Problem("function-table", "label-defined-twice", lab, "label %s defined %d times in .text" % (lab, cnt)))
        ranges = []
        for e in fns:
            s, en = e.start, e.end
            if s[0] not in a.text_labels or en[0] not in a.text_labels:
                P.append(Problem("function-table", "undefined-label", s[0],
                                 "entry %d: range [%s, %s) uses a label not defined in .text" % (e.row, s[0], en[0])))
                continue
            sa, ea = a.text_labels[s[0]] + s[1], a.text_labels[en[0]] + en[1]
            fl = a.by_sym.get(s[0])
            if s[1] != 0 or not fl:
                P.append(Problem("function-table", "start-not-a-function", s[0], "entry %d starts at %s+%d" % (e.row, s[0], s[1])))
            elif fl[0].end_label != en[0] or en[1] != 0:
                P.append(Problem("code-range", "end-label", s[0],
                                 "entry %d: range of %s ends at %s+%d but its code ends at %s" % (e.row, s[0], en[0], en[1], fl[0].end_label)))
            if sa > ea:
                P.append(Problem("code-range", "negative", s[0], "entry %d: start %d > end %d" % (e.row, sa, ea)))
            if sa == ea:
                P.append(Problem("code-range", "empty", s[0], "entry %d: empty code range" % e.row))
            ranges.append((sa, ea, e))
        for (s1, e1, x1), (s2, e2, x2) in zip(ranges, ranges[1:]):
            if s2 < s1:
                P.append(Problem("code-range", "unordered", x2.start[0], "entry %d (%s) starts before entry %d (%s)" % (
                    x2.row, x2.start[0], x1.row, x1.start[0])))
        sr = sorted(ranges, key=lambda r: (r[0], r[1]))
        for (s1, e1, x1), (s2, e2, x2) in zip(sr, sr[1:]):
            if e1 > s2:
                P.append(Problem("code-range", "overlap", x2.start[0], "[%d,%d) of %s overlaps [%d,%d) of %s" % (
                    s1, e1, x1.start[0], s2, e2, x2.start[0])))
        # sub-table partitions: every function owns the slice directly behind its predecessor's
        for name, tab, get in (("gcpoints", gcp, lambda e: (e.gc_start, e.gc_len)),
                               ("locations", locs, lambda e: (e.loc_start, e.loc_len)),
                               ("inlined_functions", inl, lambda e: (e.inl_start, e.inl_len))):
            nxt = 0
            for e in fns:
                s, n = get(e)
                if s != nxt or s + n > len(tab):
                    P.append(Problem("metadata-slices", name, e.start[0], "entry %d: %s slice [%d,+%d) does not follow its predecessor (expected start %d, table has %d)" % (
                        e.row, name, s, n, nxt, len(tab))))
                    nxt = s + n
                else:
                    nxt = s + n
            if nxt != len(tab):
                P.append(Problem("metadata-slices", name, None, "%s: %d entries owned by functions, table has %d" % (name, nxt, len(tab))))
        nxt_o = nxt_i = 0
        for gi, (pc, os_, ol, is_, il) in enumerate(gcp):
            if os_ != nxt_o or os_ + ol > len(offs) or is_ != nxt_i or is_ + il > len(inter):
                P.append(Problem("metadata-slices", "gcpoint-offsets", None, "gcpoint %d: offsets [%d,+%d) / interior [%d,+%d) do not follow the predecessor (%d/%d) or exceed the tables (%d/%d)" % (
                    gi, os_, ol, is_, il, nxt_o, nxt_i, len(offs), len(inter))))
            nxt_o, nxt_i = os_ + ol, is_ + il
        if nxt_o != len(offs) or nxt_i != len(inter):
            P.append(Problem("metadata-slices", "gcpoint-offsets", None, "offset tables have unowned entries (%d of %d, %d of %d)" % (nxt_o, len(offs), nxt_i, len(inter))))

    kind_of = {}
    for e in fns:
        kind_of.setdefault(e.start[0], e.kind)

    # ---- per function ------------------------------------------------------------------------
    for e in fns:
        sym = e.start[0]
        if only is not None and sym not in only:
            continue
        fl = a.by_sym.get(sym)
        if not fl:
            continue
        f = fl[0]
        size = len(f.code)
        st["functions"] += 1
        st["code_bytes"] += size
        st["instructions"] += len(f.insns)
        if e.kind not in KIND_NAMES:
            P.append(Problem("function-table", "bad-kind", sym, "code kind %d" % e.kind))
            continue
        if e.pad != 0:
            P.append(Problem("function-table", "padding", sym, "reserved field is %d" % e.pad))
        if e.info >= T["ninfo"]:
            P.append(Problem("function-table", "function-info", sym, "function_info index %d of %d" % (e.info, T["ninfo"])))
        if f.sync_lost:
            P.append(Problem("undecodable-code", KIND_NAMES[e.kind], sym, "bytes at offsets %s of %s do not decode / run over the end" % (f.sync_lost[:5], sym)))
        mygc = gcp[e.gc_start:e.gc_start + e.gc_len] if e.gc_start + e.gc_len <= len(gcp) else []
        myloc = locs[e.loc_start:e.loc_start + e.loc_len] if e.loc_start + e.loc_len <= len(locs) else []
        myinl = inl[e.inl_start:e.inl_start + e.inl_len] if e.inl_start + e.inl_len <= len(inl) else []
        st["gcpoints"] += len(mygc)
        st["locations"] += len(myloc)
        st["inlined_functions"] += len(myinl)
        boundaries = set(o for o, _, _ in f.insns)
        boundaries.add(size)
        boundaries.add(f.data_start)
        if f.data_start < size:
            st["functions_with_constant_pool"] += 1
            st["constant_pool_bytes"] += size - f.data_start

        # frame extent per call site: fp - sp before the call instruction (data flow over the function)
        calls = calls_x64(f) if arch == "x64" else calls_a64(f)
        # relocations by offset (needed to classify the callees)
        reloc_at = {}
        for off, typ, target, addend in f.relocs:
            reloc_at.setdefault(off, []).append((typ, target, addend))
        # calls that never return (trap, stack overflow, unreachable, fatal error) end their path
        noreturn = set()
        for off, ret, how, txt in calls:
            if how == "direct":
                for typ, target, _ in reloc_at.get(off + 1 if arch == "x64" else off, ()):
                    if kind_of.get(target) in OPTIONAL_CALLEE_KINDS:
                        noreturn.add(off)
        # return offsets of those calls: the map recorded there is never read (the callee ends the process), and the
        # stack-overflow slow path releases the frame before it calls out, so the frame-extent rule does not apply
        noreturn_rets = set(ret for off, ret, how, txt in calls if off in noreturn)
        depth, issues, dead = stack_depths(f, arch, noreturn, a.jump_tables)
        for cls, text in issues[:3]:
            P.append(Problem(cls, KIND_NAMES[e.kind] + ":" + arch, sym, text))
        why = issues[0][1] if issues else ""
        ret_depth = {}
        if depth is not None:
            for off, n, _ in f.insns:
                if off in depth:
                    ret_depth[off + n] = depth[off]
            fmax = max(depth.values()) if depth else 0
            st["max_frame"] = max(st["max_frame"], fmax)
        else:
            fmax = None

        fp_args = set()
        fpmark, fpre = ("[rbp + ", _RE_FPPOS_X64) if arch == "x64" else ("[x29, #", _RE_FPPOS_A64)
        for _, _, txt in f.insns:
            if fpmark in txt:
                for m in fpre.finditer(txt):
                    fp_args.add(int(m.group(1)))

        # ---- gcpoints: order, range, slots ----------------------------------------------------
        prev = None
        gc_pcs = {}
        for gi, (pc, os_, ol, is_, il) in enumerate(mygc):
            if prev is not None and pc <= prev:
                P.append(Problem("gcpoint-order", KIND_NAMES[e.kind], sym, "gcpoint pc offsets not strictly increasing: %d after %d" % (pc, prev)))
            prev = pc
            if pc in gc_pcs:
                pass
            gc_pcs[pc] = gi
            # a return address equal to the end of the range is the first byte of the NEXT function: the runtime's
            # interval map [start, end) would attribute the frame to the wrong function
            if pc >= size:
                P.append(Problem("gcpoint-outside-function", KIND_NAMES[e.kind], sym, "gcpoint at %d, function has %d bytes" % (pc, size)))
            slots = offs[os_:os_ + ol] if os_ + ol <= len(offs) else []
            pairs = inter[is_:is_ + il] if is_ + il <= len(inter) else []
            st["gcpoint_slots"] += len(slots)
            st["interior_pairs"] += len(pairs)
            if slots or pairs:
                st["nonempty_maps"] += 1
            seen = set()
            for s in slots:
                if s in seen:
                    P.append(Problem("slot-duplicate", KIND_NAMES[e.kind], sym, "gcpoint %d lists slot %d twice" % (pc, s)))
                seen.add(s)
                if s % 8:
                    P.append(Problem("slot-unaligned", KIND_NAMES[e.kind], sym, "gcpoint %d: slot %d is not 8-aligned" % (pc, s)))
                    continue
                if e.kind == KIND_OPTIMIZED:
                    ext = ret_depth.get(pc)
                    if ext is None:
                        continue  # reported below: map not at a (reachable) call
                    if pc in noreturn_rets:
                        continue
                    if s >= 16 and s in fp_args:
                        # calibration: boots leaves stack-passed arguments where the caller put them (fp+16+8k is the
                        # `Arg`'s spill slot, pkgs/boots/regalloc.dora allocate_fixed_output) and lists them in the
                        # callee's maps.  Accepted only for slots the function itself reads as [fp + s].
                        st["incoming_stack_arg_slots"] += 1
                    elif not (-ext <= s < 0):
                        P.append(Problem("slot-outside-frame", KIND_NAMES[e.kind], sym, "gcpoint %d: slot %d outside the frame [-%d, 0)" % (pc, s, ext),
                                         {"slot": s, "frame": ext, "pc": pc}))
                else:
                    # trampolines: saved argument registers inside the frame, or handles to stack arguments of the
                    # caller (fp+16 upwards): dora-compiler/src/runtime_entry_trampoline.rs ArgumentSource::CallerArg
                    if s >= 0:
                        st["trampoline_caller_slots"] += 1
                        if s < 16 or s >= 16 + 8 * 64:
                            P.append(Problem("slot-outside-frame", KIND_NAMES[e.kind], sym, "gcpoint %d: slot %d is neither in the frame nor a caller stack argument" % (pc, s)))
                    elif fmax is not None and s < -fmax:
                        P.append(Problem("slot-outside-frame", KIND_NAMES[e.kind], sym, "gcpoint %d: slot %d outside the frame [-%d, 0)" % (pc, s, fmax)))
            pseen = set()
            for s in pairs:
                words = (s, s + 8)
                if s % 8:
                    P.append(Problem("slot-unaligned", "interior", sym, "gcpoint %d: interior pair at %d is not 8-aligned" % (pc, s)))
                    continue
                ext = ret_depth.get(pc) if e.kind == KIND_OPTIMIZED else fmax
                if e.kind == KIND_OPTIMIZED and pc in noreturn_rets:
                    ext = None
                if ext is not None and not (-ext <= s and s + 16 <= 0):
                    P.append(Problem("slot-outside-frame", "interior", sym, "gcpoint %d: interior pair [%d,%d) outside the frame [-%d, 0)" % (pc, s, s + 16, ext)))
                for w in words:
                    if w in seen or w in pseen:
                        P.append(Problem("slot-duplicate", "interior", sym, "gcpoint %d: interior pair at %d overlaps another slot (%d)" % (pc, s, w)))
                    pseen.add(w)
        if e.kind == KIND_OPTIMIZED:
            st["optimized_functions"] += 1
            # ---- call sites ------------------------------------------------------------------
            ret_required = {}
            ret_optional = {}
            for off, ret, how, txt in calls:
                if how == "direct":
                    roff = off + 1 if arch == "x64" else off
                    rl = [r for r in reloc_at.get(roff, []) if r[0] in ("R_X86_64_PC32", "R_AARCH64_CALL26")]
                    if not rl:
                        # a direct call without relocation targets a fixed address inside this object: unknown callee
                        cls = "unrelocated"
                        ret_required[ret] = (cls, txt)
                        P.append(Problem("call-unclassified", cls, sym, "direct call at %d without relocation (%s)" % (off, txt)))
                        continue
                    target = rl[0][1]
                    k = kind_of.get(target)
                    cls = callee_class(target, k)
                    st["callee_classes"][cls] = st["callee_classes"].get(cls, 0) + 1
                    if k in REQUIRED_CALLEE_KINDS:
                        ret_required[ret] = (cls, target)
                    elif k in OPTIONAL_CALLEE_KINDS or (k is None and target in OPTIONAL_EXTERNALS):
                        ret_optional[ret] = (cls, target)
                    else:
                        ret_required[ret] = (cls, target)
                        P.append(Problem("call-unclassified", cls, sym, "call at %d to %s (kind %s): not a known callee class" % (off, target, k)))
                else:
                    st["indirect_calls"] += 1
                    st["callee_classes"]["indirect"] = st["callee_classes"].get("indirect", 0) + 1
                    ret_required[ret] = ("indirect", txt)
            st["dead_call_sites"] += sum(1 for off, ret, how, txt in calls if off in dead)
            st["call_sites_required"] += len(ret_required)
            st["call_sites_optional"] += len(ret_optional)
            for ret, (cls, target) in sorted(ret_required.items()):
                if ret not in gc_pcs:
                    P.append(Problem("missing-gcpoint", cls, sym, "call to %s returning at offset %d has no stack map" % (target, ret),
                                     {"return_offset": ret, "callee": target}))
            for ret in ret_optional:
                if ret in gc_pcs:
                    st["optional_with_map"] += 1
            for pc in gc_pcs:
                if depth is not None and (pc in ret_required or pc in ret_optional) and pc not in ret_depth:
                    P.append(Problem("call-unreachable", "optimized", sym, "the call returning at %d carries a stack map but was not analysed" % pc))
                if pc not in ret_required and pc not in ret_optional:
                    P.append(Problem("gcpoint-not-at-call", "optimized", sym, "stack map at offset %d is not the return offset of any call" % pc,
                                     {"pc": pc}))
            # call relocations must all have been seen as calls (or be tail jumps): the sweep is in step with the code
            call_offs = set((o + 1 if arch == "x64" else o) for o, _, h, _ in calls if h == "direct")
            for off, typ, target, addend in f.relocs:
                is_fn = target in kind_of or target in OPTIONAL_EXTERNALS or target.startswith("dora_native_") or target.startswith("dora_aot_")
                if arch == "x64" and typ == "R_X86_64_PC32" and is_fn and not target.startswith(".L") and off not in call_offs:
                    if target == "dora_aot_shape_base":
                        continue
                    op = f.code[off - 1] if off >= 1 else None
                    if op == 0xe9 and (off - 1) in boundaries:
                        continue  # tail jump
                    P.append(Problem("reloc-not-a-call", "x64", sym, "relocation to %s at %d is not on a decoded call" % (target, off)))
                if arch == "arm64" and typ == "R_AARCH64_CALL26" and off not in call_offs:
                    word = int.from_bytes(f.code[off:off + 4], "little")
                    if (word >> 26) == 0x05 and off in boundaries:
                        continue  # plain b: tail jump
                    P.append(Problem("reloc-not-a-call", "arm64", sym, "relocation to %s at %d is not on a decoded bl" % (target, off)))
            # ---- safepoint polls and atomics (statistics + entry poll) -----------------------------
            if depth is not None:
                harmless = set(off for off, ret, how, txt in calls if ret in ret_optional)
                for cls, text in poll_coverage(f, arch, depth, dead, harmless):
                    P.append(Problem(cls, "optimized", sym, text))
                st["intrinsic_micro_loops"] += f.micro_loops
            polls, backedges, atomics = poll_stats(f, arch)
            st["safepoint_polls"] += polls
            st["backedges"] += backedges
            st["atomic_insns"] += atomics
        else:
            st["trampolines"] += 1
            pcs = sorted(gc_pcs)
            if e.kind in KINDS_MAP_AT_ZERO:
                if pcs != [0]:
                    P.append(Problem("trampoline-map", KIND_NAMES[e.kind], sym, "%s trampoline must carry exactly one map at offset 0, has %s" % (KIND_NAMES[e.kind], pcs)))
            elif pcs not in ([], [0]):
                # calibration: the trap, safepoint and gc-allocation trampolines also carry a map at offset 0 that the
                # runtime never reads (their frames are skipped / never walked); the dora-entry trampoline has none
                P.append(Problem("trampoline-map", KIND_NAMES[e.kind], sym, "%s trampoline has maps at %s" % (KIND_NAMES[e.kind], pcs)))

        # ---- locations -----------------------------------------------------------------------
        prevpc = None
        for (pc, iid, line, col) in myloc:
            if prevpc is not None and pc <= prevpc:
                P.append(Problem("location-order", KIND_NAMES[e.kind], sym, "location pc offsets not strictly increasing: %d after %d" % (pc, prevpc),
                                 {"pc": pc, "prev": prevpc}))
            prevpc = pc
            if pc >= size or pc == 0:
                P.append(Problem("location-outside-function", KIND_NAMES[e.kind], sym, "location at %d, function has %d bytes" % (pc, size)))
            elif pc not in boundaries:
                P.append(Problem("location-inside-instruction", KIND_NAMES[e.kind], sym, "location at %d is not an instruction boundary" % pc))
            if iid != NO_INLINED and iid >= len(myinl):
                P.append(Problem("location-inlined-id", KIND_NAMES[e.kind], sym, "location at %d names inlined function %d of %d" % (pc, iid, len(myinl))))
        for ii, (info, parent, line, col) in enumerate(myinl):
            if info >= T["ninfo"]:
                P.append(Problem("inlined-function-info", KIND_NAMES[e.kind], sym, "inlined function %d: function_info %d of %d" % (ii, info, T["ninfo"])))
            if parent != NO_INLINED and parent >= len(myinl):
                P.append(Problem("inlined-parent", "range", sym, "inlined function %d has parent %d of %d" % (ii, parent, len(myinl))))
                continue
            # acyclic: follow the chain
            seen = {ii}
            p = parent
            while p != NO_INLINED and p < len(myinl):
                if p in seen:
                    P.append(Problem("inlined-parent", "cycle", sym, "inlined function %d: parent chain returns to %d" % (ii, p)))
                    break
                seen.add(p)
                p = myinl[p][1]
    return P, st


def is_poll(t, arch):
    if arch == "x64":
        return t.startswith("cmp byte ptr [r15 + ") and t.endswith("], 0")
    return t.startswith("ldrb w") and "[x28, #" in t


def poll_coverage(f, arch, depth, dead, harmless_calls=()):
    """The safepoint poll (C04's modelled poll): (1) on every path the entry poll comes before the first call and
    (2) every cycle of the control-flow graph contains a poll.  Returns list of (class, text).
    Works on the successor relation recorded by stack_depths; only reachable code counts."""
    insns = f.insns
    succ = f.succ
    res = []
    polls = set(o for o, n, t in insns if t[0] in "cl" and is_poll(t, arch))
    nxt = {}
    for o, n, t in insns:
        nxt[o] = o + n
    # (1) from the entry, stopping at polls: no call may be reachable
    is_call = (lambda t: t.startswith("call")) if arch == "x64" else (lambda t: t.startswith("bl"))
    text = dict((o, t) for o, n, t in insns)
    if len(insns) > 2:
        seen = set()
        stack = [insns[2][0]]
        while stack:
            o = stack.pop()
            if o in seen or o in polls or o not in depth or o in dead:
                continue
            seen.add(o)
            if is_call(text[o]) and o not in harmless_calls:
                res.append(("call-before-entry-poll", "the call at %d can execute before any safepoint poll" % o))
                break
            stack.extend(succ[o] if o in succ else [nxt[o]])
    # (2) cycles avoiding polls: only possible through a backward edge
    back = [(o, tg) for o, tgs in succ.items() for tg in tgs if tg <= o and o in depth and o not in dead]
    # calibration: micro loops emitted inside one operation (zero-filling a fresh array/object, load-linked/store-
    # conditional retry) have no poll by design: a backward branch over at most 96 bytes whose body contains no call and
    # no branch other than forward exits
    micro = set()
    offs = [o for o, n, t in insns]
    for b, tg in back:
        # the body [tg, b]: no call, no poll, and every branch inside leaves forward (exit) or is the back branch itself
        if b - tg > 96:
            continue
        ok = True
        for o in offs[bisect.bisect_left(offs, tg):bisect.bisect_right(offs, b)]:
            if is_call(text[o]):
                ok = False
                break
            if o in succ and o != b and any(x <= b for x in succ[o] if x != nxt[o]):
                ok = False
                break
        if ok:
            micro.add((b, tg))
    back = [e for e in back if e not in micro]
    f.micro_loops = len(micro)
    if back:
        WHITE, GREY, BLACK = 0, 1, 2
        color = {}
        for b, start in back:
            if start in polls or color.get(start, WHITE) != WHITE:
                continue
            # iterative DFS
            stack = [(start, iter(succ[start] if start in succ else [nxt[start]]))]
            color[start] = GREY
            while stack:
                o, it = stack[-1]
                adv = False
                for c in it:
                    if c in polls or c not in depth or (o, c) in micro:
                        continue
                    col = color.get(c, WHITE)
                    if col == GREY:
                        res.append(("loop-without-poll", "the cycle through %d (closed at %d) contains no safepoint poll" % (c, o)))
                        return res
                    if col == WHITE:
                        color[c] = GREY
                        stack.append((c, iter(succ[c] if c in succ else [nxt[c]])))
                        adv = True
                        break
                if not adv:
                    color[o] = BLACK
                    stack.pop()
    return res


def poll_stats(f, arch):
    """statistics only: safepoint polls (flag byte of the thread compared with 0), backward branches, atomic instructions"""
    polls = backedges = atomics = 0
    if arch == "x64":
        for off, n, t in f.insns:
            c0 = t[0]
            if c0 == "c":
                if t.startswith("cmp byte ptr [r15 + ") and t.endswith("], 0"):
                    polls += 1
            elif c0 == "j":
                k = t.find(" -")
                if k > 0 and t[k + 2:].isdigit():
                    backedges += 1
            elif c0 == "l" or c0 == "x":
                if t.startswith("lock") or t.startswith("xchg"):
                    atomics += 1
    else:
        for off, n, t in f.insns:
            c0 = t[0]
            if c0 == "l":
                if t.startswith("ldrb w") and "[x28, #" in t:
                    polls += 1
                elif t.startswith(("ldadd", "ldaxr", "ldar", "ldxr")):
                    atomics += 1
            elif c0 in "bct":
                k = t.find("#-")
                if k > 0 and t[k + 2:].isdigit() and (c0 != "b" or t.startswith(("b ", "b."))):
                    backedges += 1
            elif c0 == "s" and t.startswith(("swp", "stlxr", "stlr", "stxr")):
                atomics += 1
            elif c0 == "c" and t.startswith("cas"):
                atomics += 1
    return polls, backedges, atomics
