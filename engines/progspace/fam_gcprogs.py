"""Allocation-heavy deterministic programs for C03's collection-point enumeration: every program keeps
references in as many kinds of places as possible (locals across allocations, by-value structs and tuples
holding references, lambda environments, trait objects, enum payloads, arrays/Vec/HashMap backing stores,
globals, deep recursion frames, large objects) while it allocates, and prints checksums.  Each has a few
dozen to a few hundred allocations, so EVERY allocation can be made a collection point in turn."""

PROGS = {}

PROGS["list"] = r"""
use std::string::Stringable;
class Node { v: Int64, next: Option[Node] }
fn build(n: Int64): Option[Node] {
  let mut head: Option[Node] = None[Node];
  let mut i = 0;
  while i < n { head = Some[Node](Node(v = i, next = head)); i = i + 1; }
  head
}
fn reverse(l: Option[Node]): Option[Node] {
  let mut out: Option[Node] = None[Node];
  let mut cur = l;
  while cur.is_some() {
    let n = cur.get_or_panic();
    out = Some[Node](Node(v = n.v * 2, next = out));
    cur = n.next;
  }
  out
}
fn sum(l: Option[Node]): Int64 { let mut s = 0; let mut k = 1; let mut c = l; while c.is_some() { let n = c.get_or_panic(); s = s + n.v * k; k = k + 1; c = n.next; } s }
fn main() {
  let a = build(12);
  let b = reverse(a);
  let c = reverse(b);
  println("${sum(a)} ${sum(b)} ${sum(c)}");
}
"""

PROGS["tree"] = r"""
use std::string::Stringable;
class T { l: Option[T], r: Option[T], v: Int64 }
fn mk(d: Int64, v: Int64): Option[T] {
  if d == 0 { return None[T]; }
  let l = mk(d - 1, v * 2);
  let r = mk(d - 1, v * 2 + 1);
  Some[T](T(l = l, r = r, v = v))
}
fn walk(t: Option[T]): Int64 { if t.is_none() { return 0; } let n = t.get_or_panic(); walk(n.l) * 3 + n.v + walk(n.r) * 5 }
fn mirror(t: Option[T]): Option[T] {
  if t.is_none() { return None[T]; }
  let n = t.get_or_panic();
  let r = mirror(n.r);
  let l = mirror(n.l);
  Some[T](T(l = r, r = l, v = n.v + 1))
}
fn main() {
  let t = mk(5, 1);
  let m = mirror(t);
  println("${walk(t)} ${walk(m)} ${walk(mirror(m))}");
}
"""

PROGS["values"] = r"""
use std::string::Stringable;
class Box { v: Int64 }
struct S { a: Int64, b: Box, c: (Int64, Box) }
fn mk(i: Int64): S { let b = Box(v = i); let c = Box(v = i * 10); S(a = i, b = b, c = (i + 1, c)) }
fn pass(s: S, t: (Box, Int64, S)): Int64 {
  let fresh = Box(v = 1000);
  s.a + s.b.v + s.c.0 + s.c.1.v + t.0.v + t.1 + t.2.b.v + fresh.v
}
fn main() {
  let mut total = 0;
  let mut i = 0;
  while i < 8 {
    let s = mk(i);
    let t = (Box(v = i + 100), i, mk(i + 50));
    let garbage = mk(i + 7);
    total = total + pass(s, t) + garbage.a - garbage.a;
    i = i + 1;
  }
  println(total.to_string());
}
"""

PROGS["closures"] = r"""
use std::string::Stringable;
class Box { v: Int64 }
trait Shape { fn area(): Int64; }
class Sq { s: Box }
class Rc { w: Box, h: Box }
impl Shape for Sq { fn area(): Int64 { let t = Box(v = self.s.v); t.v * self.s.v } }
impl Shape for Rc { fn area(): Int64 { let t = Box(v = self.w.v); t.v * self.h.v } }
fn adder(b: Box): (Int64): Int64 { |x: Int64|: Int64 { let t = Box(v = x); t.v + b.v } }
fn main() {
  let fs = Vec[(Int64): Int64]::new();
  let shapes = Vec[Shape]::new();
  let mut i = 0;
  while i < 6 {
    fs.push(adder(Box(v = i * 3)));
    if i % 2 == 0 { shapes.push(Sq(s = Box(v = i + 1)) as Shape); } else { shapes.push(Rc(w = Box(v = i), h = Box(v = i + 2)) as Shape); }
    i = i + 1;
  }
  let mut total = 0;
  i = 0;
  while i < 6 { let f = fs(i); total = total * 7 + f(i) + shapes(i).area(); i = i + 1; }
  println(total.to_string());
}
"""

PROGS["strings"] = r"""
use std::string::Stringable;
use std::string::StringBuffer;
fn main() {
  let parts = Vec[String]::new();
  let mut i = 0;
  while i < 10 { parts.push("p${i}" + i.to_string()); i = i + 1; }
  let sb = StringBuffer::new();
  for p in parts { sb.append(p); sb.append(","); }
  let s = sb.to_string();
  let mut acc = "";
  i = 0;
  while i < 6 { acc = acc + s.size().to_string() + "-"; i = i + 1; }
  println(s);
  println(acc);
}
"""

PROGS["enums"] = r"""
use std::string::Stringable;
class Box { v: Int64 }
enum E { A, B(Box), C(Int64, Box, String), D(Option[E2]) }
enum E2 { X(Box), Y }
fn mk(i: Int64): E {
  let k = i % 4;
  if k == 0 { E::A } else if k == 1 { E::B(Box(v = i)) } else if k == 2 { E::C(i, Box(v = i * 2), "s" + i.to_string()) } else { E::D(Some[E2](E2::X(Box(v = i * 3)))) }
}
fn val(e: E): Int64 {
  match e {
    E::A => { let t = Box(v = 1); t.v },
    E::B(b) => { let t = Box(v = 2); t.v + b.v },
    E::C(n, b, s) => { let t = Box(v = 3); t.v + n + b.v + s.size() },
    E::D(o) => match o { Some(x) => match x { E2::X(b) => { let t = Box(v = 4); b.v + t.v }, E2::Y => 5 }, None => 6 },
  }
}
fn main() {
  let es = Vec[E]::new();
  let mut i = 0;
  while i < 12 { es.push(mk(i)); i = i + 1; }
  let mut total = 0;
  for e in es { total = total * 3 + val(e); }
  println(total.to_string());
}
"""

PROGS["hashmap"] = r"""
use std::string::Stringable;
use std::collections::HashMap;
class Box { v: Int64 }
fn main() {
  let m = HashMap[Int64, Box]::new();
  let mut i = 0;
  while i < 20 { m.insert(i * 7 % 23, Box(v = i)); i = i + 1; }
  i = 0;
  while i < 20 { if i % 3 == 0 { m.remove(i * 7 % 23); } i = i + 1; }
  let mut total = 0;
  i = 0;
  while i < 23 { let r = m.get(i); if r.is_some() { total = total * 5 + r.get_or_panic().v + 1; } i = i + 1; }
  println("${total} ${m.size()}");
}
"""

PROGS["generic"] = r"""
use std::string::Stringable;
class Box { v: Int64 }
class Pair[A, B] { a: A, b: B }
fn mkpair[A, B](a: A, b: B): Pair[A, B] { let junk = Box(v = 0); Pair[A, B](a = a, b = b) }
fn swap[A, B](p: Pair[A, B]): Pair[B, A] { let junk = Box(v = 0); Pair[B, A](a = p.b, b = p.a) }
fn first[T](v: Vec[T]): Option[T] { let junk = Box(v = 0); if v.size() > 0 { Some[T](v(0)) } else { None[T] } }
fn main() {
  let p = mkpair[Box, String](Box(v = 5), "five");
  let q = swap[Box, String](p);
  let r = mkpair[Pair[String, Box], (Int64, Box)](q, (7, Box(v = 8)));
  let v = Vec[Pair[Box, String]]::new();
  v.push(p); v.push(mkpair[Box, String](Box(v = 6), "six"));
  let f = first[Pair[Box, String]](v).get_or_panic();
  println("${q.a} ${q.b.v} ${r.a.b.v} ${r.b.0} ${r.b.1.v} ${f.a.v} ${f.b}");
}
"""

PROGS["old2young"] = r"""
use std::string::Stringable;
class Box { v: Int64 }
let mut G: Option[Array[Option[Box]]] = None[Array[Option[Box]]];
fn churn(n: Int64): Int64 { let mut s = 0; let mut i = 0; while i < n { let b = Box(v = i); s = s + b.v; i = i + 1; } s }
fn main() {
  let arr = Array[Option[Box]]::fill(8, None[Box]);
  G = Some[Array[Option[Box]]](arr);
  let keep = Box(v = 99);
  let mut total = churn(10);
  let mut i = 0;
  while i < 8 {
    arr(i) = Some[Box](Box(v = i + keep.v));
    total = total + churn(3);
    i = i + 1;
  }
  let a2 = G.get_or_panic();
  i = 0;
  while i < 8 { total = total * 3 + a2(i).get_or_panic().v; i = i + 1; }
  println(total.to_string());
}
"""

PROGS["large"] = r"""
use std::string::Stringable;
class Box { v: Int64 }
fn main() {
  // arrays around the TLAB-object and large-object thresholds, holding references
  let sizes = Array[Int64]::new(1000, 2040, 2050, 4000, 16380, 16390, 40000);
  let keep = Vec[Array[Option[Box]]]::new();
  let mut total = 0;
  for n in sizes {
    let a = Array[Option[Box]]::fill(n, None[Box]);
    a(0) = Some[Box](Box(v = n));
    a(n - 1) = Some[Box](Box(v = n + 1));
    a(n / 2) = Some[Box](Box(v = n + 2));
    keep.push(a);
    let bytes = Array[UInt8]::zero(n * 3);
    total = total + bytes.size();
  }
  for a in keep { let n = a.size(); total = total * 3 + a(0).get_or_panic().v + a(n - 1).get_or_panic().v + a(n / 2).get_or_panic().v; }
  println(total.to_string());
}
"""

PROGS["iter"] = r"""
use std::string::Stringable;
class Box { v: Int64 }
fn main() {
  let v = Vec[Box]::new();
  let mut i = 0;
  while i < 10 { v.push(Box(v = i)); i = i + 1; }
  let mut total = 0;
  for b in v { let t = Box(v = b.v * 2); total = total * 3 + t.v; }
  for (idx, b) in v.enumerate() { let t = (Box(v = idx), b); total = total + t.0.v * t.1.v; }
  let w = Vec[Vec[Box]]::new();
  i = 0;
  while i < 4 { let inner = Vec[Box]::new(); let mut j = 0; while j <= i { inner.push(Box(v = i * 10 + j)); j = j + 1; } w.push(inner); i = i + 1; }
  for inner in w { for b in inner { total = total * 2 + b.v; } }
  println(total.to_string());
}
"""

PROGS["deep"] = r"""
use std::string::Stringable;
class Box { v: Int64 }
fn rec(d: Int64, a: Box, b: (Int64, Box), c: Option[Box]): Int64 {
  let mine = Box(v = d);
  if d == 0 { return a.v + b.1.v + c.get_or_panic().v + mine.v; }
  let below = rec(d - 1, mine, (d, a), Some[Box](b.1));
  below * 2 + mine.v + a.v + b.0 + b.1.v + c.get_or_panic().v
}
fn main() {
  println(rec(14, Box(v = 1), (2, Box(v = 3)), Some[Box](Box(v = 4))).to_string());
}
"""


def all_programs():
    return dict(PROGS)


# ------------------------------------------------------------------------------------------------
# threshold arrays: objects whose byte size is exactly at, one or two words below and above every size
# threshold of the allocators and collectors (TLAB object limit, large-object limit, page size), read from
# the current sources

def thresholds(repo="/repo"):
    import os
    import re
    vals = {}
    K = 1024
    for rel, names in (("dora-compiler/src/abi.rs", ("LARGE_OBJECT_SIZE", "MAX_TLAB_OBJECT_SIZE")),
                       ("dora-runtime/src/gc/tlab.rs", ("MIN_TLAB_SIZE", "MAX_TLAB_SIZE")),
                       ("dora-runtime/src/gc/swiper.rs", ("PAGE_SIZE",))):
        try:
            text = open(os.path.join(repo, rel)).read()
        except OSError:
            continue
        for n in names:
            m = re.search(r"const %s: usize = (\d+)\s*(\*\s*K)?\s*;" % n, text)
            if m:
                vals[n] = int(m.group(1)) * (K if m.group(2) else 1)
    out = sorted(set(vals.values()) | {8 * K, 32 * K, 64 * K})
    return out, vals


def threshold_program(repo="/repo"):
    """returns (source, expected stdout).  Array object = 16 bytes header+length, then the elements."""
    ts, _ = thresholds(repo)
    lens = []
    for t in ts:
        for d in (-2, -1, 0, 1, 2):
            n = (t - 16) // 8 + d
            if n > 4 and n not in lens:
                lens.append(n)
    lens.sort()
    src = r"""
use std::string::Stringable;
class Box { v: Int64 }
fn refs(n: Int64): Int64 {
  let a = Array[Option[Box]]::fill(n, None[Box]);
  a(0) = Some[Box](Box(v = n));
  a(n / 2) = Some[Box](Box(v = n + 1));
  a(n - 1) = Some[Box](Box(v = n + 2));
  std::force_minor_collect();
  let mut s = a(0).get_or_panic().v + a(n / 2).get_or_panic().v * 3 + a(n - 1).get_or_panic().v * 5;
  std::force_minor_collect();
  std::force_minor_collect();
  // the array is old (or in the large-object space) now: stores of young objects need the barrier
  a(0) = Some[Box](Box(v = n + 10));
  a(n - 1) = Some[Box](Box(v = n + 12));
  a(n / 2) = Some[Box](Box(v = n + 11));
  a(1) = Some[Box](Box(v = 7));
  std::force_minor_collect();
  s = s * 7 + a(0).get_or_panic().v + a(n / 2).get_or_panic().v * 3 + a(n - 1).get_or_panic().v * 5 + a(1).get_or_panic().v;
  std::force_collect();
  a(n - 2) = Some[Box](Box(v = 9));
  std::force_minor_collect();
  s = s * 7 + a(0).get_or_panic().v + a(n / 2).get_or_panic().v * 3 + a(n - 1).get_or_panic().v * 5 + a(n - 2).get_or_panic().v;
  let mut holes = 0;
  let mut i = 0;
  while i < n { if a(i).is_none() { holes = holes + 1; } i = i + 1; }
  s * 11 + holes
}
fn ints(n: Int64): Int64 {
  let a = Array[Int64]::zero(n);
  let mut i = 0;
  while i < n { a(i) = i * 3 + n; i = i + 1; }
  let witness = Box(v = n);
  std::force_minor_collect();
  std::force_minor_collect();
  std::force_collect();
  let mut s = witness.v;
  i = 0;
  while i < n { s = (s * 31 + a(i)) % 1000000007; i = i + 1; }
  s
}
fn bytes(n: Int64): Int64 {
  let a = Array[UInt8]::zero(n);
  let mut i = 0;
  while i < n { a(i) = (i % 251).to_uint8(); i = i + 1; }
  let witness = Box(v = n);
  std::force_minor_collect();
  std::force_collect();
  let mut s = witness.v;
  i = 0;
  while i < n { s = (s * 31 + a(i).to_int64()) % 1000000007; i = i + 1; }
  s
}
fn main() {
  let lens = Array[Int64]::new(@LENS@);
  for n in lens {
    println("${n} ${refs(n)} ${ints(n)} ${bytes(n * 8)} ${bytes(n * 8 - 3)}");
  }
}
""".replace("@LENS@", ", ".join(str(n) for n in lens))

    def refs(n):
        s = n + (n + 1) * 3 + (n + 2) * 5
        s = s * 7 + (n + 10) + (n + 11) * 3 + (n + 12) * 5 + 7
        s = s * 7 + (n + 10) + (n + 11) * 3 + (n + 12) * 5 + 9
        holes = n - len({0, n // 2, n - 1, 1, n - 2})
        return s * 11 + holes

    def ints(n):
        s = n
        for i in range(n):
            s = (s * 31 + i * 3 + n) % 1000000007
        return s

    def byts(n):
        s = n
        for i in range(n):
            s = (s * 31 + i % 251) % 1000000007
        return s
    exp = "".join("%d %d %d %d %d\n" % (n, refs(n), ints(n), byts(n * 8), byts(n * 8 - 3)) for n in lens)
    return src, exp, lens
