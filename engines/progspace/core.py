"""progspace core: enumerated program families are packed into compilation units, compiled by both code
generators of the real toolchain and run; results are compared per case with generator-known
expectations or differentially.  No sampling: every case of every declared family is built and run.
"""
import os
import re
import shutil
import signal
import subprocess
import sys
import threading
from concurrent.futures import ThreadPoolExecutor

sys.path.insert(0, os.path.join(os.path.dirname(os.path.dirname(os.path.abspath(__file__))), "common"))
import vcommon  # noqa: E402

TRAPS = {101: "division by 0", 102: "assert failed", 103: "array index out of bounds", 104: "nil check failed",
         105: "cast failed", 106: "out of memory", 107: "stack overflow", 108: "illegal state", 109: "overflow",
         110: "shift amount out of bounds"}
TRAP_CODE = {"div0": 101, "assert": 102, "index": 103, "nil": 104, "cast": 105, "oom": 106, "stack": 107,
             "illegal": 108, "overflow": 109, "shift": 110}

GROUP = 100  # cases per group function (boots runs out of its own heap on functions with thousands of calls)


class Case:
    """One closed test case: `body` is the text of a Dora function body printing its observations with
    println; `decls` are top-level declarations private to the case (names must contain `{id}`)."""
    __slots__ = ("family", "name", "body", "decls", "expect_out", "expect_end", "meta", "prelude")

    def __init__(self, family, name, body, decls="", expect_out=None, expect_end=None, meta=None, prelude=""):
        self.prelude = prelude          # declarations shared by all cases of a family (emitted once per unit)
        self.family = family
        self.name = name
        self.body = body
        self.decls = decls
        self.expect_out = expect_out    # list of stdout lines or None (differential only)
        self.expect_end = expect_end    # 0 for normal return, 101..110 for traps, None unknown
        self.meta = meta or {}


def run_group(cmd, timeout, env=None, cwd=None):
    """subprocess.run that kills the whole process group on timeout (the driver spawns the code generator as a child)"""
    p = subprocess.Popen(cmd, stdout=subprocess.PIPE, stderr=subprocess.PIPE, env=env, cwd=cwd, start_new_session=True)
    try:
        out, err = p.communicate(timeout=timeout)
    except subprocess.TimeoutExpired:
        try:
            os.killpg(p.pid, signal.SIGKILL)
        except OSError:
            pass
        p.communicate()
        raise
    return subprocess.CompletedProcess(cmd, p.returncode, out, err)


class Toolchain:
    """bindir: the debug-assertion build (its runtime is linked into every executable under test);
    fastdir (optional): the build without debug assertions used as compiler host for bulk compilation."""

    def __init__(self, bindir, fastdir=None):
        self.bindir = bindir
        self.fastdir = fastdir
        self.dora = os.path.join(bindir, "dora")

    def compile(self, src, out, backend, gc=None, extra=(), timeout=900, env=None):
        if self.fastdir and not extra:
            return self.compile_split(src, out, backend, gc, timeout, env)
        return self.compile_direct(src, out, backend, gc, extra, timeout, env)

    def compile_split(self, src, out, backend, gc, timeout, env):
        """fast compiler -> assembly; gcc assembles; linked against the debug-assertion runtime exactly like
        driver/compile.rs::link_object_unix does."""
        e = dict(os.environ)
        e["RUST_BACKTRACE"] = "0"
        e["DORA_FLAGS"] = "--gc-worker 1"
        if env:
            e.update(env)
        cmd = [os.path.join(self.fastdir, "dora"), "compile", "-S", src, "-o", out + ".asm"]
        if backend == "cannon":
            cmd.append("--cannon")
        if gc:
            cmd.append("--gc=%s" % gc)
        try:
            p = run_group(cmd, timeout, env=e, cwd=os.path.dirname(src))
        except subprocess.TimeoutExpired:
            return False, "compile timeout"
        err = p.stderr.decode("utf-8", "replace") + p.stdout.decode("utf-8", "replace")
        if p.returncode != 0:
            return False, err
        asm = out + ".s"  # the driver replaces the extension of the -o path
        if not os.path.exists(asm):
            asm = os.path.splitext(out + ".asm")[0] + ".s"
        obj = out + ".o"
        p = subprocess.run(["gcc", "-c", asm, "-o", obj], stdout=subprocess.PIPE, stderr=subprocess.PIPE)
        if p.returncode != 0:
            return False, "assembling failed: " + p.stderr.decode("utf-8", "replace")[-2000:]
        p = subprocess.run(["gcc", obj, os.path.join(self.bindir, "libdora_startup.a"), os.path.join(self.bindir, "libdora_runtime.a"),
                            "-Wl,-x", "-lpthread", "-ldl", "-lm", "-o", out], stdout=subprocess.PIPE, stderr=subprocess.PIPE)
        for f in (asm, obj):
            try:
                os.remove(f)
            except OSError:
                pass
        if p.returncode != 0:
            return False, "linking failed: " + p.stderr.decode("utf-8", "replace")[-2000:]
        return True, err

    def compile_link_many(self, src, outs, backend, gc=None, timeout=900, env=None):
        """One compilation (fast compiler -> assembly -> object), linked once per entry of `outs`
        ({runtime lib dir: executable path}).  Returns (ok, message)."""
        e = dict(os.environ)
        e["RUST_BACKTRACE"] = "0"
        e["DORA_FLAGS"] = "--gc-worker 1"
        if env:
            e.update(env)
        first = next(iter(outs.values()))
        cmd = [os.path.join(self.fastdir or self.bindir, "dora"), "compile", "-S", src, "-o", first + ".asm"]
        if backend == "cannon":
            cmd.append("--cannon")
        if gc:
            cmd.append("--gc=%s" % gc)
        try:
            p = run_group(cmd, timeout, env=e, cwd=os.path.dirname(src))
        except subprocess.TimeoutExpired:
            return False, "compile timeout"
        err = p.stderr.decode("utf-8", "replace") + p.stdout.decode("utf-8", "replace")
        if p.returncode != 0:
            return False, err
        asm = first + ".s"
        if not os.path.exists(asm):
            asm = os.path.splitext(first + ".asm")[0] + ".s"
        obj = first + ".o"
        p = subprocess.run(["gcc", "-c", asm, "-o", obj], stdout=subprocess.PIPE, stderr=subprocess.PIPE)
        if p.returncode != 0:
            return False, "assembling failed: " + p.stderr.decode("utf-8", "replace")[-2000:]
        ok, msg = True, err
        for libdir, out in outs.items():
            p = subprocess.run(["gcc", obj, os.path.join(libdir, "libdora_startup.a"), os.path.join(libdir, "libdora_runtime.a"),
                                "-Wl,-x", "-lpthread", "-ldl", "-lm", "-o", out], stdout=subprocess.PIPE, stderr=subprocess.PIPE)
            if p.returncode != 0:
                ok, msg = False, "linking failed: " + p.stderr.decode("utf-8", "replace")[-2000:]
        for f in (asm, obj):
            try:
                os.remove(f)
            except OSError:
                pass
        return ok, msg

    def compile_direct(self, src, out, backend, gc=None, extra=(), timeout=900, env=None):
        cmd = [self.dora, "compile", src, "-o", out]
        if backend == "cannon":
            cmd.append("--cannon")
        if gc:
            cmd += ["--gc=%s" % gc]
        cmd += list(extra)
        e = dict(os.environ)
        e["RUST_BACKTRACE"] = "0"
        # the optimizing compiler is itself a Dora program: one GC worker instead of 8 spinning ones per process
        e["DORA_FLAGS"] = "--gc-worker 1"
        if env:
            e.update(env)
        try:
            p = run_group(cmd, timeout, env=e, cwd=os.path.dirname(src))
        except subprocess.TimeoutExpired:
            return False, "compile timeout"
        err = "\n".join(l for l in (p.stderr.decode("utf-8", "replace") + p.stdout.decode("utf-8", "replace")).splitlines()
                        if "/usr/bin/ld:" not in l)
        return p.returncode == 0, err


def run_exe(exe, args=(), flags=None, timeout=60, env=None, cwd=None):
    """Runs a compiled Dora executable.  Returns dict(out, err, code, signal, timeout)."""
    e = dict(os.environ)
    e.pop("DORA_FLAGS", None)
    if flags:
        e["DORA_FLAGS"] = flags
    if env:
        e.update(env)
    try:
        p = subprocess.run([exe] + [str(a) for a in args], stdout=subprocess.PIPE, stderr=subprocess.PIPE,
                           timeout=timeout, env=e, cwd=cwd)
    except subprocess.TimeoutExpired:
        # wall-clock limits say little on a loaded machine: a run only counts as not terminating when it also
        # exceeds five times the limit on a second attempt
        try:
            p = subprocess.run([exe] + [str(a) for a in args], stdout=subprocess.PIPE, stderr=subprocess.PIPE,
                               timeout=timeout * 5, env=e, cwd=cwd)
        except subprocess.TimeoutExpired as ex:
            return {"out": (ex.stdout or b"").decode("utf-8", "replace"), "err": (ex.stderr or b"").decode("utf-8", "replace"),
                    "code": None, "signal": None, "timeout": True}
    sig = -p.returncode if p.returncode < 0 else None
    return {"out": p.stdout.decode("utf-8", "replace"), "err": p.stderr.decode("utf-8", "replace"),
            "code": p.returncode if p.returncode >= 0 else None, "signal": sig, "timeout": False}


def ending(r):
    """Canonical description of how a run ended."""
    if r["timeout"]:
        return "timeout"
    if r["signal"] is not None:
        try:
            return "signal:" + signal.Signals(r["signal"]).name
        except ValueError:
            return "signal:%d" % r["signal"]
    return "exit:%d" % r["code"]


def first_err_line(r):
    for l in r["err"].splitlines():
        if l.strip():
            return l.strip()
    return ""


def defined_ending(r):
    """True iff the run ended in one of the documented ways (C02)."""
    if r["timeout"] or r["signal"] is not None:
        return False
    if "panicked at" in r["err"] or "RUST_BACKTRACE" in r["err"]:
        return False
    c = r["code"]
    if c in TRAPS:
        return first_err_line(r) == TRAPS[c]
    return True


class Unit:
    def __init__(self, uid, cases, prelude="use std::string::Stringable;\nuse std::traits::Equals;\n"):
        self.uid = uid
        self.cases = cases
        self.prelude = prelude

    def source(self):
        out = [self.prelude]
        seen_preludes = []
        for c in self.cases:
            if c.prelude and c.prelude not in seen_preludes:
                seen_preludes.append(c.prelude)
        out += seen_preludes
        for i, c in enumerate(self.cases):
            if c.decls:
                out.append(c.decls.replace("{id}", str(i)))
            out.append("fn case_%d() {\n%s\n}" % (i, c.body.replace("{id}", str(i))))
        ngroups = (len(self.cases) + GROUP - 1) // GROUP
        for g in range(ngroups):
            lines = ["fn group_%d(c: Int32) {" % g]
            for i in range(g * GROUP, min(len(self.cases), (g + 1) * GROUP)):
                c = self.cases[i]
                # in whole-group mode (c == -1) cases known to trap are skipped; they run on their own
                # c <= -2: resume the whole group at case -c - 2 (used when a case of unknown ending stopped the run)
                cond = "c == %di32" % i if (c.expect_end not in (0, None)) else "sel(c, %di32)" % i
                lines.append("  if %s { println(\"#%d\"); case_%d(); }" % (cond, i, i))
            lines.append("}")
            out.append("\n".join(lines))
        out.append("fn sel(c: Int32, i: Int32): Bool { c == i || c == -1i32 || (c < -1i32 && i >= -2i32 - c) }")
        main = ["fn main() {",
                "  let g = std::argv(0i32).to_int32().get_or_panic();",
                "  let c = if std::argc() > 1i32 { std::argv(1i32).to_int32().get_or_panic() } else { -1i32 };"]
        for g in range(ngroups):
            main.append("  %sif g == %di32 { group_%d(c); }" % ("else " if g else "", g, g))
        main.append("}")
        out.append("\n".join(main))
        return "\n\n".join(out) + "\n"

    def ngroups(self):
        return (len(self.cases) + GROUP - 1) // GROUP


def split_output(text):
    """Splits group output into {case index: [lines]}."""
    res = {}
    cur = None
    for line in text.splitlines():
        m = re.fullmatch(r"#(\d+)", line)
        if m:
            cur = int(m.group(1))
            res[cur] = []
        elif cur is not None:
            res[cur].append(line)
    return res


class Observation:
    __slots__ = ("out", "end", "errline", "err")

    def __init__(self, out, end, errline, err=""):
        self.out = out
        self.end = end
        self.errline = errline
        self.err = err

    def key(self):
        return (tuple(self.out), self.end, self.errline)


def run_unit_resuming(exe, unit, flags=None, timeout=60, env=None):
    """Like run_unit for units whose cases may end in unknown ways: after a case stops the process the group is
    resumed behind it (processes = abnormal endings + 1 per group)."""
    obs = {}
    for g in range(unit.ngroups()):
        lo, hi = g * GROUP, min(len(unit.cases), (g + 1) * GROUP)
        start = lo
        while start < hi:
            sel = -1 if start == lo else -2 - start
            r = run_exe(exe, [g, sel], flags=flags, timeout=timeout, env=env)
            parts = split_output(r["out"])
            ran = sorted(i for i in parts if i >= start)
            end = ending(r)
            if end == "exit:0" and ran and ran[-1] == hi - 1:
                for i in ran:
                    obs[i] = Observation(parts[i], "exit:0", "")
                for i in range(start, hi):
                    if i not in obs:
                        obs[i] = Observation([], "not-run", "")
                break
            # otherwise the process ended inside its last started case (a trap, a crash or an explicit exit)
            if not ran:
                obs[start] = Observation([], end, first_err_line(r), r["err"][-1500:])
                start += 1
                continue
            for i in ran[:-1]:
                obs[i] = Observation(parts[i], "exit:0", "")
            last = ran[-1]
            obs[last] = Observation(parts[last], end, first_err_line(r), r["err"][-1500:])
            start = last + 1
    return obs


def run_unit(exe, unit, flags=None, timeout=120, env=None):
    """Runs every case of a compiled unit; returns {case index: Observation}."""
    obs = {}
    for g in range(unit.ngroups()):
        lo, hi = g * GROUP, min(len(unit.cases), (g + 1) * GROUP)
        r = run_exe(exe, [g], flags=flags, timeout=timeout, env=env)
        parts = split_output(r["out"])
        end = ending(r)
        ran = sorted(parts)
        pending = []
        for i in range(lo, hi):
            c = unit.cases[i]
            if c.expect_end not in (0, None):
                pending.append(i)  # known trapping case: always on its own
        if end == "exit:0":
            for i in ran:
                obs[i] = Observation(parts[i], "exit:0", "")
            for i in range(lo, hi):
                if i not in obs and i not in pending:
                    pending.append(i)  # should have run but produced no marker
        else:
            # the group died in its last started case; earlier ones completed normally
            for i in ran[:-1]:
                obs[i] = Observation(parts[i], "exit:0", "")
            if ran:
                last = ran[-1]
                obs[last] = Observation(parts[last], end, first_err_line(r), r["err"][-1500:])
            for i in range(lo, hi):
                if i not in obs and i not in pending:
                    pending.append(i)
        for i in sorted(set(pending)):
            r = run_exe(exe, [g, i], flags=flags, timeout=timeout, env=env)
            parts = split_output(r["out"])
            obs[i] = Observation(parts.get(i, []), ending(r), first_err_line(r), r["err"][-1500:])
    return obs


def pack(cases, per_unit=800):
    units = []
    for k in range(0, len(cases), per_unit):
        units.append(Unit(len(units), cases[k:k + per_unit]))
    return units


class Builder:
    """Compiles units for a set of (backend, gc) configurations in parallel."""

    def __init__(self, tc, scratch):
        self.tc = tc
        self.scratch = scratch

    def build(self, unit, backend, gc=None, tag=""):
        d = os.path.join(self.scratch, "u%d%s" % (unit.uid, tag))
        os.makedirs(d, exist_ok=True)
        src = os.path.join(d, "unit.dora")
        if not os.path.exists(src):
            # several configurations of one unit are built concurrently: the source appears atomically, complete
            tmp = "%s.%d.%d.tmp" % (src, os.getpid(), threading.get_ident())
            with open(tmp, "w") as f:
                f.write(unit.source())
            os.replace(tmp, src)
        exe = os.path.join(d, "unit-%s-%s" % (backend, gc or "default"))
        ok, err = self.tc.compile(src, exe, backend, gc=gc)
        return exe if ok else None, err


def parallel(fn, items, workers=None):
    workers = workers or vcommon.NCPU
    with ThreadPoolExecutor(max_workers=workers) as ex:
        return list(ex.map(fn, items))
