"""Family `ctrl`: every statement list up to a length / nesting bound over assignment, if, while,
for (range / array / Vec), break, continue, return, match -- with tracer conditions; a small
interpreter over the same tree is the reference."""
import itertools
from core import Case

PRELUDE_CTRL = """
fn ct(k: Int64, v: Bool): Bool { println("c ${k}"); v }
enum Col { Red, Green, Blue }
fn col(n: Int64): Col { if n % 3 == 0 { Col::Red } else if n % 3 == 1 { Col::Green } else { Col::Blue } }
"""


UNIQ = itertools.count(1)


class Break(Exception):
    pass


class Continue(Exception):
    pass


class Return(Exception):
    def __init__(self, v):
        self.v = v


# statements are tuples; state: dict with x (accumulator) and loop variables
#  ("add", k)                 x = x * 3 + k
#  ("if", key, cond_kind, S1, S2)     cond_kind: "x_even" | "x_gt5" | "true" | "false" ; traced through ct(key, ..)
#  ("while", n, S)            i = 0; while i < n { S; i = i + 1 }
#  ("for_range", n, S)        for i in std::range(0, n) { S }
#  ("for_arr", S)             for e in Array(2,5,7) { x = x + e; S }
#  ("for_vec", S)             for e in Vec(1,4) { x = x + e; S }
#  ("break_if", k)            if i == k { break }      (only inside a loop)
#  ("continue_if", k)         if i == k { continue }   (only inside a loop)
#  ("return_if", cond_kind)   if cond { return x + 1000 }
#  ("match_int", S0, S1, Sd)  match x % 3 { 0 => S0, 1 => S1, _ => Sd }
#  ("match_enum", S0, S1, S2) match col(x) { Red => S0, Green => S1, Blue => S2 }

def cond_src(kind):
    return {"x_even": "x % 2 == 0", "x_gt5": "x > 5", "true": "true", "false": "false"}[kind]


def cond_val(kind, st):
    x = st["x"]
    return {"x_even": x % 2 == 0, "x_gt5": x > 5, "true": True, "false": False}[kind]


def emit_block(stmts, ind, loopvar):
    return "\n".join(emit(s, ind, loopvar) for s in stmts)


def emit(s, ind, loopvar):
    p = "  " * ind
    k = s[0]
    if k == "add":
        return "%sx = x * 3 + %d;" % (p, s[1])
    if k == "if":
        out = "%sif ct(%d, %s) {\n%s\n%s}" % (p, s[1], cond_src(s[2]), emit_block(s[3], ind + 1, loopvar), p)
        if s[4] is not None:
            out += " else {\n%s\n%s}" % (emit_block(s[4], ind + 1, loopvar), p)
        return out
    if k == "while":
        v = "w%d" % next(UNIQ)
        # the counter is advanced at the top of the body so that `continue` cannot skip it
        return "%slet mut %s = -1;\n%swhile %s + 1 < %d {\n%s  %s = %s + 1;\n%s\n%s}" % (
            p, v, p, v, s[1], p, v, v, emit_block(s[2], ind + 1, v), p)
    if k == "for_range":
        v = "i%d" % next(UNIQ)
        return "%sfor %s in std::range(0, %d) {\n%s\n%s}" % (p, v, s[1], emit_block(s[2], ind + 1, v), p)
    if k == "for_arr":
        v = "i%d" % next(UNIQ)
        return "%sfor %s in Array[Int64]::new(2, 5, 7) {\n%s  x = x + %s;\n%s\n%s}" % (p, v, p, v, emit_block(s[1], ind + 1, v), p)
    if k == "for_vec":
        v = "i%d" % next(UNIQ)
        return "%sfor %s in Vec[Int64]::new(1, 4) {\n%s  x = x + %s;\n%s\n%s}" % (p, v, p, v, emit_block(s[1], ind + 1, v), p)
    if k == "break_if":
        return "%sif %s == %d { break; }" % (p, loopvar, s[1])
    if k == "continue_if":
        return "%sif %s == %d { continue; }" % (p, loopvar, s[1])
    if k == "return_if":
        return "%sif %s { return x + 1000; }" % (p, cond_src(s[1]))
    if k == "match_int":
        return "%smatch x %% 3 {\n%s  0 => {\n%s\n%s  }\n%s  1 => {\n%s\n%s  }\n%s  _ => {\n%s\n%s  }\n%s}" % (
            p, p, emit_block(s[1], ind + 2, loopvar), p, p, emit_block(s[2], ind + 2, loopvar), p, p, emit_block(s[3], ind + 2, loopvar), p, p)
    if k == "match_enum":
        return "%smatch col(x) {\n%s  Col::Red => {\n%s\n%s  }\n%s  Col::Green => {\n%s\n%s  }\n%s  Col::Blue => {\n%s\n%s  }\n%s}" % (
            p, p, emit_block(s[1], ind + 2, loopvar), p, p, emit_block(s[2], ind + 2, loopvar), p, p, emit_block(s[3], ind + 2, loopvar), p, p)
    raise Exception(k)


def run_block(stmts, st, log, loopval):
    for s in stmts:
        run(s, st, log, loopval)


def wrap64(v):
    v &= (1 << 64) - 1
    return v - (1 << 64) if v >= (1 << 63) else v


class Overflow(Exception):
    pass


def chk(v):
    if v < -(1 << 63) or v >= (1 << 63):
        raise Overflow()
    return v


def run(s, st, log, loopval):
    k = s[0]
    if k == "add":
        st["x"] = chk(chk(st["x"] * 3) + s[1])
    elif k == "if":
        log.append("c %d" % s[1])
        if cond_val(s[2], st):
            run_block(s[3], st, log, loopval)
        elif s[4] is not None:
            run_block(s[4], st, log, loopval)
    elif k in ("while", "for_range"):
        i = 0
        while i < s[1]:
            try:
                run_block(s[2], st, log, i)
            except Continue:
                pass
            except Break:
                break
            i += 1
    elif k in ("for_arr", "for_vec"):
        for e in ([2, 5, 7] if k == "for_arr" else [1, 4]):
            st["x"] = chk(st["x"] + e)
            try:
                run_block(s[1], st, log, e)
            except Continue:
                continue
            except Break:
                break
    elif k == "break_if":
        if loopval == s[1]:
            raise Break()
    elif k == "continue_if":
        if loopval == s[1]:
            raise Continue()
    elif k == "return_if":
        if cond_val(s[1], st):
            raise Return(chk(st["x"] + 1000))
    elif k == "match_int":
        run_block(s[1 + min(st["x"] % 3, 2)], st, log, loopval)
    elif k == "match_enum":
        run_block(s[1 + st["x"] % 3], st, log, loopval)
    else:
        raise Exception(k)


def simple_stmts(in_loop, key):
    out = [("add", 1), ("add", 2), ("return_if", "x_gt5"), ("return_if", "x_even")]
    if in_loop:
        out += [("break_if", 1), ("continue_if", 1), ("break_if", 5), ("continue_if", 0)]
    return out


QUICK = True


def gen_blocks(length, depth, in_loop, keys):
    """statement lists of exactly `length` statements with nesting <= depth; lists longer than one
    statement combine one arbitrary statement with simple ones at every position"""
    if length == 0:
        return [[]]
    if length == 1:
        return [[s] for s in gen_stmts(depth, in_loop, keys)]
    out = []
    simple = simple_stmts(in_loop, keys)
    anys = gen_stmts(depth, in_loop, keys)
    for pos in range(length):
        for a in anys:
            for rest in itertools.product(simple, repeat=length - 1):
                rest = list(rest)
                out.append(rest[:pos] + [a] + rest[pos:])
    return out


def gen_stmts(depth, in_loop, keys):
    out = list(simple_stmts(in_loop, keys))
    if depth > 0:
        inner1 = gen_blocks(1, depth - 1, in_loop, keys)
        loop1 = gen_blocks(1, depth - 1, True, keys)
        if not QUICK:
            loop1 = loop1 + gen_blocks(2, 0, True, keys)
        for ck in (("x_even", "false") if QUICK else ("x_even", "x_gt5", "false", "true")):
            for b in inner1:
                out.append(("if", next(keys), ck, b, None))
                out.append(("if", next(keys), ck, b, [("add", 7)]))
        for n in ((0, 3) if QUICK else (0, 1, 3)):
            for b in loop1:
                out.append(("while", n, b))
        for b in loop1:
            out.append(("for_range", 3, b))
            out.append(("for_arr", b))
            out.append(("for_vec", b))
        for b in inner1[:3]:
            out.append(("match_int", b, [("add", 4)], [("add", 5)]))
            out.append(("match_enum", [("add", 6)], b, [("add", 8)]))
    return out


def cases(quick=True):
    global QUICK, UNIQ
    QUICK = quick
    keys = itertools.count(1)
    out = []
    maxlen = 2 if quick else 3
    depth = 1 if quick else 2
    seen = set()
    for length in range(1, maxlen + 1):
        blocks = gen_blocks(length, depth if length <= 2 else 1, False, keys)
        for b in blocks:
            UNIQ = itertools.count(1)
            src = emit_block(b, 1, None)
            for x0 in ((1, 4) if quick else (0, 1, 4)):
                key = (src, x0)
                if key in seen:
                    continue
                seen.add(key)
                st = {"x": x0}
                log = []
                try:
                    run_block(b, st, log, None)
                    res = st["x"]
                    end = 0
                except Return as r:
                    res = r.v
                    end = 0
                except Overflow:
                    res = None
                    end = 109
                decls = "fn run_{id}(x0: Int64): Int64 {\n  let mut x = x0;\n%s\n  x\n}" % src
                body = "  println(\"= ${run_{id}(%d)}\");" % x0
                expect = log + (["= %d" % res] if end == 0 else [])
                out.append(Case("ctrl", "ctrl:%d:%s" % (x0, " ".join(src.split())[:160]), body, decls=decls,
                                expect_out=expect, expect_end=end, prelude=PRELUDE_CTRL))
    return out
