"""Family `compose`: every chain of up to three links over nine callee kinds (plain fn, generic fn with
trait bound, struct mutating method, class method, trait default method, trait-object call, lambda,
lambda capturing a mutable local, generic class method); each link logs and transforms a value."""
import itertools
from core import Case

PRELUDE_COMPOSE = """
trait Tr { fn step(v: Int64): Int64; fn dflt(v: Int64): Int64 { println("dflt ${v}"); self.step(v) + 100 } }
class TA { k: Int64 }
impl Tr for TA { fn step(v: Int64): Int64 { println("TA.step ${v}"); v * 2 + self.k } }
struct TS { acc: Int64 }
impl TS { mutating fn bump(v: Int64): Int64 { println("TS.bump ${v}"); self.acc = self.acc + v; self.acc } }
impl Tr for TS { fn step(v: Int64): Int64 { println("TS.step ${v}"); v + self.acc } }
class GC[T] { item: T }
impl[T: Tr] GC[T] { fn run(v: Int64): Int64 { println("GC.run ${v}"); self.item.step(v) - 1 } }
fn plain(v: Int64): Int64 { println("plain ${v}"); v * 3 - 1 }
fn gen[T: Tr](t: T, v: Int64): Int64 { println("gen ${v}"); t.step(v) + 5 }
fn via_obj(t: Tr, v: Int64): Int64 { println("obj ${v}"); t.step(v) * 2 }
"""

# kind -> (dora expression template with {v}, python function (v, log, state) -> value, setup lines)
def k_plain(v, log, st):
    log.append("plain %d" % v)
    return v * 3 - 1


def k_generic(v, log, st):
    log.append("gen %d" % v)
    log.append("TA.step %d" % v)
    return v * 2 + 7 + 5


def k_struct_mut(v, log, st):
    log.append("TS.bump %d" % v)
    st["acc"] += v
    return st["acc"]


def k_class_method(v, log, st):
    log.append("TA.step %d" % v)
    return v * 2 + 7


def k_default(v, log, st):
    log.append("dflt %d" % v)
    log.append("TA.step %d" % v)
    return v * 2 + 7 + 100


def k_obj(v, log, st):
    log.append("obj %d" % v)
    log.append("TA.step %d" % v)
    return (v * 2 + 7) * 2


def k_lambda(v, log, st):
    log.append("lam %d" % v)
    return v - 4


def k_lambda_mut(v, log, st):
    st["n"] += 1
    log.append("lamm %d %d" % (v, st["n"]))
    return v + st["n"]


def k_generic_class(v, log, st):
    log.append("GC.run %d" % v)
    log.append("TA.step %d" % v)
    return v * 2 + 7 - 1


KINDS = {
    "plain": ("plain({v})", k_plain),
    "generic": ("gen[TA](ta, {v})", k_generic),
    "struct_mut": ("ts.bump({v})", k_struct_mut),
    "class_method": ("ta.step({v})", k_class_method),
    "default": ("ta.dflt({v})", k_default),
    "trait_obj": ("via_obj(ta as Tr, {v})", k_obj),
    "lambda": ("lam({v})", k_lambda),
    "lambda_mut": ("lamm({v})", k_lambda_mut),
    "generic_class": ("gc.run({v})", k_generic_class),
}

SETUP = [
    "let ta = TA(k = 7);",
    "let mut ts = TS(acc = 10);",
    "let gc = GC[TA](item = ta);",
    "let lam = |v: Int64|: Int64 { println(\"lam ${v}\"); v - 4 };",
    "let mut n = 0;",
    "let lamm = |v: Int64|: Int64 { n = n + 1; println(\"lamm ${v} ${n}\"); v + n };",
]


def cases(quick=True):
    out = []
    maxlen = 2 if quick else 3
    for n in range(1, maxlen + 1):
        for chain in itertools.product(KINDS, repeat=n):
            for nested in ((True, False) if n > 1 else (False,)):
                st = {"acc": 10, "n": 0}
                log = []
                lines = list(SETUP)
                if nested:
                    # one nested expression: k3(k2(k1(v)))
                    expr = "3"
                    v = 3
                    for k in chain:
                        expr = KINDS[k][0].format(v=expr)
                    # evaluation: innermost first
                    for k in chain:
                        v = KINDS[k][1](v, log, st)
                    lines.append("let r = %s;" % expr)
                else:
                    v = 3
                    lines.append("let mut r = 3;")
                    for k in chain:
                        lines.append("r = %s;" % KINDS[k][0].format(v="r"))
                        v = KINDS[k][1](v, log, st)
                lines.append("println(\"= ${r} ${ts.acc} ${n}\");")
                log.append("= %d %d %d" % (v, st["acc"], st["n"]))
                out.append(Case("compose", "compose:%s:%s" % ("nested" if nested else "seq", ">".join(chain)),
                                "\n".join("  " + l for l in lines), expect_out=log, expect_end=0, prelude=PRELUDE_COMPOSE))
    out += misc_cases()
    return out


def misc_cases():
    """globals with side-effecting initialisers, string templates of every printable carrier, enums with payload"""
    prelude = """
fn ginit(k: Int64): Int64 { println("init ${k}"); k * 10 }
let mut G1: Int64 = ginit(1);
let mut G2: Int64 = ginit(2);
let G3: Int64 = 33;
enum Shape { Circle(Int64), Rect(Int64, Int64), Empty }
fn area(s: Shape): Int64 { match s { Shape::Circle(r) => r * r * 3, Shape::Rect(w, h) => w * h, Shape::Empty => 0 } }
"""
    progs = [
        ("globals_order12", "println(\"a\"); let x = G1; println(\"b ${x}\"); let y = G2; println(\"c ${y}\"); println(\"d ${G1} ${G3}\");", None),
        ("globals_order21", "let y = G2; let x = G1; println(\"= ${x} ${y}\");", None),
        ("globals_write", "G1 = 5; G2 = G1 + 1; println(\"= ${G1} ${G2}\");", None),
        ("template_all", "let s = \"x\"; println(\"= ${true} ${7u8} ${'c'} ${-3i32} ${9} ${s} ${(1, 2).0} ${Some[Int64](4).is_some()}\");", ["= true 7 c -3 9 x 1 true"]),
        ("template_nested", "println(\"= ${\"a${1 + 1}b\"}${\"\"}|\");", ["= a2b|"]),
        ("enum_payload", "println(\"= ${area(Shape::Circle(2))} ${area(Shape::Rect(3, 4))} ${area(Shape::Empty)}\");", ["= 12 12 0"]),
        ("char_ops", "let c = 'A'; println(\"= ${c.to_int32()} ${(c.to_int32() + 1i32).to_char().get_or_panic()} ${'ä'.to_int32()} ${'a' < 'b'} ${'a' == 'a'}\");", ["= 65 B 228 true true"]),
        ("uint8_ops", "let a = 250u8; let b = 5u8; println(\"= ${a > b} ${a == b} ${a.to_int32() + b.to_int32()} ${a.to_int64()}\");", ["= true false 255 250"]),
    ]
    out = []
    for n, src, exp in progs:
        out.append(Case("compose", "misc:" + n, "  " + src, expect_out=exp, expect_end=0 if exp is not None else None, prelude=prelude))
    return out
