"""Family `arith`: every operator / intrinsic method x boundary operand pairs x operand provenance
(constant or run-time value) for Int32, Int64, Float32, Float64, with a Python reference evaluator."""
import struct
from core import Case

BITS = {"Int32": 32, "Int64": 64}
SUF = {"Int32": "i32", "Int64": "i64"}


def rng(t):
    b = BITS[t]
    return -(1 << (b - 1)), (1 << (b - 1)) - 1


def wrap(v, t):
    b = BITS[t]
    v &= (1 << b) - 1
    return v - (1 << b) if v >= (1 << (b - 1)) else v


def bv(t, quick):
    lo, hi = rng(t)
    if quick:
        vals = [0, 1, -1, 2, 31, 32, 64, lo, hi]
    else:
        vals = [0, 1, -1, 2, -2, 3, 7, 8, 15, 16, 31, 32, 33, 63, 64, 65, 127, 128, 255, 256, 32767, 65535, 65536,
                0x55555555, -0x55555555, 1 << 30, -(1 << 30), lo, hi, lo + 1, hi - 1]
        if t == "Int64":
            vals += [1 << 31, (1 << 31) - 1, -(1 << 31), 1 << 32, (1 << 32) - 1, 1 << 62, 0x5555555555555555, 3037000500, -3037000500]
    out = []
    for v in vals:
        if lo <= v <= hi and v not in out:
            out.append(v)
    return out


def lit(v, t):
    return "%d%s" % (v, SUF[t]) if t == "Int32" else "%d" % v if v >= 0 or True else ""


def const_expr(v, t):
    # negative literals are written with a unary minus applied to the magnitude, MIN included
    return "%d%s" % (v, SUF[t])


def var_expr(v, t):
    # a run-time value the optimizer cannot fold: parsed from a string
    conv = "to_int32" if t == "Int32" else "to_int64"
    return "\"%d\".%s().get_or_panic()" % (v, conv)


class Trap(Exception):
    def __init__(self, code):
        self.code = code


def checked(v, t):
    lo, hi = rng(t)
    if v < lo or v > hi:
        raise Trap(109)
    return v


def tdiv(a, b):
    q = abs(a) // abs(b)
    return q if (a < 0) == (b < 0) else -q


def shift_amount(n, t):
    if n < 0 or n >= BITS[t]:
        raise Trap(110)
    return n


def clz(v, t):
    b = BITS[t]
    u = v & ((1 << b) - 1)
    return b - u.bit_length()


def ctz(v, t):
    b = BITS[t]
    u = v & ((1 << b) - 1)
    if u == 0:
        return b
    return (u & -u).bit_length() - 1


def popcount(v, t):
    return bin(v & ((1 << BITS[t]) - 1)).count("1")


def int_to_float_bits(x, mant_bits, exp_bits):
    """Correctly rounded (nearest-even) conversion of an integer to an IEEE float, as bits."""
    if x == 0:
        return 0
    sign = 1 if x < 0 else 0
    m = abs(x)
    e = m.bit_length() - 1
    p = mant_bits + 1
    if e + 1 > p:
        shift = e + 1 - p
        q, r = m >> shift, m & ((1 << shift) - 1)
        half = 1 << (shift - 1)
        if r > half or (r == half and (q & 1)):
            q += 1
            if q == (1 << p):
                q >>= 1
                e += 1
        m = q
    else:
        m <<= (p - e - 1)
    bias = (1 << (exp_bits - 1)) - 1
    bits = (sign << (mant_bits + exp_bits)) | ((e + bias) << mant_bits) | (m & ((1 << mant_bits) - 1))
    return bits


def signed(bits, n):
    return bits - (1 << n) if bits >= (1 << (n - 1)) else bits


# binary operators on integers: name -> (dora expression template, evaluator(a, b, t) -> python value)
def int_binops():
    ops = {}

    def add(a, b, t):
        return checked(a + b, t)

    def sub(a, b, t):
        return checked(a - b, t)

    def mul(a, b, t):
        return checked(a * b, t)

    def div(a, b, t):
        if b == 0:
            raise Trap(101)
        return checked(tdiv(a, b), t)

    def mod(a, b, t):
        if b == 0:
            raise Trap(101)
        checked(tdiv(a, b), t)
        return a - tdiv(a, b) * b

    ops["add"] = ("{a} + {b}", add)
    ops["sub"] = ("{a} - {b}", sub)
    ops["mul"] = ("{a} * {b}", mul)
    ops["div"] = ("{a} / {b}", div)
    ops["mod"] = ("{a} % {b}", mod)
    ops["and"] = ("{a} & {b}", lambda a, b, t: a & b)
    ops["or"] = ("{a} | {b}", lambda a, b, t: a | b)
    ops["xor"] = ("{a} ^ {b}", lambda a, b, t: a ^ b)
    for name, sym, f in [("eq", "==", lambda a, b: a == b), ("ne", "!=", lambda a, b: a != b), ("lt", "<", lambda a, b: a < b),
                         ("le", "<=", lambda a, b: a <= b), ("gt", ">", lambda a, b: a > b), ("ge", ">=", lambda a, b: a >= b)]:
        ops[name] = ("{a} %s {b}" % sym, (lambda f: lambda a, b, t: f(a, b))(f))
    ops["wrapping_add"] = ("({a}).wrapping_add({b})", lambda a, b, t: wrap(a + b, t))
    ops["wrapping_sub"] = ("({a}).wrapping_sub({b})", lambda a, b, t: wrap(a - b, t))
    ops["wrapping_mul"] = ("({a}).wrapping_mul({b})", lambda a, b, t: wrap(a * b, t))

    def ov(f):
        def g(a, b, t):
            lo, hi = rng(t)
            v = f(a, b)
            return (wrap(v, t), not (lo <= v <= hi))
        return g
    ops["overflowing_add"] = ("({a}).overflowing_add({b})", ov(lambda a, b: a + b))
    ops["overflowing_sub"] = ("({a}).overflowing_sub({b})", ov(lambda a, b: a - b))
    ops["overflowing_mul"] = ("({a}).overflowing_mul({b})", ov(lambda a, b: a * b))
    ops["min"] = ("{T}::min({a}, {b})", lambda a, b, t: min(a, b))
    ops["max"] = ("{T}::max({a}, {b})", lambda a, b, t: max(a, b))
    return ops


def int_shiftops():
    # right operand is always Int32
    def shl(a, n, t):
        return wrap(a << shift_amount(n, t), t)

    def sar(a, n, t):
        return a >> shift_amount(n, t)

    def shr(a, n, t):
        return wrap((a & ((1 << BITS[t]) - 1)) >> shift_amount(n, t), t)

    return {"shl": ("{a} << {b}", shl), "sar": ("{a} >> {b}", sar), "shr": ("{a} >>> {b}", shr)}


def int_unops():
    def neg(a, t):
        return checked(-a, t)

    def absv(a, t):
        lo, _ = rng(t)
        return a if a == lo else abs(a)

    def f32bits(a, t):
        return signed(int_to_float_bits(a, 23, 8), 32)

    def f64bits(a, t):
        return signed(int_to_float_bits(a, 52, 11), 64)

    ops = {
        "neg": ("-({a})", neg),
        "not": ("!({a})", lambda a, t: ~a),
        "abs": ("({a}).abs()", absv),
        "wrapping_neg": ("({a}).wrapping_neg()", lambda a, t: wrap(-a, t)),
        "overflowing_neg": ("({a}).overflowing_neg()", lambda a, t: (wrap(-a, t), a == rng(t)[0])),
        "count_zero_bits": ("({a}).count_zero_bits()", lambda a, t: BITS[t] - popcount(a, t)),
        "count_one_bits": ("({a}).count_one_bits()", popcount),
        "clz": ("({a}).count_zero_bits_leading()", clz),
        "clo": ("({a}).count_one_bits_leading()", lambda a, t: clz(~a, t)),
        "ctz": ("({a}).count_zero_bits_trailing()", ctz),
        "cto": ("({a}).count_one_bits_trailing()", lambda a, t: ctz(~a, t)),
        "to_uint8": ("({a}).to_uint8().to_int32()", lambda a, t: a & 0xff),
        "to_float32_bits": ("({a}).to_float32().as_int32()", f32bits),
        "to_float64_bits": ("({a}).to_float64().as_int64()", f64bits),
        "hex": ("({a}).to_string_hex()", lambda a, t: "%X" % (a & ((1 << BITS[t]) - 1))),
        "binary": ("({a}).to_string_binary()", lambda a, t: bin(a & ((1 << BITS[t]) - 1))[2:]),
        "to_string": ("({a}).to_string()", lambda a, t: a),
    }
    return ops


def fmt(v):
    if isinstance(v, bool):
        return "true" if v else "false"
    if isinstance(v, tuple):
        return "(" + ", ".join(fmt(x) for x in v) + ")"
    return str(v)


def tuple_print(expr, n):
    return " ".join("${(%s).%d}" % (expr, i) for i in range(n))


def make_case(name, expr, f, args, t, is_tuple=False):
    try:
        v = f(*args, t)
        if is_tuple:
            out = [" ".join(fmt(x) for x in v)]
            body = "  let r = %s;\n  println(\"${r.0} ${r.1}\");" % expr
        else:
            out = [fmt(v)]
            body = "  let r = %s;\n  println(\"${r}\");" % expr
        end = 0
    except Trap as tr:
        out = []
        end = tr.code
        body = ("  let r = %s;\n  println(\"${r.0} ${r.1}\");" if is_tuple else "  let r = %s;\n  println(\"${r}\");") % expr
    return Case("arith", name, body, expect_out=out, expect_end=end, meta={"args": args, "type": t})


MODES = ["cc", "vc", "cv", "vv"]


def operand(v, t, is_var):
    return var_expr(v, t) if is_var else const_expr(v, t)


def cases(quick=True):
    out = []
    for t in ("Int32", "Int64"):
        vals = bv(t, quick)
        modes = ["vv"] if quick else MODES
        for name, (tmpl, f) in int_binops().items():
            is_tuple = name.startswith("overflowing")
            for a in vals:
                for b in vals:
                    for m in modes:
                        ea, eb = operand(a, t, m[0] == "v"), operand(b, t, m[1] == "v")
                        expr = tmpl.replace("{a}", "(" + ea + ")").replace("{b}", "(" + eb + ")").replace("{T}", t)
                        out.append(make_case("%s.%s(%d,%d).%s" % (t, name, a, b, m), expr, f, (a, b), t, is_tuple))
        amounts = [0, 1, 31, 32, 63, 64, -1] if quick else [0, 1, 2, 7, 15, 16, 30, 31, 32, 33, 62, 63, 64, 65, 127, 128, -1, -32, -64, 2147483647, -2147483648]
        for name, (tmpl, f) in int_shiftops().items():
            for a in vals:
                for n in amounts:
                    for m in modes:
                        ea, eb = operand(a, t, m[0] == "v"), operand(n, "Int32", m[1] == "v")
                        expr = tmpl.replace("{a}", "(" + ea + ")").replace("{b}", "(" + eb + ")")
                        out.append(make_case("%s.%s(%d,%d).%s" % (t, name, a, n, m), expr, f, (a, n), t))
        for name, (tmpl, f) in int_unops().items():
            is_tuple = name.startswith("overflowing")
            for a in vals:
                for m in (["c", "v"]):
                    expr = tmpl.replace("{a}", operand(a, t, m == "v"))
                    out.append(make_case("%s.%s(%d).%s" % (t, name, a, m), expr, f, (a,), t, is_tuple))
        # conversions between the integer types
        for a in vals:
            for m in ("c", "v"):
                ea = operand(a, t, m == "v")
                if t == "Int32":
                    out.append(make_case("Int32.to_int64(%d).%s" % (a, m), "(%s).to_int64()" % ea, lambda a, t: a, (a,), t))
                else:
                    out.append(make_case("Int64.to_int32(%d).%s" % (a, m), "(%s).to_int32()" % ea, lambda a, t: wrap(a, "Int32"), (a,), t))
    out += float_cases(quick)
    return out


# ------------------------------------------------------------------------------------------- floats

def f32(x):
    return struct.unpack("<f", struct.pack("<f", x))[0]


def f32_bits(x):
    return signed(struct.unpack("<I", struct.pack("<f", x))[0], 32)


def f64_bits(x):
    return signed(struct.unpack("<Q", struct.pack("<d", x))[0], 64)


def float_lit(x, t):
    # positional notation only (there is no exponent syntax)
    suf = "f32" if t == "Float32" else "f64"
    if x != x:
        return "%s::not_a_number()" % t
    if x == float("inf"):
        return "%s::infinity_positive()" % t
    if x == float("-inf"):
        return "%s::infinity_negative()" % t
    s = "%.60f" % abs(x)
    s = s.rstrip("0")
    if s.endswith("."):
        s += "0"
    return ("-" if str(x).startswith("-") else "") + s + suf


def float_cases(quick):
    out = []
    base = [0.0, -0.0, 1.0, -1.0, 0.5, 1.5, 2.0, 3.0, 0.1, 16777216.0, 16777217.0, 1e10, -2.5, 100.25]
    if not quick:
        base += [9007199254740992.0, 9007199254740993.0, 0.3, 1e-3, 123456.789, -0.75, 2147483648.0, 4294967296.0, 1e15]
    special = [float("inf"), float("-inf"), float("nan")]
    for t, rnd, bits in (("Float32", f32, f32_bits), ("Float64", lambda x: x, f64_bits)):
        vals = []
        for v in base:
            r = rnd(v)
            if r not in vals or (r == 0 and str(r) not in [str(x) for x in vals]):
                vals.append(r)
        conv = "as_int32" if t == "Float32" else "as_int64"

        def arith(op):
            def g(a, b):
                try:
                    if op == "+":
                        v = a + b
                    elif op == "-":
                        v = a - b
                    elif op == "*":
                        v = a * b
                    else:
                        if b == 0:
                            if a == 0 or a != a:
                                v = float("nan")
                            else:
                                neg = (str(a).startswith("-")) != (str(b).startswith("-"))
                                v = float("-inf") if neg else float("inf")
                        else:
                            v = a / b
                except OverflowError:
                    v = float("inf")
                return rnd(v)
            return g
        allv = vals + special
        for opname, sym in (("add", "+"), ("sub", "-"), ("mul", "*"), ("div", "/")):
            f = arith(sym)
            for a in allv:
                for b in allv:
                    v = f(a, b)
                    if v != v:
                        # NaN payload/sign is not specified: observe only that it is NaN
                        expr = "(%s %s %s).is_nan()" % (float_lit(a, t), sym, float_lit(b, t))
                        exp = "true"
                    else:
                        if t == "Float32" and (abs(v) > 3.4028234663852886e38):
                            v = float("inf") if v > 0 else float("-inf")
                        expr = "(%s %s %s).%s()" % (float_lit(a, t), sym, float_lit(b, t), conv)
                        exp = str(bits(v))
                    out.append(Case("arith", "%s.%s(%r,%r)" % (t, opname, a, b), "  let r = %s;\n  println(\"${r}\");" % expr,
                                    expect_out=[exp], expect_end=0))
        for opname, sym, f in (("eq", "==", lambda a, b: a == b), ("ne", "!=", lambda a, b: a != b), ("lt", "<", lambda a, b: a < b),
                               ("le", "<=", lambda a, b: a <= b), ("gt", ">", lambda a, b: a > b), ("ge", ">=", lambda a, b: a >= b)):
            for a in allv:
                for b in allv:
                    expr = "%s %s %s" % (float_lit(a, t), sym, float_lit(b, t))
                    out.append(Case("arith", "%s.%s(%r,%r)" % (t, opname, a, b), "  let r = %s;\n  println(\"${r}\");" % expr,
                                    expect_out=[fmt(f(a, b))], expect_end=0))
        # unary: neg, abs, bits, conversions of in-range values to integers (truncation toward zero)
        for a in vals:
            out.append(Case("arith", "%s.neg(%r)" % (t, a), "  let r = (-(%s)).%s();\n  println(\"${r}\");" % (float_lit(a, t), conv),
                            expect_out=[str(bits(-a))], expect_end=0))
            out.append(Case("arith", "%s.abs(%r)" % (t, a), "  let r = (%s).abs().%s();\n  println(\"${r}\");" % (float_lit(a, t), conv),
                            expect_out=[str(bits(abs(a)))], expect_end=0))
            out.append(Case("arith", "%s.bits(%r)" % (t, a), "  let r = (%s).%s();\n  println(\"${r}\");" % (float_lit(a, t), conv),
                            expect_out=[str(bits(a))], expect_end=0))
            if abs(a) < 2147483000:
                out.append(Case("arith", "%s.to_int32(%r)" % (t, a), "  let r = (%s).to_int32();\n  println(\"${r}\");" % float_lit(a, t),
                                expect_out=[str(int(a))], expect_end=0))
            if abs(a) < 9.2e18:
                out.append(Case("arith", "%s.to_int64(%r)" % (t, a), "  let r = (%s).to_int64();\n  println(\"${r}\");" % float_lit(a, t),
                                expect_out=[str(int(a))], expect_end=0))
            if a >= 0:
                import math
                s = rnd(math.sqrt(a))
                out.append(Case("arith", "%s.sqrt(%r)" % (t, a), "  let r = (%s).sqrt().%s();\n  println(\"${r}\");" % (float_lit(a, t), conv),
                                expect_out=[str(bits(s))], expect_end=0))
        if t == "Float32":
            for a in vals:
                out.append(Case("arith", "Float32.to_float64(%r)" % a, "  let r = (%s).to_float64().as_int64();\n  println(\"${r}\");" % float_lit(a, t),
                                expect_out=[str(f64_bits(a))], expect_end=0))
        else:
            for a in vals:
                out.append(Case("arith", "Float64.to_float32(%r)" % a, "  let r = (%s).to_float32().as_int32();\n  println(\"${r}\");" % float_lit(a, t),
                                expect_out=[str(f32_bits(f32(a)))], expect_end=0))
    return out
