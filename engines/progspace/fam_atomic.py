"""Family `atomic`: every sequence of up to two operations of AtomicInt32 / AtomicInt64 (get, set, exchange,
compare_exchange, fetch_add) over boundary operands and initial values, single-threaded, against a Python
reference (an atomic cell is a cell; fetch_add wraps).  The value held in a local and in an array element (the
two addressing shapes the intrinsics are emitted for)."""
import itertools
from core import Case

VALS = {
    "Int32": [0, 1, -1, 7, 2 ** 31 - 1, -2 ** 31, 0x7fff0001, -65536],
    "Int64": [0, 1, -1, 7, 2 ** 31, 2 ** 32, 2 ** 32 + 5, -2 ** 32 - 5, 2 ** 63 - 1, -2 ** 63, 0x123456789abcdef0],
}
QUICK = {"Int32": [0, -1, 2 ** 31 - 1, -2 ** 31], "Int64": [1, -1, 2 ** 32 + 5, -2 ** 63, 0x123456789abcdef0]}


def lit(t, v):
    if t == "Int32":
        return "(%di32)" % v if v >= 0 else ("(-2147483647i32 - 1i32)" if v == -2 ** 31 else "(%di32)" % v)
    if v == -2 ** 63:
        return "(-9223372036854775807 - 1)"
    return "(%d)" % v


def wrap(t, v):
    bits = 32 if t == "Int32" else 64
    v &= (1 << bits) - 1
    return v - (1 << bits) if v >> (bits - 1) else v


def ops_for(t, vals):
    ops = [("get",)]
    for v in vals:
        ops += [("set", v), ("exchange", v), ("fetch_add", v)]
    for e, v in itertools.product(vals[:3], vals[-2:]):
        ops.append(("cas", e, v))
    return ops


def apply(t, cell, op, recv, log):
    k = op[0]
    if k == "get":
        log.append("g %d" % cell[0])
        return 'println("g ${%s.get()}");' % recv
    if k == "set":
        cell[0] = op[1]
        return "%s.set(%s);" % (recv, lit(t, op[1]))
    if k == "exchange":
        log.append("x %d" % cell[0])
        cell[0] = op[1]
        return 'println("x ${%s.exchange(%s)}");' % (recv, lit(t, op[1]))
    if k == "fetch_add":
        log.append("a %d" % cell[0])
        cell[0] = wrap(t, cell[0] + op[1])
        return 'println("a ${%s.fetch_add(%s)}");' % (recv, lit(t, op[1]))
    if k == "cas":
        log.append("c %d" % cell[0])
        if cell[0] == op[1]:
            cell[0] = op[2]
        return 'println("c ${%s.compare_exchange(%s, %s)}");' % (recv, lit(t, op[1]), lit(t, op[2]))
    raise ValueError(k)


def cases(quick=True):
    out = []
    for t in ("Int32", "Int64"):
        vals = QUICK[t] if quick else VALS[t]
        ops = ops_for(t, vals)
        seqs = [(o,) for o in ops] + ([] if quick else list(itertools.product(ops, ops)))
        if quick:
            seqs += [(a, b) for a in ops[1::3] for b in ops[2::4]]
        for init in vals:
            for seq in seqs:
                for place in ("local", "field"):
                    log = []
                    cell = [init]
                    if place == "local":
                        recv = "v"
                        body = ["  let mut v = std::Atomic%s::new(%s);" % (t, lit(t, init))]
                    else:
                        recv = "h.a"
                        body = ["  let h = AtomHolder%s(pad = 5, a = std::Atomic%s::new(%s), tail = 9);" % (t, t, lit(t, init))]
                    for o in seq:
                        body.append("  " + apply(t, cell, o, recv, log))
                    log.append("f %d" % cell[0])
                    body.append('  println("f ${%s.get()}");' % recv)
                    if place == "field":
                        log.append("p 5 9")
                        body.append('  println("p ${h.pad} ${h.tail}");')
                    name = "atomic(%s,%s,%s,%s)" % (t, init, place, ";".join("%s%s" % (o[0], list(o[1:])) for o in seq))
                    out.append(Case("atomic", name, "\n".join(body), expect_out=log, expect_end=0,
                                    prelude="class AtomHolderInt32 { pad: Int32, a: std::AtomicInt32, tail: Int32 }\n"
                                            "class AtomHolderInt64 { pad: Int64, a: std::AtomicInt64, tail: Int64 }\n"))
    return out
