"""The repository's runnable corpus (test/rt) with its `//=` directives (tools/pytester semantics)."""
import os
import re
import shlex

REPO = "/repo"
RT = os.path.join(REPO, "test", "rt")
ERR_CODE = {"div0": 101, "assert": 102, "array": 103, "nil": 104, "cast": 105, "oom": 106, "stack-overflow": 107,
            "illegal": 108, "overflow": 109, "shift": 110, "fail": 1}

# results legitimately depending on time, interleaving, stack depth or heap size (excluded by the property)
NONDET = re.compile(r"\b(timestamp|sleep|std::rand|Random|thread::spawn|std::thread|AtomicInt|Mutex|Condition|take_heap_snapshot)\b")


class Entry:
    def __init__(self, path):
        self.path = path                  # file with the directives
        self.rel = os.path.relpath(path, REPO)
        self.src = path                   # file to compile
        self.ignore = False
        self.flaky = False
        self.args = []
        self.compile_args = []
        self.runtime_args = []
        self.expect_fail = False
        self.expect_code = None
        self.only_config = None
        self.timeout = 60
        self.stdout = None
        self.nondet = False


def read_entry(path):
    e = Entry(path)
    text = open(path, encoding="utf-8", errors="replace").read()
    for line in text.splitlines():
        line = line.strip()
        if not line.startswith("//="):
            continue
        try:
            a = shlex.split(line[3:].strip())
        except ValueError:
            a = line[3:].split()
        if not a:
            continue
        k = a[0]
        if k == "error":
            e.expect_fail = True
            if len(a) > 1:
                if a[1] == "code":
                    e.expect_code = int(a[2])
                else:
                    e.expect_code = ERR_CODE.get(a[1])
        elif k == "platform":
            expr = a[1] if len(a) > 1 else ""
            if "linux" not in expr and "x64" not in expr and "unix" not in expr:
                e.ignore = True
            if expr.startswith("!") or "windows" in expr or "macos" in expr or "arm64" in expr:
                e.ignore = True
        elif k == "file":
            e.src = os.path.join(REPO, a[1])
        elif k == "ignore":
            e.ignore = True
        elif k == "args":
            e.args += [x for x in a[1:]]
        elif k == "compile-args":
            e.compile_args += shlex.split(" ".join(a[1:]))
        elif k == "runtime-args":
            e.runtime_args += shlex.split(" ".join(a[1:]))
        elif k == "boots":
            e.only_config = "boots"
        elif k == "config":
            e.only_config = a[1]
        elif k == "timeout":
            e.timeout = int(a[1])
        elif k == "flaky":
            e.flaky = True
    so = os.path.splitext(path)[0] + ".stdout"
    if os.path.exists(so):
        e.stdout = open(so, encoding="utf-8", errors="replace").read()
    body = text if e.src == path else open(e.src, encoding="utf-8", errors="replace").read()
    e.nondet = bool(NONDET.search(body)) or "/thread/" in e.rel or "/io/" in e.rel or "-mt" in e.rel
    e.text = body
    return e


def entries():
    out = []
    for root, dirs, files in os.walk(RT):
        dirs.sort()
        for f in sorted(files):
            if f.endswith(".dora"):
                out.append(read_entry(os.path.join(root, f)))
    return out
