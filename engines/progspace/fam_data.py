"""Family `data`: value semantics of structs / tuples / enums versus reference identity of classes,
arrays, vectors, lambdas and trait objects: every operation sequence up to a bound over two
variables `a`, `b` and a container slot, against a Python object model (BFS over model states)."""
import copy
import itertools
from core import Case

PRELUDE_DATA = """
struct DS { x: Int64, y: Int64 }
impl DS { mutating fn set(k: Int64) { self.x = k; } fn get(): Int64 { self.x } }
struct DN { s: DS, z: Int64 }
enum DE { A(Int64), B }
class DC { x: Int64, y: Int64 }
impl DC { fn set(k: Int64) { self.x = k; } fn get(): Int64 { self.x } }
class DCS { s: DS }
trait DT { fn tset(k: Int64); fn tget(): Int64; }
impl DT for DC { fn tset(k: Int64) { self.x = k; } fn tget(): Int64 { self.x } }
fn de_val(e: DE): Int64 { match e { DE::A(v) => v, DE::B => -1 } }
fn mut_ds(p: DS, k: Int64): Int64 { let mut q = p; q.x = k; q.x }
fn mut_dc(p: DC, k: Int64): Int64 { p.x = k; p.x }
fn mut_arr(p: Array[Int64], k: Int64): Int64 { p(0) = k; p(0) }
fn mut_vec(p: Vec[Int64], k: Int64): Int64 { p(0) = k; p(0) }
fn mut_dcs(p: DCS, k: Int64): Int64 { p.s.x = k; p.s.x }
fn mut_dt(p: DT, k: Int64): Int64 { p.tset(k); p.tget() }
"""

# carrier description: kind value/ref, type, init expr (payload v), read expr of var, mutate stmt of var,
# callee (mutating function), whether identity (===) is available
CARRIERS = {
    "struct": dict(kind="val", ty="DS", init="DS(x = {v}, y = 0)", read="{a}.x", mut="{a}.x = {k};", callee="mut_ds", method="{a}.set({k});"),
    "nested": dict(kind="val", ty="DN", init="DN(s = DS(x = {v}, y = 0), z = 0)", read="{a}.s.x", mut="{a}.s.x = {k};", callee=None, method="{a}.s.set({k});"),
    "tuple": dict(kind="val", ty="(Int64, Int64)", init="({v}, 0)", read="{a}.0", mut="{a} = ({k}, {a}.1);", callee=None, method=None),
    "enum": dict(kind="val", ty="DE", init="DE::A({v})", read="de_val({a})", mut="{a} = DE::A({k});", callee=None, method=None),
    "class": dict(kind="ref", ty="DC", init="DC(x = {v}, y = 0)", read="{a}.x", mut="{a}.x = {k};", callee="mut_dc", method="{a}.set({k});", ident=True),
    "array": dict(kind="ref", ty="Array[Int64]", init="Array[Int64]::new({v}, 0)", read="{a}(0)", mut="{a}(0) = {k};", callee="mut_arr", method=None, ident=True),
    "vec": dict(kind="ref", ty="Vec[Int64]", init="Vec[Int64]::new({v}, 0)", read="{a}(0)", mut="{a}(0) = {k};", callee="mut_vec", method=None, ident=True),
    "class_struct": dict(kind="ref", ty="DCS", init="DCS(s = DS(x = {v}, y = 0))", read="{a}.s.x", mut="{a}.s.x = {k};", callee="mut_dcs", method="{a}.s.set({k});", ident=True),
    "trait_obj": dict(kind="ref", ty="DT", init="DC(x = {v}, y = 0) as DT", read="{a}.tget()", mut="{a}.tset({k});", callee="mut_dt", method=None),
}

OPS = ["b=a", "mut_a", "mut_b", "call_a", "method_b", "store_a", "load_b", "mut_slot", "reassign_a"]


class Cell:
    """a mutable box standing for one object / one value"""
    def __init__(self, v):
        self.v = v


def applicable(car, op):
    c = CARRIERS[car]
    if op == "call_a":
        return c["callee"] is not None
    if op == "method_b":
        return c["method"] is not None
    return True


def step(car, st, op, k):
    """st: dict a, b, slot -> Cell ; returns source line(s), mutates model"""
    c = CARRIERS[car]
    isref = c["kind"] == "ref"

    def assign(dst, src):
        st[dst] = st[src] if isref else Cell(st[src].v)
    if op == "b=a":
        assign("b", "a")
        return "b = a;"
    if op == "mut_a":
        st["a"].v = k
        return c["mut"].format(a="a", k=k)
    if op == "mut_b":
        st["b"].v = k
        return c["mut"].format(a="b", k=k)
    if op == "call_a":
        if isref:
            st["a"].v = k
        return "println(\"r ${%s(a, %d)}\");" % (c["callee"], k), ["r %d" % k]
    if op == "method_b":
        st["b"].v = k
        return c["method"].format(a="b", k=k)
    if op == "store_a":
        assign("slot", "a")
        return "slot(0) = a;"
    if op == "load_b":
        assign("b", "slot")
        return "b = slot(0);"
    if op == "mut_slot":
        if isref:
            st["slot"].v = k
            return c["mut"].format(a="slot(0)", k=k)
        # element of value type inside an array: replace the element
        st["slot"] = Cell(k)
        return "slot(0) = %s;" % c["init"].format(v=k)
    if op == "reassign_a":
        st["a"] = Cell(k)
        return "a = %s;" % c["init"].format(v=k)
    raise Exception(op)


def cases(quick=True):
    out = []
    maxlen = 3 if quick else 4
    for car, c in CARRIERS.items():
        ops = [o for o in OPS if applicable(car, o)]
        for n in range(1, maxlen + 1):
            for seq in itertools.product(ops, repeat=n):
                # prune: sequences without any mutation only restate the initial state
                if not any(o.startswith("mut") or o in ("call_a", "method_b", "reassign_a") for o in seq):
                    continue
                if quick and n == maxlen and seq[0] not in ("b=a", "store_a"):
                    continue
                st = {"a": Cell(1)}
                st["b"] = st["a"] if c["kind"] == "ref" else Cell(1)
                st["slot"] = Cell(5)
                lines = ["let mut a = %s;" % c["init"].format(v=1),
                         "let mut b = a;",
                         "let slot = Array[%s]::new(%s);" % (c["ty"], c["init"].format(v=5))]
                log = []
                for i, op in enumerate(seq):
                    r = step(car, st, op, 10 + i)
                    if isinstance(r, tuple):
                        lines.append(r[0])
                        log += r[1]
                    else:
                        lines.append(r)
                reads = [c["read"].format(a=v) for v in ("a", "b", "slot(0)")]
                lines.append("println(\"= ${%s} ${%s} ${%s}\");" % tuple(reads))
                log.append("= %d %d %d" % (st["a"].v, st["b"].v, st["slot"].v))
                if c.get("ident"):
                    lines.append("println(\"i ${a === b} ${a === slot(0)} ${b === slot(0)}\");")
                    f = lambda x: "true" if x else "false"
                    log.append("i %s %s %s" % (f(st["a"] is st["b"]), f(st["a"] is st["slot"]), f(st["b"] is st["slot"])))
                body = "\n".join("  " + l for l in lines)
                out.append(Case("data", "data:%s:%s" % (car, ",".join(seq)), body, expect_out=log, expect_end=0, prelude=PRELUDE_DATA))
    out += lambda_cases()
    return out


def lambda_cases():
    """closures capturing mutable locals / objects"""
    progs = [
        ("counter", "let mut n = 0; let inc = ||: Int64 { n = n + 1; n }; let r1 = inc(); let r2 = inc(); println(\"= ${r1} ${r2} ${n}\");", ["= 1 2 2"]),
        ("capture_obj", "let c = DC(x = 1, y = 0); let f = |k: Int64| { c.x = k; }; f(7); println(\"= ${c.x}\");", ["= 7"]),
        ("capture_struct_copy", "let mut s = DS(x = 1, y = 0); let f = ||: Int64 { s.x }; s.x = 9; println(\"= ${f()} ${s.x}\");", ["= 9 9"]),
        ("two_lambdas_share", "let mut n = 0; let a = || { n = n + 10; }; let b = ||: Int64 { n }; a(); a(); println(\"= ${b()}\");", ["= 20"]),
        ("lambda_in_array", "let mut n = 1; let fs = Array[(): Int64]::new(||: Int64 { n }, ||: Int64 { n * 2 }); n = 5; println(\"= ${fs(0)()} ${fs(1)()}\");", ["= 5 10"]),
        ("lambda_identity", "let f = ||: Int64 { 1 }; let g = f; println(\"= ${f === g}\");", ["= true"]),
    ]
    return [Case("data", "data:lambda:" + n, "  " + src, expect_out=exp, expect_end=0, prelude=PRELUDE_DATA) for n, src, exp in progs]
