"""Family `coll`: every operation sequence up to a bound over Vec[Int64] / Array[Int64] / Option /
String with in-range and out-of-range arguments, against Python lists (incl. which trap ends the run)."""
import itertools
from core import Case


class End(Exception):
    def __init__(self, code, msg=None):
        self.code = code
        self.msg = msg


IDX = [-1, 0, 1, 2, 5]


def vec_ops(quick):
    ops = [("push", 7), ("push", 8), ("pop",), ("size",), ("clear",), ("first",), ("last",)]
    for i in IDX if not quick else [-1, 0, 2]:
        ops += [("get", i), ("set", i, 9), ("insert_at", i, 6), ("remove_at", i)]
    return ops


def vec_apply(v, op, log):
    k = op[0]
    if k == "push":
        v.append(op[1])
        return "v.push(%d);" % op[1]
    if k == "pop":
        r = v.pop() if v else None
        log.append("p %s" % ("none" if r is None else r))
        return "match v.pop() { Some(x) => println(\"p ${x}\"), None => println(\"p none\") }"
    if k == "size":
        log.append("s %d" % len(v))
        return "println(\"s ${v.size()}\");"
    if k == "clear":
        del v[:]
        return "v.clear();"
    if k in ("first", "last"):
        r = (v[0] if k == "first" else v[-1]) if v else None
        log.append("f %s" % ("none" if r is None else r))
        return "match v.%s() { Some(x) => println(\"f ${x}\"), None => println(\"f none\") }" % k
    if k == "get":
        i = op[1]
        src = "println(\"g ${v(%d)}\");" % i
        if i < 0 or i >= len(v):
            raise End(1, src)
        log.append("g %d" % v[i])
        return src
    if k == "set":
        i = op[1]
        src = "v(%d) = %d;" % (i, op[2])
        if i < 0 or i >= len(v):
            raise End(1, src)
        v[i] = op[2]
        return src
    if k == "insert_at":
        i = op[1]
        src = "v.insert_at(%d, %d);" % (i, op[2])
        if i > len(v):
            raise End(102, src)
        if i < 0:
            raise End(103, src)  # runs into the backing array's bounds check
        v.insert(i, op[2])
        return src
    if k == "remove_at":
        i = op[1]
        src = "println(\"r ${v.remove_at(%d)}\");" % i
        if i >= len(v):
            raise End(102, src)
        if i < 0:
            raise End(1, src)
        log.append("r %d" % v.pop(i))
        return src
    raise Exception(k)


def arr_ops(quick):
    ops = [("size",), ("sum",)]
    for i in IDX if not quick else [-1, 0, 2, 3]:
        ops += [("get", i), ("set", i, 9)]
    return ops


def arr_apply(a, op, log):
    k = op[0]
    if k == "size":
        log.append("s %d" % len(a))
        return "println(\"s ${a.size()}\");"
    if k == "sum":
        log.append("t %d" % sum(a))
        return "let mut t = 0; for e in a { t = t + e; } println(\"t ${t}\");"
    if k == "get":
        i = op[1]
        src = "println(\"g ${a(%d)}\");" % i
        if i < 0 or i >= len(a):
            raise End(103, src)
        log.append("g %d" % a[i])
        return src
    if k == "set":
        i = op[1]
        src = "a(%d) = %d;" % (i, op[2])
        if i < 0 or i >= len(a):
            raise End(103, src)
        a[i] = op[2]
        return src
    raise Exception(k)


def cases(quick=True):
    out = []
    maxlen = 2 if quick else 4
    # Vec
    for init in ([], [1], [1, 2, 3]):
        ops = vec_ops(quick)
        for n in range(1, maxlen + 1):
            seqs = itertools.product(ops, repeat=n)
            for seq in seqs:
                if quick and n == maxlen and not (seq[0][0] in ("push", "pop", "remove_at", "insert_at") and seq[1][0] in ("push", "pop", "remove_at", "insert_at", "clear")):
                    continue
                if not quick and n == maxlen and not (seq[0][0] in ("push", "pop", "remove_at", "insert_at", "clear")):
                    continue
                v = list(init)
                log = []
                lines = ["let v = Vec[Int64]::new(%s);" % ", ".join(str(x) for x in init)]
                end = 0
                early = False
                for j, op in enumerate(seq):
                    try:
                        lines.append(vec_apply(v, op, log))
                    except End as e:
                        lines.append(e.msg)
                        end = e.code
                        early = j < len(seq) - 1
                        break
                if early:
                    continue  # identical to the shorter sequence that ends in this trap
                if end == 0:
                    lines.append("println(\"= ${v.size()} ${v.to_array()}\");")
                    log.append("= %d Array(%s)" % (len(v), ", ".join(str(x) for x in v)))
                name = "coll:vec%d:%s" % (len(init), ";".join("_".join(str(x) for x in op) for op in seq))
                out.append(Case("coll", name, "\n".join("  " + l for l in lines), expect_out=log, expect_end=end))
    # Array
    for init in ([], [4], [4, 5, 6]):
        ops = arr_ops(quick)
        for n in range(1, min(maxlen, 3) + 1):
            for seq in itertools.product(ops, repeat=n):
                a = list(init)
                log = []
                lines = ["let a = Array[Int64]::new(%s);" % ", ".join(str(x) for x in init)]
                end = 0
                early = False
                for j, op in enumerate(seq):
                    try:
                        lines.append(arr_apply(a, op, log))
                    except End as e:
                        lines.append(e.msg)
                        end = e.code
                        early = j < len(seq) - 1
                        break
                if early:
                    continue
                if end == 0:
                    lines.append("println(\"= ${a}\");")
                    log.append("= Array(%s)" % ", ".join(str(x) for x in a))
                name = "coll:arr%d:%s" % (len(init), ";".join("_".join(str(x) for x in op) for op in seq))
                out.append(Case("coll", name, "\n".join("  " + l for l in lines), expect_out=log, expect_end=end))
    # Option and String probes with boundary arguments
    extra = [
        ("opt_some", "let o = Some[Int64](3); println(\"= ${o.is_some()} ${o.is_none()} ${o.get_or_panic()} ${o.unwrap_or(9)}\");", ["= true false 3 3"], 0),
        ("opt_none", "let o = None[Int64]; println(\"= ${o.is_some()} ${o.unwrap_or(9)}\"); println(\"${o.get_or_panic()}\");", ["= false 9"], 1),
        ("str_ops", "let s = \"hällo\"; println(\"= ${s.size()} ${s.get_byte(0).to_int32()} ${s.starts_with(\"h\")} ${s.contains(\"llo\")} ${s.is_empty()}\");", ["= 6 104 true true false"], 0),
        ("str_parse", "println(\"= ${\"12\".to_int32().get_or_panic()} ${\"x\".to_int64().is_none()} ${\"-9223372036854775808\".to_int64().get_or_panic()} ${\"9223372036854775808\".to_int64().is_none()}\");", ["= 12 true -9223372036854775808 true"], 0),
        ("arr_fill", "let a = Array[Int32]::fill(3, 7i32); println(\"= ${a.size()} ${a(2)}\");", ["= 3 7"], 0),
        ("arr_zero_len0", "let a = Array[Int64]::zero(0); println(\"= ${a.size()}\"); println(\"${a(0)}\");", ["= 0"], 103),
    ]
    for n, src, exp, end in extra:
        out.append(Case("coll", "coll:" + n, "  " + src, expect_out=exp, expect_end=end))
    return out
