"""Single-fault mutants for C05: every program below is derived from a well-typed generator program by
breaking exactly one static rule of a known class at one position; all positions are enumerated."""
import itertools
import re

import fam_order
import fam_ctrl
import fam_compose
import fam_data

MAIN = "fn main() {\n%s\n}\n"


def order_programs(quick):
    """(well-typed program, [(class, mutant program, what)])"""
    out = []
    vals = [1, 2]
    maxops = 2
    seen = set()
    for n in range(1, maxops + 1):
        for shape in fam_order.shapes(n):
            k = fam_order.nleaves(shape)
            a = tuple([1] * k)
            node = fam_order.build(shape, iter(a), itertools.count(1))
            src = node.emit()
            if src in seen:
                continue
            seen.add(src)
            good = fam_order.PRELUDE + MAIN % ("  let r = %s;\n  println(\"= ${r}\");" % src)
            muts = []
            # (1) type mismatch at every leaf whose context fixes the type
            for m in re.finditer(r"\bt\((\d+), (-?\d+)\)", src):
                # an Int64 tracer inside a tuple literal does not constrain the type: skip those positions
                if in_tuple_literal(src, m.start()):
                    continue
                # `(leaf).to_int32()` (shift amount): Bool and Int64 both have to_int32()
                if src[m.end():m.end() + 12].startswith(").to_int32()") and src[m.start() - 1] == "(":
                    continue
                bad = src[:m.start()] + "tb(%s, true)" % m.group(1) + src[m.end():]
                muts.append(("type_mismatch", bad, "Int64 leaf #%s replaced by a Bool" % m.group(1)))
                bad2 = src[:m.start()] + "\"s\"" + src[m.end():]
                muts.append(("type_mismatch", bad2, "Int64 leaf #%s replaced by a String" % m.group(1)))
            for m in re.finditer(r"\btb\((\d+), (true|false)\)", src):
                bad = src[:m.start()] + "t(%s, 1)" % m.group(1) + src[m.end():]
                muts.append(("type_mismatch", bad, "Bool leaf #%s replaced by an Int64" % m.group(1)))
            # (2) argument count +-1 at every call
            for m in re.finditer(r"\bf2\(", src):
                close = matching_paren(src, m.end() - 1)
                args = src[m.end():close]
                parts = split_top(args)
                muts.append(("arg_count", src[:m.end()] + parts[0] + src[close:], "f2 called with 1 argument"))
                muts.append(("arg_count", src[:m.end()] + args + ", 1" + src[close:], "f2 called with 3 arguments"))
            for m in re.finditer(r"\.add\(", src):
                close = matching_paren(src, m.end() - 1)
                muts.append(("arg_count", src[:m.end()] + src[close:], "add called without argument"))
            # (3) unknown name at every identifier use
            for m in re.finditer(r"\b(t|tb|f2|arr3|mk)\(", src):
                muts.append(("unknown_name", src[:m.start()] + "zz_" + src[m.start():], "unknown function zz_%s" % m.group(1)))
            for m in re.finditer(r"\)\.(x|y)\b", src):
                muts.append(("unknown_name", src[:m.start()] + ").q" + src[m.end():], "unknown field q"))
            for m in re.finditer(r"\.add\(", src):
                muts.append(("unknown_name", src[:m.start()] + ".sub_(" + src[m.end():], "unknown method sub_"))
            progs = []
            for cls, bad, what in muts:
                progs.append((cls, fam_order.PRELUDE + MAIN % ("  let r = %s;\n  println(\"= ${r}\");" % bad), what + " in " + src))
            out.append((good, progs))
    return out


def in_tuple_literal(src, pos):
    """True iff position `pos` is a direct element of a tuple literal `(a, b).N`"""
    depth = 0
    i = pos - 1
    while i >= 0:
        c = src[i]
        if c == ")":
            depth += 1
        elif c == "(":
            if depth == 0:
                # opening parenthesis that directly encloses pos: tuple literal iff not preceded by an identifier char
                j = i - 1
                is_call = j >= 0 and (src[j].isalnum() or src[j] == "_")
                if is_call:
                    return False
                close = matching_paren(src, i)
                after = src[close + 1:close + 3]
                inner = src[i + 1:close]
                return bool(re.match(r"\.\d", after)) and len(split_top(inner)) == 2
            depth -= 1
        i -= 1
    return False


def matching_paren(s, i):
    depth = 0
    for j in range(i, len(s)):
        if s[j] == "(":
            depth += 1
        elif s[j] == ")":
            depth -= 1
            if depth == 0:
                return j
    raise Exception("unbalanced")


def split_top(s):
    parts, depth, cur = [], 0, ""
    for ch in s:
        if ch in "([{":
            depth += 1
        elif ch in ")]}":
            depth -= 1
        if ch == "," and depth == 0:
            parts.append(cur)
            cur = ""
        else:
            cur += ch
    parts.append(cur)
    return parts


def ctrl_programs(quick):
    out = []
    cs = fam_ctrl.cases(quick=True)
    step = 6 if quick else 1
    for c in cs[::step]:
        decl = c.decls.replace("{id}", "0")
        body = c.body.replace("{id}", "0")
        good = fam_ctrl.PRELUDE_CTRL + decl + "\n" + MAIN % body
        progs = []
        # (5) assignment to an immutable binding: `let mut x` -> `let x` (every generated body assigns x or not)
        if re.search(r"(?<!let mut )(?<!let )\bx = ", decl):
            progs.append(("immutable_assign", good.replace("let mut x = x0;", "let x = x0;", 1), "let mut x -> let x with later assignment"))
        # (6) missing return value: drop the tail expression of the Int64 function
        progs.append(("missing_return", good.replace("\n  x\n}", "\n}", 1), "tail expression of run_0 removed"))
        # (9) non-exhaustive match: remove each arm in turn
        for arm in ("Col::Red", "Col::Green", "Col::Blue"):
            m = re.search(r"\n\s*%s => \{\n.*?\n\s*\}\n" % re.escape(arm), good, re.S)
            if m:
                progs.append(("non_exhaustive", good[:m.start()] + "\n" + good[m.end():], "arm %s removed" % arm))
        m = re.search(r"\n\s*_ => \{\n.*?\n\s*\}\n", good, re.S)
        if m:
            progs.append(("non_exhaustive", good[:m.start()] + "\n" + good[m.end():], "default arm removed from Int64 match"))
        # (3) unknown name: the loop variable / accumulator misspelt at its first use
        m = re.search(r"\bx = x \* 3", good)
        if m:
            progs.append(("unknown_name", good[:m.start()] + "x = xq * 3" + good[m.end():], "unknown variable xq"))
        out.append((good, progs))
    return out


def feature_programs():
    """generics, traits, visibility, type arguments"""
    P = fam_compose.PRELUDE_COMPOSE
    base_main = "  let ta = TA(k = 7);\n  let gc = GC[TA](item = ta);\n  let r = gen[TA](ta, 3) + gc.run(4) + via_obj(ta as Tr, 5) + ta.dflt(1);\n  println(\"${r}\");"
    good = P + MAIN % base_main
    muts = [
        ("trait_bound", good.replace("gen[TA](ta, 3)", "gen[Int64](5, 3)"), "gen instantiated with Int64 which does not implement Tr"),
        ("trait_bound", good.replace("let gc = GC[TA](item = ta);", "let gc = GC[Int64](item = 5);"), "GC[Int64].run needs Int64: Tr"),
        ("trait_bound", good.replace("via_obj(ta as Tr, 5)", "via_obj(5 as Tr, 5)"), "Int64 cast to trait object Tr"),
        ("type_arg_count", good.replace("gen[TA](ta, 3)", "gen[TA, TA](ta, 3)"), "gen with 2 type arguments"),
        ("type_arg_count", good.replace("GC[TA](item = ta)", "GC[TA, TA](item = ta)"), "GC with 2 type arguments"),
        ("type_arg_count", good.replace("GC[TA](item = ta)", "GC(item = ta).run(1); let gc: GC = GC[TA](item = ta)"), "GC used as a type without type argument"),
        ("missing_trait_method", good.replace("impl Tr for TA { fn step(v: Int64): Int64 { println(\"TA.step ${v}\"); v * 2 + self.k } }", "impl Tr for TA { }"), "impl Tr for TA without step"),
        ("missing_trait_method", good.replace("impl Tr for TS { fn step(v: Int64): Int64 { println(\"TS.step ${v}\"); v + self.acc } }", "impl Tr for TS { fn other(v: Int64): Int64 { v } }"), "impl Tr for TS defines an unrelated method only"),
        ("arg_count", good.replace("gc.run(4)", "gc.run()"), "run without argument"),
        ("arg_count", good.replace("ta.dflt(1)", "ta.dflt(1, 2)"), "dflt with 2 arguments"),
        ("type_mismatch", good.replace("TA(k = 7)", "TA(k = true)"), "Bool for an Int64 field"),
        ("type_mismatch", good.replace("gc.run(4)", "gc.run(\"4\")"), "String for an Int64 parameter"),
        ("unknown_name", good.replace("ta.dflt(1)", "ta.dflt_(1)"), "unknown method"),
        ("unknown_name", good.replace("GC[TA](item = ta)", "GC[TA](itm = ta)"), "unknown field name in constructor"),
    ]
    out = [(good, muts)]
    vis = """
mod m {
    pub fn pubf(): Int64 { privf() + 1 }
    fn privf(): Int64 { 2 }
    pub struct PS { pub a: Int64, b: Int64 }
    pub fn mk(): PS { PS(a = 1, b = 2) }
    pub class PC { pub a: Int64, b: Int64 }
    impl PC { pub fn pm(): Int64 { self.hidden() } fn hidden(): Int64 { self.b } }
    pub fn mkc(): PC { PC(a = 1, b = 2) }
    struct Hidden { x: Int64 }
}
"""
    vmain = "  let s = m::mk();\n  let c = m::mkc();\n  println(\"${m::pubf()} ${s.a} ${c.a} ${c.pm()}\");"
    goodv = vis + MAIN % vmain
    mutv = [
        ("inaccessible", goodv.replace("m::pubf()", "m::privf()"), "private function of another module"),
        ("inaccessible", goodv.replace("${s.a}", "${s.b}"), "private struct field"),
        ("inaccessible", goodv.replace("${c.a}", "${c.b}"), "private class field"),
        ("inaccessible", goodv.replace("c.pm()", "c.hidden()"), "private method"),
        ("inaccessible", goodv.replace("let s = m::mk();", "let s = m::mk(); let h = m::Hidden(x = 1);"), "private struct"),
        ("inaccessible", goodv.replace("let s = m::mk();", "let s = m::PS(a = 1, b = 2);"), "constructor with a private field"),
    ]
    out.append((goodv, mutv))
    # data family prelude: trait impl methods and mutability of struct receivers
    D = fam_data.PRELUDE_DATA
    dmain = "  let mut s = DS(x = 1, y = 0);\n  s.set(4);\n  let c = DC(x = 1, y = 0);\n  let t = c as DT;\n  t.tset(3);\n  println(\"${s.get()} ${t.tget()} ${de_val(DE::A(1))}\");"
    goodd = D + MAIN % dmain
    mutd = [
        ("missing_trait_method", goodd.replace("impl DT for DC { fn tset(k: Int64) { self.x = k; } fn tget(): Int64 { self.x } }", "impl DT for DC { fn tget(): Int64 { self.x } }"), "impl DT for DC without tset"),
        ("immutable_assign", goodd.replace("let mut s = DS(x = 1, y = 0);", "let s = DS(x = 1, y = 0);"), "mutating method on an immutable struct binding"),
        ("non_exhaustive", goodd.replace("match e { DE::A(v) => v, DE::B => -1 }", "match e { DE::A(v) => v }"), "enum arm removed"),
        ("missing_return", goodd.replace("fn mut_dc(p: DC, k: Int64): Int64 { p.x = k; p.x }", "fn mut_dc(p: DC, k: Int64): Int64 { p.x = k; }"), "missing return value"),
        ("type_mismatch", goodd.replace("de_val(DE::A(1))", "de_val(DE::A(true))"), "Bool payload for an Int64 variant"),
        ("arg_count", goodd.replace("DE::A(1)", "DE::A(1, 2)"), "variant with 2 payload values"),
        ("arg_count", goodd.replace("DS(x = 1, y = 0);\n  s.set", "DS(x = 1);\n  s.set"), "struct constructor with a missing field"),
    ]
    out.append((goodd, mutd))
    return out


# ---- impl matching: every impl target pattern x every pair of use-site type arguments, decided by unification -----

def _parse_ty(t):
    t = t.strip()
    if t.startswith("Option[") and t.endswith("]"):
        return ("opt", _parse_ty(t[7:-1]))
    if t in ("T", "U"):
        return ("var", t)
    return ("con", t)


def _unify(pat, ty, env):
    if pat[0] == "var":
        if pat[1] in env:
            return env[pat[1]] == ty
        env[pat[1]] = ty
        return True
    if pat[0] == "con":
        return pat == ty
    return ty[0] == "opt" and _unify(pat[1], ty[1], env)


def impl_matching_programs(quick):
    pats = [("T", "T"), ("T", "U"), ("T", "Int64"), ("Int64", "T"), ("Option[T]", "T"), ("T", "Option[T]"),
            ("Option[T]", "Option[U]"), ("Option[T]", "Option[T]")]
    uses = ["Int64", "String", "Option[Int64]", "Option[String]"]
    val = {"Int64": "1", "String": "\"s\"", "Option[Int64]": "Some[Int64](1)", "Option[String]": "Some[String](\"s\")"}
    goods, out = [], []
    for pa, pb in pats:
        tparams = sorted(set(x for x in ("T", "U") if x in pa or x in pb))
        decl = ("trait Foo { fn foo(): Int64; }\nclass Pair[A, B] { a: A, b: B }\n"
                "impl[%s] Foo for Pair[%s, %s] { fn foo(): Int64 { 1 } }\n"
                "fn need[X: Foo](x: X): Int64 { x.foo() }\n" % (", ".join(tparams), pa, pb))
        muts = []
        good_prog = None
        for ua in uses:
            for ub in uses:
                env = {}
                ok = _unify(_parse_ty(pa), _parse_ty(ua), env) and _unify(_parse_ty(pb), _parse_ty(ub), env)
                for how, use in (("bound", "need[Pair[%s, %s]](p)" % (ua, ub)), ("method", "p.foo()")):
                    prog = decl + MAIN % ("  let p = Pair[%s, %s](a = %s, b = %s);\n  println(\"${%s}\");" % (ua, ub, val[ua], val[ub], use))
                    if ok:
                        if good_prog is None:
                            good_prog = prog
                        goods.append((prog, []))
                    else:
                        muts.append(("trait_bound", prog, "impl Foo for Pair[%s, %s] used (%s) with Pair[%s, %s]" % (pa, pb, how, ua, ub)))
        if good_prog is not None:
            out.append((good_prog, muts))
    return out + (goods if not quick else goods[::4])


# ---- definite return: every statement list up to length 2 over returning / possibly-returning statements ----------

RET_STMTS = [("return 1;", True), ("if c { return 1; }", False), ("if c { return 1; } else { return 2; }", True),
             ("while c { return 1; }", False), ("for i in std::range(0, n) { return i; }", False),
             ("match e { RE::A => { return 1; }, RE::B => { return 2; } }", True),
             ("match e { RE::A => { return 1; }, RE::B => { } }", False), ("{ return 1; }", True), ("let y = n;", False),
             ("if c { return 1; } else if n > 1 { return 2; } else { return 3; }", True),
             ("for i in std::range(0, n) { if c { return i; } }", False)]


def definite_return_programs(quick):
    """A non-unit function without tail value is well typed iff one of its statements returns on every path."""
    out = []
    seqs = [(a,) for a in RET_STMTS] + list(itertools.product(RET_STMTS, RET_STMTS))
    tmpl = ("enum RE { A, B }\nfn f(c: Bool, n: Int64, e: RE): Int64 {\n  %s\n}\n" +
            MAIN % "  println(\"${f(true, 1, RE::A)} ${f(false, 2, RE::B)}\");")
    good_base = tmpl % "return 1;"
    muts = []
    for seq in seqs:
        prog = tmpl % "\n  ".join(s for s, _ in seq)
        if any(r for _, r in seq):
            out.append((prog, []))
        else:
            muts.append(("missing_return", prog, "no statement of %r returns on every path" % (tuple(s for s, _ in seq),)))
    out.append((good_base, muts))
    return out


def all_programs(quick=True):
    progs = order_programs(quick) + ctrl_programs(quick) + feature_programs() + impl_matching_programs(quick) + \
        definite_return_programs(quick)
    return progs
