"""Family `call`: every parameter-type vector up to a length bound (plus long homogeneous /
alternating vectors that spill to the stack) through every callee kind; the callee prints what it
received and returns its last parameter."""
import itertools
from core import Case

PRELUDE_CALL = """
struct CP { a: Int64, b: Float64 }
"""

# type -> (dora type, literal for position i, printer of expression e, expected text for position i)
TYPES = {
    "Bool": ("Bool", lambda i: "true" if i % 2 == 0 else "false", lambda e: "${%s}" % e, lambda i: "true" if i % 2 == 0 else "false"),
    "UInt8": ("UInt8", lambda i: "%du8" % (200 + i), lambda e: "${%s.to_int32()}" % e, lambda i: str(200 + i)),
    "Int32": ("Int32", lambda i: "%di32" % (-1000 - i), lambda e: "${%s}" % e, lambda i: str(-1000 - i)),
    "Int64": ("Int64", lambda i: "%d" % (5000000000 + i), lambda e: "${%s}" % e, lambda i: str(5000000000 + i)),
    "Float32": ("Float32", lambda i: "%d.5f32" % (i + 1), lambda e: "${%s.as_int32()}" % e, None),
    "Float64": ("Float64", lambda i: "%d.25f64" % (i + 1), lambda e: "${%s.as_int64()}" % e, None),
    "String": ("String", lambda i: "\"s%d\"" % i, lambda e: "${%s}" % e, lambda i: "s%d" % i),
    "Struct": ("CP", lambda i: "CP(a = %d, b = %d.5)" % (70 + i, i), lambda e: "${%s.a}/${%s.b.as_int64()}" % (e, e), None),
    "Tuple": ("(Int32, Int64)", lambda i: "(%di32, %d)" % (i + 3, 900 + i), lambda e: "${%s.0}/${%s.1}" % (e, e), lambda i: "%d/%d" % (i + 3, 900 + i)),
}

import struct as _st


def expected(t, i):
    f = TYPES[t][3]
    if f is not None:
        return f(i)
    if t == "Float32":
        return str(_st.unpack("<i", _st.pack("<f", i + 1.5))[0])
    if t == "Float64":
        return str(_st.unpack("<q", _st.pack("<d", i + 1.25))[0])
    if t == "Struct":
        return "%d/%d" % (70 + i, _st.unpack("<q", _st.pack("<d", i + 0.5))[0])
    raise Exception(t)


KINDS = ["plain", "method", "static", "lambda", "trait_obj", "generic"]


def make(kind, types):
    n = len(types)
    params = ", ".join("p%d: %s" % (i, TYPES[t][0]) for i, t in enumerate(types))
    args = ", ".join(TYPES[t][1](i) for i, t in enumerate(types))
    printer = " ".join(TYPES[t][2]("p%d" % i) for i, t in enumerate(types))
    ret_ty = TYPES[types[-1]][0]
    body_fn = "println(\"in %s\"); p%d" % (printer, n - 1)
    ret_print = TYPES[types[-1]][2]("r")
    exp = ["in " + " ".join(expected(t, i) for i, t in enumerate(types)), "out " + expected(types[-1], n - 1)]
    decls = ""
    if kind == "plain":
        decls = "fn callee_{id}(%s): %s { %s }" % (params, ret_ty, body_fn)
        call = "callee_{id}(%s)" % args
    elif kind == "method":
        decls = "class CM{id} { z: Int64 }\nimpl CM{id} { fn m(%s): %s { %s } }" % (params, ret_ty, body_fn)
        call = "CM{id}(z = 1).m(%s)" % args
    elif kind == "static":
        decls = "class CS{id}\nimpl CS{id} { static fn s(%s): %s { %s } }" % (params, ret_ty, body_fn)
        call = "CS{id}::s(%s)" % args
    elif kind == "lambda":
        call = None
    elif kind == "trait_obj":
        decls = ("trait CT{id} { fn t(%s): %s; }\nclass CI{id} { z: Int64 }\nimpl CT{id} for CI{id} { fn t(%s): %s { %s } }"
                 % (params, ret_ty, params, ret_ty, body_fn))
        call = "(CI{id}(z = 1) as CT{id}).t(%s)" % args
    elif kind == "generic":
        decls = "fn cg_{id}[G](g: G, %s): %s { %s }" % (params, ret_ty, body_fn)
        call = "cg_{id}[String](\"g\", %s)" % args
    if kind == "lambda":
        body = "  let l = |%s|: %s { %s };\n  let r = l(%s);\n  println(\"out %s\");" % (params, ret_ty, body_fn, args, ret_print)
    else:
        body = "  let r = %s;\n  println(\"out %s\");" % (call, ret_print)
    return Case("call", "call:%s:%s" % (kind, ",".join(types)), body, decls=decls, expect_out=exp, expect_end=0, prelude=PRELUDE_CALL)


def cases(quick=True):
    out = []
    tys = list(TYPES)
    maxlen = 2 if quick else 3
    for n in range(1, maxlen + 1):
        for vec in itertools.product(tys, repeat=n):
            for kind in KINDS:
                if quick and n == 2 and kind in ("static", "generic") and vec[0] != vec[1]:
                    continue
                out.append(make(kind, list(vec)))
    # long vectors: more parameters than argument registers, homogeneous and alternating int/float
    longs = []
    for n in (6, 7, 8, 9, 12) if quick else range(4, 17):
        longs.append(["Int64"] * n)
        longs.append(["Float64"] * n)
        longs.append([("Int64", "Float64")[i % 2] for i in range(n)])
        longs.append([("Float32", "Int32", "String")[i % 3] for i in range(n)])
        longs.append([("Struct", "Int64", "Tuple", "Float64", "UInt8", "Bool")[i % 6] for i in range(n)])
    for vec in longs:
        for kind in KINDS:
            out.append(make(kind, vec))
    return out
