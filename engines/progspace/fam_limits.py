"""Family `limits`: programs that run out of stack or heap, or ask for objects of impossible size.
Every combination of frame shape x recursion kind x thread, and of entry point x element type x length."""
import itertools

# ---------------------------------------------------------------------------------------- recursion

def struct_decls(j):
    """nested by-value structs: W1 = 8 Int64, Wk = 8 W(k-1)  (8^k words)"""
    out = ["struct W1 { a0: Int64, a1: Int64, a2: Int64, a3: Int64, a4: Int64, a5: Int64, a6: Int64, a7: Int64 }",
           "fn mk1(n: Int64): W1 { W1(a0 = n, a1 = n, a2 = n, a3 = n, a4 = n, a5 = n, a6 = n, a7 = n) }"]
    for k in range(2, j + 1):
        f = ", ".join("a%d: W%d" % (i, k - 1) for i in range(8))
        out.append("struct W%d { %s }" % (k, f))
        out.append("fn mk%d(n: Int64): W%d { let w = mk%d(n); W%d(%s) }" % (k, k, k - 1, k, ", ".join("a%d = w" % i for i in range(8))))
    return "\n".join(out)


def leaf_of(j):
    return ".".join(["a7"] * j)


def rec_program(frame, kind, thread, bounded):
    """frame: ("locals", k) | ("struct", j) | ("args", k) | ("temps", k)
    kind: direct | mutual | lambda | trait_obj | generic
    thread: main | spawned | nested_spawned
    bounded: recursion stops at depth 200 (the program must then finish normally)"""
    decls = []
    # LIM < 0: unbounded recursion; with a command-line argument the same program stops at depth 200
    limit = "if LIM >= 0 && n > LIM { return n; }"
    ftype, k = frame
    if ftype == "locals":
        pre = "\n".join("  let v%d = n + %d;" % (i, i) for i in range(k))
        post = " + ".join(["r"] + ["v%d" % i for i in range(k)])
        params, args = "n: Int64", "n + 1"
    elif ftype == "struct":
        decls.append(struct_decls(k))
        pre = "  let w = mk%d(n);" % k
        post = "r + w.%s" % leaf_of(k)
        params, args = "n: Int64", "n + 1"
    elif ftype == "args":
        params = ", ".join(["n: Int64"] + ["p%d: Int64" % i for i in range(k)])
        args = ", ".join(["n + 1"] + ["p%d + 1" % i for i in range(k)])
        pre = ""
        post = " + ".join(["r"] + ["p%d" % i for i in range(k)])
    elif ftype == "temps":
        pre = ""
        params, args = "n: Int64", "n + 1"
        post = "r" + "".join(" + (n * %d + (n - %d) * (n + %d))" % (i + 2, i, i) for i in range(k))
    else:
        raise Exception(ftype)
    extra_args0 = ", ".join(["0"] * (1 + (k if ftype == "args" else 0)))

    def fn(name, callee_expr):
        return "fn %s(%s): Int64 {\n  %s\n%s\n  let r = %s;\n  %s\n}" % (name, params, limit, pre, callee_expr, post)
    if kind == "direct":
        decls.append(fn("rec", "rec(%s)" % args))
        start = "rec(%s)" % extra_args0
    elif kind == "mutual":
        decls.append(fn("rec", "rec2(%s)" % args))
        decls.append(fn("rec2", "rec(%s)" % args))
        start = "rec(%s)" % extra_args0
    elif kind == "generic":
        gparams = params.replace("n: Int64", "t: T, n: Int64")
        decls.append("fn rec[T](%s): Int64 {\n  %s\n%s\n  let r = rec[T](t, %s);\n  %s\n}" % (gparams, limit, pre, args, post))
        start = "rec[Bool](true, %s)" % extra_args0
    elif kind == "trait_obj":
        decls.append("trait R { fn go(%s): Int64; }\nclass RI\nimpl R for RI {\n  fn go(%s): Int64 {\n    %s\n%s\n    let o = RI() as R;\n    let r = o.go(%s);\n    %s\n  }\n}"
                     % (params, params, limit, pre, args, post))
        start = "(RI() as R).go(%s)" % extra_args0
    elif kind == "lambda":
        if ftype == "args":
            return None
        decls.append("class Box { f: (Int64): Int64 }\nfn rec(b: Box, n: Int64): Int64 {\n  %s\n%s\n  let r = b.f(n + 1);\n  %s\n}" % (limit, pre, post))
        start = None
    else:
        raise Exception(kind)
    if kind == "lambda":
        body = ("  let b = Box(f = |x: Int64|: Int64 { x });\n  b.f = |x: Int64|: Int64 { rec(b, x) };\n  let r = rec(b, 0);\n  println(\"done ${r > 0}\");")
    else:
        body = "  let r = %s;\n  println(\"done ${r > 0}\");" % start
    pre_main = "  if std::argc() > 0i32 { LIM = std::argv(0i32).to_int64().get_or_panic(); }\n"
    decls.insert(0, "let mut LIM: Int64 = -1;")
    if thread == "main":
        main = "fn main() {\n" + pre_main + "  println(\"start\");\n%s\n}" % body
    elif thread == "spawned":
        main = "fn main() {\n" + pre_main + "  println(\"start\");\n  let t = std::thread::spawn(|| {\n%s\n  });\n  t.join();\n}" % body
    else:
        main = ("fn main() {\n" + pre_main + "  println(\"start\");\n  let t = std::thread::spawn(|| {\n    let t2 = std::thread::spawn(|| {\n%s\n    });\n    t2.join();\n  });\n  t.join();\n}" % body)
    return "\n".join(decls) + "\n" + main + "\n"


def recursion_cases(quick=True):
    # ("struct", 5) is a 256 KB frame: larger than the stack reserve below the limit, so the limit check itself has to hold
    frames = [("locals", 0), ("locals", 8), ("locals", 64), ("struct", 1), ("struct", 3), ("struct", 5), ("args", 12), ("temps", 8)]
    if not quick:
        frames += [("locals", 1), ("locals", 512), ("struct", 2), ("struct", 4), ("struct", 6), ("args", 30), ("temps", 40)]
    kinds = ["direct", "mutual", "lambda", "trait_obj", "generic"]
    threads = ["main", "spawned"] + ([] if quick else ["nested_spawned"])
    out = []
    for fr, kd, th in itertools.product(frames, kinds, threads):
        if quick and kd != "direct" and fr not in (("locals", 8), ("struct", 3)):
            continue
        src = rec_program(fr, kd, th, bounded=False)
        if src is None:
            continue
        name = "rec:%s%d:%s:%s" % (fr[0], fr[1], kd, th)
        out.append({"name": name, "src": src, "expect": "stack", "frame": fr, "kind": kd, "thread": th})
    return out


# --------------------------------------------------------------------------------------------- heap

ELEM = {
    "UInt8": ("UInt8", "0u8"), "Int32": ("Int32", "0i32"), "Int64": ("Int64", "0"), "Float64": ("Float64", "0.0"),
    "Pair": ("(Int64, Int64)", "(0, 0)"), "Ref": ("String", "\"s\""),
}

LENGTHS = {
    "neg1": -1, "min32": -(1 << 31), "min64": -(1 << 63), "p31m1": (1 << 31) - 1, "p31": 1 << 31, "p32": 1 << 32,
    "p60": 1 << 60, "p61": 1 << 61, "p61p1": (1 << 61) + 1, "max64": (1 << 63) - 1,
}


def lit(n):
    if n == -(1 << 63):
        return "(-9223372036854775807 - 1)"
    return "(%d)" % n


def heap_cases(quick=True):
    out = []
    elems = ["UInt8", "Int64", "Pair", "Ref"] if quick else list(ELEM)
    lens = ["neg1", "min64", "p31", "p60", "p61p1", "max64"] if quick else list(LENGTHS)
    for e in elems:
        ty, dflt = ELEM[e]
        for ln in lens:
            n = LENGTHS[ln]
            for entry in ("zero", "fill", "with_capacity", "reserve"):
                if entry == "zero":
                    if e in ("Pair", "Ref"):
                        continue
                    stmt = "let a = Array[%s]::zero(len()); println(\"size ${a.size()}\");" % ty
                elif entry == "fill":
                    stmt = "let a = Array[%s]::fill(len(), %s); println(\"size ${a.size()}\");" % (ty, dflt)
                elif entry == "with_capacity":
                    stmt = "let v = Vec[%s]::new_with_capacity(len()); println(\"cap ${v.capacity()}\");" % ty
                else:
                    stmt = "let v = Vec[%s]::new(); v.reserve(len()); println(\"cap ${v.capacity()}\");" % ty
                src = "fn len(): Int64 { \"%d\".to_int64().get_or_panic() }\nfn main() {\n  println(\"start\");\n  %s\n}\n" % (n, stmt)
                out.append({"name": "heap:%s:%s:%s" % (entry, e, ln), "src": src, "expect": "impossible", "elem": e, "len": ln, "entry": entry})
    # live data growing beyond the heap and garbage-only allocation that must not run out
    grow = ("fn main() {\n  println(\"start\");\n  let v = Vec[Array[Int64]]::new();\n  let mut i = 0;\n  while i < 100000000 {\n    v.push(Array[Int64]::zero(%d));\n    i = i + 1;\n  }\n  println(\"done ${v.size()}\");\n}\n")
    for sz in ((128, 100000) if quick else (1, 16, 128, 4096, 100000)):
        out.append({"name": "heap:grow:%d" % sz, "src": grow % sz, "expect": "oom", "flags": "--max-heap-size 16M"})
    garbage = ("fn main() {\n  println(\"start\");\n  let mut i = 0;\n  let mut keep = Array[Int64]::zero(8);\n  while i < %d {\n    let a = Array[Int64]::zero(%d);\n    a(0) = i;\n    if i %% 1000 == 0 { keep = a; }\n    i = i + 1;\n  }\n  println(\"done ${keep.size()}\");\n}\n")
    for sz, iters in (((16, 2000000), (4000, 40000), (70000, 3000)) if quick else ((1, 4000000), (16, 2000000), (1000, 200000), (4000, 40000), (4090, 40000), (8200, 20000), (70000, 3000))):
        out.append({"name": "heap:garbage:%d" % sz, "src": garbage % (iters, sz), "expect": "ok", "flags": "--max-heap-size 16M"})
    return out
