"""Family `stdlib`: every public function/method of pkgs/std whose parameters are of sweepable types, called on
canonical receivers with boundary / hostile arguments.  No reference: differential between the two code
generators plus the 'defined ending' oracle (C02).  Signatures are extracted from the current tree."""
import itertools
import os
import re

import core

STD = "/repo/pkgs/std"
FILES = ["primitives.dora", "string.dora", "collections.dora", "std.dora"]

IMPL = re.compile(r"^impl(?:\[(?P<tp>[^\]]*)\])?\s+(?P<ty>[\w:]+)(?:\[(?P<args>.*)\])?\s*\{\s*$")
FN = re.compile(r"^\s*(?:@\w+\s+)*pub\s+(?P<static>static\s+)?fn\s+(?P<name>\w+)(?:\[(?P<tp>[^\]]*)\])?\((?P<params>.*)\)(?::\s*(?P<ret>.*?))?\s*(?:\{.*|;)\s*$")

SKIP_NAMES = {
    # time, randomness, threads, process control that is not a value computation
    "timestamp", "sleep", "debug", "take_heap_snapshot", "take_heap_snapshot_for_testing", "abort", "unimplemented",
    "unreachable", "fatal_error",
}

I64 = [0, 1, -1, 2, 7, 63, 64, 65, (1 << 31) - 1, 1 << 31, 1 << 32, 1 << 60, (1 << 61) + 1, (1 << 63) - 1, -(1 << 63), -(1 << 31) - 1]
I64_Q = [0, 1, -1, 3, 64, 1 << 31, (1 << 61) + 1, (1 << 63) - 1, -(1 << 63)]
I32 = [0, 1, -1, 2, 7, 31, 32, 33, 255, 256, 65536, (1 << 31) - 1, -(1 << 31)]
I32_Q = [0, 1, -1, 3, 32, 0x110000, (1 << 31) - 1, -(1 << 31)]
U8 = [0, 1, 127, 128, 255]
F64 = ["0.0", "-0.0", "1.5", "-1.5", "0.0/0.0", "1.0/0.0", "-1.0/0.0", "2147483648.0", "9223372036854775808.0", "-9223372036854775808.0",
       "0.000000000000000000001", "123456789012345678901234567890.0"]
F64_Q = ["0.0", "-1.5", "0.0/0.0", "1.0/0.0", "9223372036854775808.0"]
CHARS = ["'a'", "'0'", "' '", "'\\n'", "'\\0'", "'ß'", "'€'", "'𝄞'", "1114111i32.to_char_unchecked()"]
CHARS_Q = ["'a'", "'\\0'", "'€'", "'𝄞'"]
STRS = ['""', '"a"', '"abc"', '"äö€𝄞"', '"a b  c"', '"-9223372036854775808"', '"12x"', 'big_string()']
STRS_Q = ['""', '"abc"', '"äö€𝄞"', '"12x"']


def i64lit(n):
    return "(-9223372036854775807 - 1)" if n == -(1 << 63) else "(%d)" % n


def i32lit(n):
    return "(-2147483647i32 - 1i32)" if n == -(1 << 31) else "(%di32)" % n


def values_of(ty, quick):
    """argument expressions for a concrete parameter type, or None if the type is not swept"""
    if ty == "Int64":
        return [i64lit(x) for x in (I64_Q if quick else I64)]
    if ty == "Int32":
        return [i32lit(x) for x in (I32_Q if quick else I32)]
    if ty == "UInt8":
        return ["%du8" % x for x in U8]
    if ty == "Bool":
        return ["true", "false"]
    if ty == "Float64":
        return ["(%s)" % x for x in (F64_Q if quick else F64)]
    if ty == "Float32":
        return ["(%s).to_float32()" % x for x in (F64_Q if quick else F64)]
    if ty == "Char":
        return list(CHARS_Q if quick else CHARS)
    if ty == "String":
        return list(STRS_Q if quick else STRS)
    if ty in RECEIVERS:
        return RECEIVERS[ty][:3]
    return None


RECEIVERS = {
    "Array[Int64]": ["Array[Int64]::new()", "Array[Int64]::new(7)", "Array[Int64]::new(3, 1, 2, 3)", "Array[Int64]::fill(70000, 5)"],
    "Array[String]": ["Array[String]::new()", 'Array[String]::new("x")', 'Array[String]::new("c", "a", "b")'],
    "Array[UInt8]": ["Array[UInt8]::new()", "Array[UInt8]::new(200u8)", "Array[UInt8]::new(104u8, 105u8, 255u8, 128u8)"],
    "Array[(Int64, Int64)]": ["Array[(Int64, Int64)]::new()", "Array[(Int64, Int64)]::new((1, 2), (3, 4))"],
    "Vec[Int64]": ["Vec[Int64]::new()", "Vec[Int64]::new(7)", "Vec[Int64]::new(3, 1, 2, 3)", "big_vec()"],
    "Vec[String]": ["Vec[String]::new()", 'Vec[String]::new("c", "a", "b")'],
    "Vec[UInt8]": ["Vec[UInt8]::new()", "Vec[UInt8]::new(104u8, 105u8, 255u8)"],
    "Vec[(Int64, Int64)]": ["Vec[(Int64, Int64)]::new()", "Vec[(Int64, Int64)]::new((1, 2), (3, 4))"],
    "BitSet": ["std::BitSet::new(0)", "std::BitSet::new(1)", "std::BitSet::new(70)"],
    "BitVec": ["std::BitVec::new()", "bitvec3()"],
    "Queue[Int64]": ["std::Queue[Int64]::new()", "queue3()"],
    "HashMap[Int64, Int64]": ["std::HashMap[Int64, Int64]::new()", "std::HashMap[Int64, Int64]::new((1, 10), (2, 20), (-1, 30))"],
    "HashMap[Int64, String]": ["std::HashMap[Int64, String]::new()", 'std::HashMap[Int64, String]::new((1, "a"), (-1, ""))'],
    "HashSet[Int64]": ["std::HashSet[Int64]::new()", "std::HashSet[Int64]::new(1, 2, -1)"],
    "StringBuffer": ["std::StringBuffer::new()", "sbuf3()"],
    "Option[Int64]": ["Some[Int64](5)", "None[Int64]"],
    "Option[String]": ['Some[String]("s")', "None[String]"],
    "Option[(Int64, Int64)]": ["Some[(Int64, Int64)]((1, 2))", "None[(Int64, Int64)]"],
    "Result[Int64, Int64]": ["Ok[Int64, Int64](1)", "Err[Int64, Int64](2)"],
    "Result[String, Int64]": ['Ok[String, Int64]("s")', "Err[String, Int64](2)"],
    "CodepointIterator": ['"aß€𝄞".code_points()', '"".code_points()'],
    "Queue[String]": ["std::Queue[String]::new()"],
    "(Int64, Int64)": ["(0, 0)", "(-1, 9223372036854775807)"],
}

HELPERS = """
fn big_string(): String { let sb = std::StringBuffer::new(); let mut i = 0; while i < 70000 { sb.append("xy"); i = i + 1; } sb.to_string() }
fn big_vec(): Vec[Int64] { let v = Vec[Int64]::new(); let mut i = 0; while i < 70000 { v.push(i); i = i + 1; } v }
fn bitvec3(): std::BitVec { let b = std::BitVec::new(); b.insert(0); b.insert(5); b.insert(64); b }
fn queue3(): std::Queue[Int64] { let q = std::Queue[Int64]::new(); q.enqueue(1); q.enqueue(2); q.enqueue(3); q }
fn sbuf3(): std::StringBuffer { let b = std::StringBuffer::new(); b.append("ab€"); b }
"""

PRIMS = {"Bool": ["true", "false"], }


def receiver_values(ty, quick):
    if ty in RECEIVERS:
        return RECEIVERS[ty][: (3 if quick else 9)]
    v = values_of(ty, quick)
    return v


# -------------------------------------------------------------------------------------- show functions

def split_top(s, sep=","):
    out, depth, cur = [], 0, ""
    for ch in s:
        if ch in "[(":
            depth += 1
        elif ch in "])":
            depth -= 1
        if ch == sep and depth == 0:
            out.append(cur.strip())
            cur = ""
        else:
            cur += ch
    if cur.strip():
        out.append(cur.strip())
    return out


class Shower:
    """generates `fn show_N(x: T): String` for printable types"""

    def __init__(self):
        self.names = {}
        self.decls = []

    def fn_for(self, ty):
        ty = ty.strip()
        if ty in self.names:
            return self.names[ty]
        body = self.body(ty)
        if body is None:
            self.names[ty] = None
            return None
        name = "show_%d" % len(self.names)
        self.names[ty] = name
        self.decls.append("fn %s(x: %s): String { %s }" % (name, ty, body))
        return name

    def body(self, ty):
        if ty in ("Int64", "Int32", "UInt8", "Bool", "Float64", "Float32"):
            return "x.to_string()"
        if ty == "Char":
            return "x.to_int32().to_string()"
        if ty == "String":
            return "if x.size() > 80 { \"str#${x.size()}\" } else { \"'${x}'\" }"
        if ty == "()":
            return '"()"'
        m = re.fullmatch(r"Option\[(.*)\]", ty)
        if m:
            inner = self.fn_for(m.group(1))
            if inner is None:
                return 'if x.is_some() { "Some(?)" } else { "None" }'
            return 'if x.is_some() { "Some(${%s(x.get_or_panic())})" } else { "None" }' % inner
        if ty.startswith("(") and ty.endswith(")"):
            parts = split_top(ty[1:-1])
            fns = [self.fn_for(p) for p in parts]
            if any(f is None for f in fns):
                return None
            return '"(" + ' + ' + ", " + '.join("%s(x.%d)" % (f, i) for i, f in enumerate(fns)) + ' + ")"'
        m = re.fullmatch(r"(Array|Vec)\[(.*)\]", ty)
        if m:
            inner = self.fn_for(m.group(2))
            if inner is None:
                return '"seq#${x.size()}"'
            return ('let sb = std::StringBuffer::new(); sb.append("[#${x.size()}:"); let mut i = 0; '
                    'while i < x.size() && i < 12 { sb.append(" "); sb.append(%s(x(i))); i = i + 1; } '
                    'if x.size() > 12 { sb.append(" .. "); sb.append(%s(x(x.size() - 1))); } sb.append("]"); sb.to_string()' % (inner, inner))
        if ty in ("BitSet", "std::BitSet"):
            return None
        if ty in ("StringBuffer", "std::StringBuffer"):
            return '"sb#${x.size()}:" + (if x.size() < 80 { x.to_string() } else { "" })'
        m = re.fullmatch(r"(?:std::)?(HashMap|HashSet|Queue)\[(.*)\]", ty)
        if m:
            return '"%s#${x.size()}"' % m.group(1)
        if ty in ("BitVec", "std::BitVec"):
            return None
        return None


def qualify(ty):
    """type expression usable from user code"""
    for n in ("BitSet", "BitVec", "Queue", "HashMap", "HashSet", "StringBuffer"):
        ty = re.sub(r"(?<![\w:])%s\b" % n, "std::" + n, ty)
    ty = re.sub(r"(?<![\w:])CodepointIterator\b", "std::string::CodepointIterator", ty)
    return ty


# --------------------------------------------------------------------------------------- signatures

class Sig:
    def __init__(self, owner, name, static, params, ret, tparams, src):
        self.owner, self.name, self.static, self.params, self.ret, self.tparams, self.src = owner, name, static, params, ret, tparams, src


def extract():
    """[(impl type params, impl type text or None, Sig)] from pkgs/std"""
    out = []
    SKIP = ("skip",)

    def sig_of(m, owner, fname):
        params = []
        for p in split_top(m.group("params")):
            if ":" not in p:
                return None
            params.append(p.split(":", 1)[1].strip())
        tparams = [t.split(":")[0].strip() for t in split_top(m.group("tp") or "")]
        return Sig(owner, m.group("name"), bool(m.group("static")), params, (m.group("ret") or "()").strip(), tparams,
                   "%s:%s.%s" % (fname, owner[1] if owner else "std", m.group("name")))
    for fname in FILES:
        cur = None
        for line in open(os.path.join(STD, fname), encoding="utf-8"):
            line = line.rstrip("\n")
            if not line.strip():
                continue
            if not line[0].isspace():
                m = IMPL.match(line)
                if m and " for " not in line:
                    tps = [t.split(":")[0].strip() for t in split_top(m.group("tp") or "")]
                    cur = (tps, m.group("ty") + ("[%s]" % m.group("args") if m.group("args") else ""))
                    continue
                fm_ = FN.match(line)
                if fm_ and fname == "std.dora":
                    s = sig_of(fm_, None, fname)
                    if s:
                        out.append(s)
                if line.startswith("}"):
                    cur = None
                elif line.rstrip().endswith("{"):
                    cur = SKIP
                continue
            if cur is None or cur == SKIP:
                continue
            fm_ = FN.match(line)
            if fm_ and len(line) - len(line.lstrip()) <= 4:
                s = sig_of(fm_, cur, fname)
                if s:
                    out.append(s)
    return out


def subst(ty, env):
    for k, v in env.items():
        ty = re.sub(r"(?<![\w:])%s\b" % re.escape(k), v, ty)
    return ty


def instantiations(sig):
    """[(concrete owner type or None, env)]"""
    if sig.owner is None:
        return [(None, {})]
    tps, ty = sig.owner
    if not tps or tps == [""]:
        return [(ty, {})]
    res = []
    if len(tps) == 1:
        for conc in ("Int64", "String", "UInt8", "(Int64, Int64)"):
            env = {tps[0]: conc}
            res.append((subst(ty, env), env))
    elif len(tps) == 2:
        for a, b in (("Int64", "Int64"), ("Int64", "String")):
            env = {tps[0]: a, tps[1]: b}
            res.append((subst(ty, env), env))
    return res


def cases(quick=True):
    sigs = extract()
    shower = Shower()
    out = []
    skipped = []
    for sig in sigs:
        if sig.name in SKIP_NAMES or sig.tparams not in ([], [""]):
            skipped.append((sig.src, "generic method or excluded by name"))
            continue
        for owner, env in instantiations(sig):
            if owner is not None and owner not in RECEIVERS and values_of(owner, quick) is None:
                skipped.append((sig.src, "no receiver for %s" % owner))
                continue
            ptypes = [subst(p, env) for p in sig.params]
            ret = subst(sig.ret, env)
            if "Self" in ret:
                ret = ret.replace("Self", owner or "Self")
            arglists = [values_of(p, quick) for p in ptypes]
            if any(a is None for a in arglists):
                skipped.append((sig.src, "parameter type not swept: %s" % ptypes))
                continue
            if quick and len(ptypes) > 2:
                arglists = [a[:3] for a in arglists]
            if len(ptypes) >= 3:
                arglists = [a[:5] for a in arglists]
            recvs = [None] if (sig.static or owner is None) else receiver_values(owner, quick)
            show_ret = shower.fn_for(qualify(ret)) if ret != "Never" else None
            show_recv = shower.fn_for(qualify(owner)) if (owner and not sig.static) else None
            for recv in recvs:
                for args in itertools.product(*arglists):
                    a = ", ".join(args)
                    if sig.static:
                        call = "%s::%s(%s)" % (qualify(owner), sig.name, a)
                    elif owner is None:
                        call = "std::%s(%s)" % (sig.name, a)
                    else:
                        call = "r.%s(%s)" % (sig.name, a)
                    body = []
                    if recv is not None:
                        body.append("  let r = %s;" % recv)
                    if ret == "Never":
                        body.append("  %s;" % call)
                    elif ret == "()":
                        body.append("  %s;" % call)
                        body.append('  println("()");')
                    elif show_ret:
                        body.append("  let res = %s;" % call)
                        body.append("  println(%s(res));" % show_ret)
                    else:
                        body.append("  let res = %s;" % call)
                        body.append('  println("called");')
                    if show_recv and recv is not None:
                        body.append("  println(%s(r));" % show_recv)
                    name = "std:%s.%s(%s)%s" % (owner or "std", sig.name, a, " on " + recv if recv else "")
                    out.append(core.Case("stdlib", name, "\n".join(body), meta={"sig": sig.src}))
    prelude = HELPERS + "\n".join(shower.decls) + "\n"
    for c in out:
        c.prelude = prelude
    cases.skipped = skipped
    cases.signatures = len(sigs)
    return out
