"""Family `order`: every expression shape with <= 3 operators over tracer leaves: left-to-right
evaluation, exactly-once evaluation, short-circuiting, and which trap wins."""
import itertools
from core import Case

I64_MAX = (1 << 63) - 1
I64_MIN = -(1 << 63)


class Trap(Exception):
    def __init__(self, code):
        self.code = code


class Node:
    pass


class T(Node):
    """tracer leaf: prints its key, yields an Int64 value"""
    def __init__(self, k, v):
        self.k, self.v = k, v

    def emit(self):
        return "t(%d, %d)" % (self.k, self.v)

    def eval(self, log):
        log.append("t %d" % self.k)
        return self.v

    def size(self):
        return 0

    ty = "i"


class TB(Node):
    """tracer leaf of type Bool"""
    def __init__(self, k, v):
        self.k, self.v = k, v

    def emit(self):
        return "tb(%d, %s)" % (self.k, "true" if self.v else "false")

    def eval(self, log):
        log.append("t %d" % self.k)
        return self.v

    def size(self):
        return 0

    ty = "b"


def chk(v):
    if v < I64_MIN or v > I64_MAX:
        raise Trap(109)
    return v


def tdiv(a, b):
    q = abs(a) // abs(b)
    return q if (a < 0) == (b < 0) else -q


class Bin(Node):
    def __init__(self, op, a, b):
        self.op, self.a, self.b = op, a, b
        self.ty = "b" if op in ("&&", "||", "<", "==") else "i"

    def emit(self):
        return "(%s %s %s)" % (self.a.emit(), self.op, self.b.emit())

    def eval(self, log):
        op = self.op
        if op == "&&":
            return self.a.eval(log) and self.b.eval(log)
        if op == "||":
            return self.a.eval(log) or self.b.eval(log)
        a = self.a.eval(log)
        b = self.b.eval(log)
        if op == "+":
            return chk(a + b)
        if op == "-":
            return chk(a - b)
        if op == "*":
            return chk(a * b)
        if op == "/":
            if b == 0:
                raise Trap(101)
            return chk(tdiv(a, b))
        if op == "%":
            if b == 0:
                raise Trap(101)
            chk(tdiv(a, b))
            return a - tdiv(a, b) * b
        if op == "<<":
            # the amount is converted with to_int32() (wrapping) before the range check
            b &= 0xffffffff
            if b >= 1 << 31:
                b -= 1 << 32
            if b < 0 or b >= 64:
                raise Trap(110)
            v = (a << b) & ((1 << 64) - 1)
            return v - (1 << 64) if v >= (1 << 63) else v
        if op == "<":
            return a < b
        if op == "==":
            return a == b
        raise Exception(op)

    def size(self):
        return 1 + self.a.size() + self.b.size()


class Shl(Bin):
    def emit(self):
        return "(%s << (%s).to_int32())" % (self.a.emit(), self.b.emit())


class Call2(Node):
    """user function with two parameters: logs its arguments, returns a*3 + b (wrapping-free small values)"""
    ty = "i"

    def __init__(self, a, b):
        self.a, self.b = a, b

    def emit(self):
        return "f2(%s, %s)" % (self.a.emit(), self.b.emit())

    def eval(self, log):
        a = self.a.eval(log)
        b = self.b.eval(log)
        log.append("f2 %d %d" % (a, b))
        return chk(chk(a * 3) + b)

    def size(self):
        return 1 + self.a.size() + self.b.size()


class Index(Node):
    """element of the three-element array [10, 20, 30]"""
    ty = "i"

    def __init__(self, i):
        self.i = i

    def emit(self):
        return "arr3()(%s)" % self.i.emit()

    def eval(self, log):
        log.append("arr3")
        i = self.i.eval(log)
        if i < 0 or i >= 3:
            raise Trap(103)
        return [10, 20, 30][i]

    def size(self):
        return 1 + self.i.size()


class Pair(Node):
    """struct constructor followed by a field read: P(a, b).x / .y"""
    ty = "i"

    def __init__(self, a, b, field):
        self.a, self.b, self.field = a, b, field

    def emit(self):
        return "P(x = %s, y = %s).%s" % (self.a.emit(), self.b.emit(), self.field)

    def eval(self, log):
        a = self.a.eval(log)
        b = self.b.eval(log)
        return a if self.field == "x" else b

    def size(self):
        return 1 + self.a.size() + self.b.size()


class Tup(Node):
    ty = "i"

    def __init__(self, a, b, idx):
        self.a, self.b, self.idx = a, b, idx

    def emit(self):
        return "(%s, %s).%d" % (self.a.emit(), self.b.emit(), self.idx)

    def eval(self, log):
        a = self.a.eval(log)
        b = self.b.eval(log)
        return a if self.idx == 0 else b

    def size(self):
        return 1 + self.a.size() + self.b.size()


class IfE(Node):
    ty = "i"

    def __init__(self, c, a, b):
        self.c, self.a, self.b = c, a, b

    def emit(self):
        return "(if %s { %s } else { %s })" % (self.c.emit(), self.a.emit(), self.b.emit())

    def eval(self, log):
        return self.a.eval(log) if self.c.eval(log) else self.b.eval(log)

    def size(self):
        return 1 + self.c.size() + self.a.size() + self.b.size()


class Method(Node):
    """method call on a class instance created by a traced constructor call: mk(a).add(b)"""
    ty = "i"

    def __init__(self, a, b):
        self.a, self.b = a, b

    def emit(self):
        return "mk(%s).add(%s)" % (self.a.emit(), self.b.emit())

    def eval(self, log):
        a = self.a.eval(log)
        log.append("mk %d" % a)
        b = self.b.eval(log)
        log.append("add %d %d" % (a, b))
        return chk(a + b)

    def size(self):
        return 1 + self.a.size() + self.b.size()


PRELUDE = """
fn t(k: Int64, v: Int64): Int64 { println("t ${k}"); v }
fn tb(k: Int64, v: Bool): Bool { println("t ${k}"); v }
fn f2(a: Int64, b: Int64): Int64 { println("f2 ${a} ${b}"); a * 3 + b }
fn arr3(): Array[Int64] { println("arr3"); Array[Int64]::new(10, 20, 30) }
struct P { x: Int64, y: Int64 }
class K { v: Int64 }
impl K { fn add(o: Int64): Int64 { println("add ${self.v} ${o}"); self.v + o } }
fn mk(v: Int64): K { println("mk ${v}"); K(v = v) }
"""


def gen_int(depth, leaves, next_key):
    """all Int64-typed expressions with exactly `depth` operators; leaves get consecutive keys"""
    # returns list of constructor closures (key counter -> node) to allow unique tracer keys
    raise NotImplementedError


def shapes(n):
    """All expression trees (as functions of a leaf supplier) with exactly n operators, Int64 result."""
    if n == 0:
        return [("leaf_i",)]
    out = []
    for left in range(n):
        right = n - 1 - left
        for a in shapes(left):
            for b in shapes(right):
                for op in ("+", "-", "*", "/", "%", "<<", "call", "pair.x", "pair.y", "tup.0", "tup.1", "method"):
                    out.append((op, a, b))
                # boolean operators feeding an if-expression: if (a op b) {t} else {t}
    # index (unary)
    for a in shapes(n - 1):
        out.append(("index", a))
    # if-expression with short-circuit condition: consumes 2 operators (&&/|| and the if)
    if n >= 2:
        for a in shapes(n - 2):
            for bop in ("&&", "||"):
                out.append(("if", bop, a))
    return out


def build(shape, vals, counter):
    """Instantiate a shape; leaves take values from the iterator `vals`."""
    kind = shape[0]
    if kind == "leaf_i":
        k = next(counter)
        return T(k, next(vals))
    if kind == "index":
        return Index(build(shape[1], vals, counter))
    if kind == "if":
        bop = shape[1]
        c1 = TB(next(counter), next(vals) != 0)
        c2 = TB(next(counter), next(vals) != 0)
        a = build(shape[2], vals, counter)
        b = T(next(counter), 7)
        return IfE(Bin(bop, c1, c2), a, b)
    a = build(shape[1], vals, counter)
    b = build(shape[2], vals, counter)
    if kind in ("+", "-", "*", "/", "%"):
        return Bin(kind, a, b)
    if kind == "<<":
        return Shl("<<", a, b)
    if kind == "call":
        return Call2(a, b)
    if kind.startswith("pair"):
        return Pair(a, b, kind[-1])
    if kind.startswith("tup"):
        return Tup(a, b, int(kind[-1]))
    if kind == "method":
        return Method(a, b)
    raise Exception(kind)


def nleaves(shape):
    kind = shape[0]
    if kind == "leaf_i":
        return 1
    if kind == "index":
        return nleaves(shape[1])
    if kind == "if":
        return 2 + nleaves(shape[2])
    return nleaves(shape[1]) + nleaves(shape[2])


def cases(quick=True):
    out = []
    maxops = 2 if quick else 3
    # leaf values chosen so that every operator has a trapping and a non-trapping instance
    base_vals = [0, 1, I64_MAX] if quick else [0, 1, 2, 64, -1, I64_MAX, I64_MIN]
    seen = set()
    for n in range(1, maxops + 1):
        for shape in shapes(n):
            k = nleaves(shape)
            # all value assignments for small k, a covering subset (each leaf each value, others fixed) beyond
            if len(base_vals) ** k <= (9 if quick else 2500):
                assigns = itertools.product(base_vals, repeat=k)
            else:
                assigns = []
                for pos in range(k):
                    for v in base_vals:
                        for rest in (1, 2):
                            a = [rest] * k
                            a[pos] = v
                            assigns.append(tuple(a))
                assigns = sorted(set(assigns))
            for a in assigns:
                node = build(shape, iter(a), itertools.count(1))
                src = node.emit()
                if src in seen:
                    continue
                seen.add(src)
                log = []
                try:
                    v = node.eval(log)
                    end = 0
                    log.append("= %d" % v)
                except Trap as tr:
                    end = tr.code
                body = "  let r = %s;\n  println(\"= ${r}\");" % src
                out.append(Case("order", "order:%s" % src, body, expect_out=log, expect_end=end))
    # compound assignment, template evaluation order, trap precedence, short-circuit chains.
    # Not included: a plain local variable as operand whose value is changed by a LATER operand of the same
    # expression (`f(x, { x = x + 1; x })`): both generators read the local lazily (f2 6 6); the language has no
    # written rule for this aliasing case, so the reference does not define it.
    extra = [
        ("let mut x = 1; x = x + t(1, 2) * t(2, 3); println(\"= ${x}\");", ["t 1", "t 2", "= 7"], 0),
        ("println(\"= ${t(1, 1)}-${t(2, 2)}-${t(3, 3)}\");", ["t 1", "t 2", "t 3", "= 1-2-3"], 0),
        ("let a = Array[Int64]::new(1, 2, 3); let r = a(t(1, 5)) + t(2, 1) / t(3, 0); println(\"= ${r}\");", ["t 1"], 103),
        ("let r = t(1, 1) / t(2, 0) + arr3()(t(3, 9)); println(\"= ${r}\");", ["t 1", "t 2"], 101),
        ("let r = tb(1, false) && tb(2, true) || tb(3, true); println(\"= ${r}\");", ["t 1", "t 3", "= true"], 0),
        ("let r = tb(1, true) || tb(2, true) && tb(3, false); println(\"= ${r}\");", ["t 1", "= true"], 0),
        ("let mut x = 1; x = t(1, 10) + x; x = x * t(2, 3); println(\"= ${x}\");", ["t 1", "t 2", "= 33"], 0),
    ]
    for i, (src, log, end) in enumerate(extra):
        out.append(Case("order", "order:extra%d" % i, "  " + src, expect_out=log, expect_end=end))
    for c in out:
        c.prelude = PRELUDE
    return out
