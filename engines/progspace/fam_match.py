"""Family `match`: all pattern matrices up to a size bound over small finite scrutinee types, with the
brute-force ground truth (exhaustive?  which arms / alternatives are unreachable?  which arm is taken?)."""
import itertools

BOOL = ("bool",)
E = ("enum", "E", (("A", ()), ("B", ()), ("C", ())))
P = ("enum", "P", (("X", (BOOL,)), ("Y", ()), ("Z", (BOOL, BOOL))))


def opt(t):
    return ("opt", t)


def tup(*ts):
    return ("tuple", tuple(ts))


S = ("struct", "S", (BOOL, E))
K = ("class", "K", (BOOL, BOOL))
N = ("nstruct", "N", (("f0", BOOL), ("f1", E)))

DECLS = """enum E { A, B, C }
enum P { X(Bool), Y, Z(Bool, Bool) }
struct S(Bool, E)
class K(Bool, Bool)
struct N { f0: Bool, f1: E }
let mut GM: Int64 = 0;
fn g(i: Int64): Bool { (GM & (1 << i.to_int32())) != 0 }
fn bv(b: Bool): Int64 { if b { 1 } else { 0 } }
"""


def lit(name, lits, other):
    return ("lit", name, tuple(lits), other)


# values that are not among the literals: a neighbour on each side, and values that agree with a literal in their low
# 32 bits / differ by the sign bit (dense literal arms are dispatched through range checks and jump tables)
L_INT = lit("Int64", ["1", "2", "3"], ("7", "0", "4", "(-1)", "4294967297", "(-4294967295)", "4294967298", "(-4294967294)",
                                         "9223372036854775807", "(-9223372036854775807 - 1)"))
L_I32 = lit("Int32", ["0i32", "1i32", "2147483647i32"], ("5i32", "(-1i32)", "2i32", "2147483646i32", "(-2147483647i32 - 1i32)"))
L_CHAR = lit("Char", ["'a'", "'b'", "'\\n'"], "'z'")
L_STR = lit("String", ['"a"', '"b"', '""'], '"zz"')


def tyname(t):
    k = t[0]
    if k == "bool":
        return "Bool"
    if k in ("enum", "struct", "class", "nstruct"):
        return t[1]
    if k == "opt":
        return "Option[%s]" % tyname(t[1])
    if k == "tuple":
        return "(%s)" % ", ".join(tyname(x) for x in t[1])
    if k == "lit":
        return t[1]
    raise Exception(t)


def variants(t):
    """[(printed constructor, field types)] for constructor-like types"""
    k = t[0]
    if k == "enum":
        return [("%s::%s" % (t[1], v), fs) for v, fs in t[2]]
    if k == "opt":
        return [("Some", (t[1],)), ("None", ())]
    if k == "tuple":
        return [("", t[1])]
    if k in ("struct", "class"):
        return [(t[1], t[2])]
    if k == "nstruct":
        return [(t[1], tuple(ft for _, ft in t[2]))]
    raise Exception(t)


_vals = {}


def values(t):
    if t in _vals:
        return _vals[t]
    k = t[0]
    if k == "bool":
        out = [True, False]
    elif k == "lit":
        out = list(t[2]) + (list(t[3]) if isinstance(t[3], tuple) else [t[3]])
    else:
        out = []
        for vi, (_, fs) in enumerate(variants(t)):
            for combo in itertools.product(*[values(f) for f in fs]):
                out.append((vi,) + combo)
    _vals[t] = out
    return out


def valexpr(t, v):
    k = t[0]
    if k == "bool":
        return "true" if v else "false"
    if k == "lit":
        return v
    name, fs = variants(t)[v[0]]
    args = [valexpr(f, x) for f, x in zip(fs, v[1:])]
    if k == "opt":
        return "Some[%s](%s)" % (tyname(t[1]), args[0]) if v[0] == 0 else "None[%s]" % tyname(t[1])
    if k == "nstruct":
        return "%s(%s)" % (name, ", ".join("%s = %s" % (fn, a) for (fn, _), a in zip(t[2], args)))
    if k == "tuple":
        return "(%s)" % ", ".join(args)
    return "%s(%s)" % (name, ", ".join(args)) if args else name


# ------------------------------------------------------------------------------------------ patterns
# ("w",) wildcard | ("b",) binding | ("l", value) literal | ("c", variant index, subs, rest) | ("a", alts)
# rest: None, or (n_leading, n_trailing): subs = leading + trailing explicit sub-patterns, `..` between them.
# For nstruct: ("n", ((field index, pat), ...), rest_bool)
W = ("w",)


def full_subs(p, arity):
    """explicit sub-pattern per field (wildcards for fields hidden by `..`)"""
    if p[0] == "n":
        d = dict(p[1])
        return [d.get(i, W) for i in range(arity)]
    subs, rest = p[2], p[3]
    if rest is None:
        return list(subs)
    lead, trail = rest
    return list(subs[:lead]) + [W] * (arity - lead - trail) + list(subs[lead:])


def matches(p, t, v, binds=None):
    k = p[0]
    if k == "w":
        return True
    if k == "b":
        if binds is not None:
            binds.append((t, v))
        return True
    if k == "l":
        return p[1] == v
    if k == "a":
        return any(matches(q, t, v, binds) for q in p[1])
    vs = variants(t)
    vi = p[1] if k == "c" else 0
    if v[0] != vi:
        return False
    fs = vs[vi][1]
    for sp, ft, fv in zip(full_subs(p, len(fs)), fs, v[1:]):
        if not matches(sp, ft, fv, binds):
            return False
    return True


_mask = {}


def mask(p, t):
    key = (p, t)
    m = _mask.get(key)
    if m is None:
        m = 0
        for i, v in enumerate(values(t)):
            if matches(p, t, v):
                m |= 1 << i
        _mask[key] = m
    return m


class Printer:
    """prints a pattern and records the column span start of every alternative and binding names"""

    def __init__(self):
        self.out = []
        self.n = 0
        self.alt_pos = {}     # path -> offset
        self.nbind = 0
        self.bind_bool = []   # names of Bool bindings, in match order

    def w(self, s):
        self.out.append(s)
        self.n += len(s)

    def pat(self, p, t, path=()):
        k = p[0]
        if k == "w":
            self.w("_")
        elif k == "b":
            name = ("v%d" if t == BOOL else "_v%d") % self.nbind
            self.nbind += 1
            if t == BOOL:
                self.bind_bool.append(name)
            self.w(name)
        elif k == "l":
            self.w(("true" if p[1] else "false") if t == BOOL else p[1])
        elif k == "a":
            for j, q in enumerate(p[1]):
                if j:
                    self.w(" | ")
                self.alt_pos[path + (("a", j),)] = self.n
                self.pat(q, t, path + (("a", j),))
        elif k == "n":
            self.w(t[1] + "(")
            first = True
            for fi, sp in p[1]:
                if not first:
                    self.w(", ")
                first = False
                self.w("%s = " % t[2][fi][0])
                self.pat(sp, t[2][fi][1], path + (("f", fi),))
            if p[2]:
                self.w(", .." if not first else "..")
            self.w(")")
        else:
            name, fs = variants(t)[p[1]]
            subs, rest = p[2], p[3]
            if not fs and t[0] != "tuple":
                self.w(name)
                return
            self.w(name + "(")
            items = []
            if rest is None:
                items = [(i, sp) for i, sp in enumerate(subs)]
            else:
                lead, trail = rest
                items = [(i, sp) for i, sp in enumerate(subs[:lead])] + [(None, None)] + \
                        [(len(fs) - trail + i, sp) for i, sp in enumerate(subs[lead:])]
            for n, (fi, sp) in enumerate(items):
                if n:
                    self.w(", ")
                if fi is None:
                    self.w("..")
                else:
                    self.pat(sp, fs[fi], path + (("f", fi),))
            self.w(")")


def has(p, kind):
    if p[0] == kind:
        return True
    if p[0] == "a":
        return any(has(q, kind) for q in p[1])
    if p[0] == "c":
        return any(has(q, kind) for q in p[2])
    if p[0] == "n":
        return any(has(q, kind) for _, q in p[1])
    return False


def with_bindings(p):
    """every wildcard replaced by a binding"""
    k = p[0]
    if k == "w":
        return ("b",)
    if k == "c":
        return ("c", p[1], tuple(with_bindings(q) for q in p[2]), p[3])
    if k == "n":
        return ("n", tuple((i, with_bindings(q)) for i, q in p[1]), p[2])
    return p


def pats(t, depth, alts=False, rest=False, named=True):
    """all patterns of nesting depth <= depth for type t (wildcard first: simplest first)"""
    if depth == 0:
        return [W]
    k = t[0]
    if k == "bool":
        out = [W, ("l", True), ("l", False)]
        if alts:
            out.append(("a", (("l", True), ("l", False))))
        return out
    if k == "lit":
        out = [W] + [("l", x) for x in t[2]]
        if alts:
            out.append(("a", (("l", t[2][0]), ("l", t[2][1]))))
            out.append(("a", (W, ("l", t[2][2]))))
        return out
    out = [W]
    heads = []
    for vi, (_, fs) in enumerate(variants(t)):
        subl = [pats(f, depth - 1, alts=alts, rest=rest) for f in fs]
        for combo in itertools.product(*subl):
            heads.append(("c", vi, tuple(combo), None))
        if rest and len(fs) >= 2:
            heads.append(("c", vi, (), (0, 0)))
            for sp in subl[0][1:]:
                heads.append(("c", vi, (sp,), (1, 0)))
            for sp in subl[-1][1:]:
                heads.append(("c", vi, (sp,), (0, 1)))
    if k == "nstruct" and named:
        heads = []
        subl = [pats(ft, depth - 1, alts=alts) for _, ft in t[2]]
        heads.append(("n", (), True))
        for sp in subl[0][1:]:
            heads.append(("n", ((0, sp),), True))
        for sp in subl[1][1:]:
            heads.append(("n", ((1, sp),), True))
        for a, b in itertools.product(subl[0], subl[1]):
            heads.append(("n", ((0, a), (1, b)), False))
            if a != W and b != W:
                heads.append(("n", ((1, b), (0, a)), False))
    out += heads
    if alts and k in ("enum", "opt"):
        # two-way alternatives of constructor patterns with different heads, plus one with a wildcard alternative
        simple = [h for h in heads if not has(h, "a")]
        for a, b in itertools.combinations(simple, 2):
            if a[1] != b[1]:
                out.append(("a", (a, b)))
        out.append(("a", (simple[0], W)))
    return out


# ---------------------------------------------------------------------------------------- ground truth

def expected_reports(rows, t):
    """rows: [(pattern, guarded)].  Returns (exhaustive, {arm index: set of reported paths}) where a path is () for the
    whole arm pattern or the path of a useless alternative."""
    allv = (1 << len(values(t))) - 1
    covered = 0
    reports = {}
    for k, (p, guarded) in enumerate(rows):
        m = mask(p, t)
        if m & ~covered == 0:
            reports[k] = {()}
        else:
            r = set()
            _alt_reports(p, t, covered, (), r)
            if r:
                reports[k] = r
        if not guarded:
            covered |= m
    return covered == allv, reports


def _fields(p, t):
    """[(field index, storage index, sub-pattern, field type)] of a constructor-like pattern"""
    if p[0] == "n":
        return [(fi, si, sp, t[2][fi][1]) for si, (fi, sp) in enumerate(p[1])]
    fs = variants(t)[p[1]][1]
    subs, rs = p[2], p[3]
    if rs is None:
        idxs = list(range(len(subs)))
    else:
        lead, trail = rs
        idxs = list(range(lead)) + [len(fs) - trail + i for i in range(len(subs) - lead)]
    return [(fi, si, sp, fs[fi]) for si, (fi, sp) in enumerate(zip(idxs, subs))]


def _replace(p, t, path, new):
    if not path:
        return new
    step, rest = path[0], path[1:]
    if step[0] == "a":
        alts = list(p[1])
        alts[step[1]] = _replace(alts[step[1]], t, rest, new)
        return ("a", tuple(alts))
    for fi, si, sp, ft in _fields(p, t):
        if fi == step[1]:
            q = _replace(sp, ft, rest, new)
            if p[0] == "n":
                items = list(p[1])
                items[si] = (fi, q)
                return ("n", tuple(items), p[2])
            subs = list(p[2])
            subs[si] = q
            return ("c", p[1], tuple(subs), p[3])
    raise Exception("bad path")


def _outer_alts(p, t, path, out):
    """outermost alternatives in p: [(path, alt pattern)]"""
    k = p[0]
    if k == "a":
        out.append((path, p))
    elif k in ("c", "n"):
        for fi, si, sp, ft in _fields(p, t):
            _outer_alts(sp, ft, path + (("f", fi),), out)


def _sub(p, t, path):
    for step in path:
        if step[0] == "a":
            p = p[1][step[1]]
        else:
            for fi, si, sp, ft in _fields(p, t):
                if fi == step[1]:
                    p, t = sp, ft
                    break
    return p, t


def _alt_reports(root, t, covered, base, reports):
    """examines the outermost alternatives of the sub-pattern of `root` at path `base`"""
    sub, st = _sub(root, t, base)
    found = []
    _outer_alts(sub, st, base, found)
    for pa, ap in found:
        cov = covered
        for j, alt in enumerate(ap[1]):
            cand = _replace(root, t, pa, alt)
            m = mask(cand, t)
            if m & ~cov == 0:
                reports.add(pa + (("a", j),))
            elif has(alt, "a"):
                inner = set()
                _alt_reports(cand, t, cov, pa, inner)
                for ip in inner:
                    reports.add(pa + (("a", j),) + ip[len(pa):])
            cov |= m


def first_match(rows, t, v, gm):
    """(arm index, Bool binding values) of the first arm whose pattern and guard hold"""
    for k, (p, guarded) in enumerate(rows):
        if guarded and not (gm >> k) & 1:
            continue
        binds = []
        if matches(p, t, v, binds):
            return k, [bv for bt, bv in binds if bt == BOOL]
    return None, []


# ---------------------------------------------------------------------------------------- programs

class MatchFn:
    def __init__(self, idx, t, rows):
        self.idx, self.t, self.rows = idx, t, rows
        self.arm_line = {}
        self.alt_cols = {}    # (arm, path) -> column (1-based)
        self.match_line = None

    def emit(self, lines):
        t = self.t
        lines.append("fn m%d(x: %s): Int64 {" % (self.idx, tyname(t)))
        lines.append("  match x {")
        self.match_line = len(lines)
        for k, (p, guarded) in enumerate(self.rows):
            pr = Printer()
            pr.pat(p, t)
            text = "".join(pr.out)
            res = str(k)
            for j, name in enumerate(pr.bind_bool):
                res += " + bv(%s) * %d" % (name, 100 << j)
            lines.append("    %s%s => %s," % (text, " if g(%d)" % k if guarded else "", res))
            self.arm_line[len(lines)] = k
            self.alt_cols[(k, ())] = 5
            for path, off in pr.alt_pos.items():
                self.alt_cols[(k, path)] = 5 + off
        lines.append("  }")
        lines.append("}")


def static_program(fns):
    lines = DECLS.rstrip("\n").split("\n")
    for f in fns:
        f.emit(lines)
    lines.append("fn main() {}")
    return "\n".join(lines) + "\n"


def runtime_program(fns):
    """every function is called with every value of its type and every mask of its guards"""
    lines = DECLS.rstrip("\n").split("\n")
    types = []
    for f in fns:
        f.emit(lines)
        if f.t not in types:
            types.append(f.t)
    for ti, t in enumerate(types):
        lines.append("fn vals%d(): Array[%s] { Array[%s]::new(%s) }" % (ti, tyname(t), tyname(t), ", ".join(valexpr(t, v) for v in values(t))))
    for f in fns:
        nmask = 1 << len(f.rows) if any(g for _, g in f.rows) else 1
        lines.append("fn d%d(vs: Array[%s]) {\n  let mut gm = 0;\n  while gm < %d {\n    GM = gm;\n    let mut i = 0;\n    while i < vs.size() {\n"
                     "      print(\"${m%d(vs(i))},\");\n      i = i + 1;\n    }\n    gm = gm + 1;\n  }\n  println(\"\");\n}" % (
                         f.idx, tyname(f.t), nmask, f.idx))
    # drivers in groups of 40 calls per function (the optimizing compiler's heap bounds function size)
    groups = [fns[i:i + 40] for i in range(0, len(fns), 40)]
    for gi, grp in enumerate(groups):
        lines.append("fn grp%d() {" % gi)
        for ti, t in enumerate(types):
            if any(f.t == t for f in grp):
                lines.append("  let a%d = vals%d();" % (ti, ti))
        for f in grp:
            lines.append("  d%d(a%d);" % (f.idx, types.index(f.t)))
        lines.append("}")
    lines.append("fn main() {")
    for gi in range(len(groups)):
        lines.append("  grp%d();" % gi)
    lines.append("}")
    return "\n".join(lines) + "\n"


def runtime_expected(f):
    nmask = 1 << len(f.rows) if any(g for _, g in f.rows) else 1
    out = []
    for gm in range(nmask):
        for v in values(f.t):
            k, binds = first_match(f.rows, f.t, v, gm)
            if k is None:
                out.append("?")
                continue
            r = k
            for j, b in enumerate(binds):
                r += (100 << j) * (1 if b else 0)
            out.append(str(r))
    return ",".join(out) + ","


# ------------------------------------------------------------------------------------------- spaces

def spaces(quick):
    """[(name, type, pattern list, max rows, guard mode)]; guard mode: "all" = every subset of rows guarded,
    "one" = no guard or exactly one guarded row, "none" """
    sp = []

    def add(name, t, pl, rows, guards):
        sp.append((name, t, pl, rows, guards))
    BB = tup(BOOL, BOOL)
    add("Bool", BOOL, pats(BOOL, 1, alts=True) + [("b",)], 4, "all")
    add("E", E, pats(E, 1, alts=True) + [("b",)], 3 if quick else 4, "all")
    add("P", P, pats(P, 2) + [with_bindings(x) for x in pats(P, 2)[1:] if has(x, "w")], 2 if quick else 3, "one")
    add("P+rest+alt", P, pats(P, 2, alts=True, rest=True), 2, "one")
    add("(Bool,Bool)", BB, pats(BB, 2), 3, "one" if quick else "all")
    add("(Bool,Bool)+alt+rest", BB, pats(BB, 2, alts=True, rest=True), 2 if quick else 3, "none" if quick else "one")
    add("(Bool,Bool)+bind", BB, [with_bindings(x) if has(x, "w") else x for x in pats(BB, 2)], 2, "one")
    add("Option[Bool]", opt(BOOL), pats(opt(BOOL), 2, alts=True), 3, "all")
    add("Option[E]", opt(E), pats(opt(E), 2), 3, "one")
    add("(E,Bool)", tup(E, BOOL), pats(tup(E, BOOL), 2), 3 if not quick else 2, "one")
    add("(P,Bool)", tup(P, BOOL), pats(tup(P, BOOL), 3), 2, "one")
    add("Option[(Bool,Bool)]", opt(BB), pats(opt(BB), 3), 2 if quick else 3, "one" if quick else "all")
    add("S", S, pats(S, 2, rest=True), 2 if quick else 3, "one")
    add("K", K, pats(K, 2, rest=True), 3, "one")
    add("N", N, pats(N, 2), 2 if quick else 3, "one")
    add("(Option[Bool],E)", tup(opt(BOOL), E), pats(tup(opt(BOOL), E), 3), 2, "none" if quick else "one")
    add("Option[Option[Bool]]", opt(opt(BOOL)), pats(opt(opt(BOOL)), 3, alts=True), 2 if quick else 3, "one")
    for lt in (L_INT, L_I32, L_CHAR, L_STR):
        add(lt[1], lt, pats(lt, 1, alts=True) + [("b",)], 3 if quick else 4, "one" if quick else "all")
    add("(Int64,Bool)", tup(L_INT, BOOL), pats(tup(L_INT, BOOL), 2), 2 if quick else 3, "one")
    # dense literal arms: every 4-row matrix over {1, 2, 3, _} / the Int32 literals (jump tables and range checks need
    # three literal arms plus a default, which the row bound of the general literal spaces only reaches in the thorough tier)
    add("Int64-dense", L_INT, [("l", "1"), ("l", "2"), ("l", "3"), ("w",)], 4, "none")
    add("Int32-dense", L_I32, [("l", "0i32"), ("l", "1i32"), ("l", "2147483647i32"), ("w",)], 4, "none")
    return sp


def guard_sets(nrows, mode):
    if mode == "none":
        return [tuple([False] * nrows)]
    if mode == "one":
        return [tuple([False] * nrows)] + [tuple(i == j for i in range(nrows)) for j in range(nrows)]
    return list(itertools.product((False, True), repeat=nrows))


def matrices(space):
    name, t, pl, maxrows, gmode = space
    for n in range(1, maxrows + 1):
        for combo in itertools.product(pl, repeat=n):
            for gs in guard_sets(n, gmode):
                yield tuple(zip(combo, gs))


def count(space):
    name, t, pl, maxrows, gmode = space
    return sum(len(pl) ** n * len(guard_sets(n, gmode)) for n in range(1, maxrows + 1))
