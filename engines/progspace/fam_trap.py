"""Family `trap`: exactly one failing operation at a generator-known line inside a generator-known call
chain; every trap kind x callee shape of every link x chain depth.  The generator knows the expected
message, exit status and the (function name, line) of every frame."""
import itertools

KINDS = {
    # kind: (failing statement using parameter x (Int64, value 1) and z (Int64, value 0), exit status, first stderr line)
    "div0": ("let r = x / z;", 101, "division by 0"),
    "mod0": ("let r = x % z;", 101, "division by 0"),
    "add_overflow": ("let r = 9223372036854775807 + x;", 109, "overflow"),
    "sub_overflow": ("let r = -9223372036854775807 - x - x;", 109, "overflow"),
    "mul_overflow": ("let r = 4611686018427387904 * (x + x);", 109, "overflow"),
    "neg_overflow": ("let r = -(-9223372036854775807 - x);", 109, "overflow"),
    "div_overflow": ("let r = (-9223372036854775807 - x) / (z - x);", 109, "overflow"),
    "shift": ("let r = x << (64i32 + z.to_int32());", 110, "shift amount out of bounds"),
    "array_get": ("let r = Array[Int64]::new(1, 2)(x + x);", 103, "array index out of bounds"),
    "array_set": ("let r = 0; Array[Int64]::new(1, 2)(z - x) = 5;", 103, "array index out of bounds"),
    # the failing access produces a reference to the element (field assignment / mutating method through the index);
    # every other located instruction of the function (index arithmetic included) sits on an earlier line, so a
    # location inherited from the previous instruction shows as a wrong line
    "elem_field_set": ("let tq = Array[TP]::new(TP(a = x, b = 2)); let tw = tq(z).a + x; let ti = x + x;\nlet r = 0; tq(ti).a = tw;",
                       103, "array index out of bounds"),
    "elem_method": ("let tq = Array[TP]::new(TP(a = x, b = 2)); let tw = tq(z).a + x; let ti = x + x;\nlet r = 0; tq(ti).bump();",
                    103, "array index out of bounds"),
    "assert": ("let r = 0; assert(x == z);", 102, "assert failed"),
    "unreachable": ("let r = 0; if x != z { std::unreachable(); }", 1, "unreachable code executed."),
    "fatal": ("let r = 0; if x != z { std::fatal_error(\"boom\"); }", 1, "fatal error: boom"),
}

SHAPES = ["plain", "generic", "method", "static", "lambda", "trait_obj", "leaf"]


class Src:
    def __init__(self):
        self.lines = []

    def add(self, text):
        # a statement may span several source lines: the failing operation is on the last one
        indent = text[:len(text) - len(text.lstrip())]
        for i, part in enumerate(text.split("\n")):
            self.lines.append(part if i == 0 else indent + part)
        return len(self.lines)  # 1-based line number of the (last) added line

    def text(self):
        return "\n".join(self.lines) + "\n"


def emit_link(src, uid, depth, shape, inner_call, inner_frames):
    """Emits the declaration of one chain link; `inner_call` is a statement `let r = ...;`-style text that
    either is the failing operation or calls the next link.  Returns (call expression template taking x and z,
    frames contributed by this link, innermost first) where a frame is (name regex, line or None)."""
    n = "%d_%d" % (uid, depth)
    frames = []
    if shape in ("plain", "leaf"):
        src.add("fn f%s(x: Int64, z: Int64): Int64 {" % n)
        line = src.add("  " + inner_call)
        src.add("  r")
        src.add("}")
        frames.append(("f%s" % n, line))
        call = "f%s({x}, {z})" % n
    elif shape == "generic":
        src.add("fn g%s[T](t: T, x: Int64, z: Int64): Int64 {" % n)
        line = src.add("  " + inner_call)
        src.add("  r")
        src.add("}")
        frames.append((r"g%s\[Bool\]" % n, line))
        call = "g%s[Bool](true, {x}, {z})" % n
    elif shape == "method":
        src.add("class M%s { v: Int64 }" % n)
        src.add("impl M%s {" % n)
        src.add("  fn m(x: Int64, z: Int64): Int64 {")
        line = src.add("    " + inner_call)
        src.add("    r + self.v")
        src.add("  }")
        src.add("}")
        frames.append((r"<impl M%s>::m" % n, line))
        call = "M%s(v = 0).m({x}, {z})" % n
    elif shape == "static":
        src.add("class S%s" % n)
        src.add("impl S%s {" % n)
        src.add("  static fn s(x: Int64, z: Int64): Int64 {")
        line = src.add("    " + inner_call)
        src.add("    r")
        src.add("  }")
        src.add("}")
        frames.append((r"<impl S%s>::s" % n, line))
        call = "S%s::s({x}, {z})" % n
    elif shape == "trait_obj":
        tline = src.add("trait T%s { fn tm(x: Int64, z: Int64): Int64; }" % n)
        src.add("class I%s" % n)
        src.add("impl T%s for I%s {" % (n, n))
        src.add("  fn tm(x: Int64, z: Int64): Int64 {")
        line = src.add("    " + inner_call)
        src.add("    r")
        src.add("  }")
        src.add("}")
        frames.append((r"<impl T%s for I%s>::tm" % (n, n), line))
        frames.append((r"T%s::tm for I%s as T%s" % (n, n, n), tline))
        call = "(I%s() as T%s).tm({x}, {z})" % (n, n)
    elif shape == "lambda":
        # the lambda lives in a wrapper function that creates and calls it
        src.add("fn w%s(x: Int64, z: Int64): Int64 {" % n)
        src.add("  let l = |x: Int64, z: Int64|: Int64 {")
        line = src.add("    " + inner_call)
        src.add("    r")
        src.add("  };")
        cline = src.add("  let q = l(x, z);")
        src.add("  q")
        src.add("}")
        frames.append((r"<impl Fn2\[Int64, Int64, Int64\] for \$Lambda\d+Env>::call", line))
        frames.append((r"std::callable::Fn2::call\[A0, A1, R\] for \$Lambda\d+Env as Fn2\[Int64, Int64, Int64\]", None))
        frames.append(("w%s" % n, cline))
        call = "w%s({x}, {z})" % n
    else:
        raise Exception(shape)
    return call, frames


class TrapCase:
    def __init__(self, name, kind, shapes):
        self.name, self.kind, self.shapes = name, kind, shapes
        self.frames = []   # expected frames innermost first: (name regex, line)
        self.code = KINDS[kind][1]
        self.msg = KINDS[kind][2]


def build_unit(case_specs, file_name="unit.dora"):
    """case_specs: list of (kind, [shape innermost ... outermost]).  Returns (source text, [TrapCase])."""
    src = Src()
    src.add("use std::string::Stringable;")
    src.add("struct TP { a: Int64, b: Int64 }")
    src.add("impl TP { mutating fn bump() { self.a = self.a + 1; } }")
    cases = []
    for uid, (kind, shapes) in enumerate(case_specs):
        tc = TrapCase("trap:%s:%s" % (kind, ">".join(reversed(shapes))), kind, shapes)
        stmt = KINDS[kind][0]
        frames = []
        call = None
        for depth, shape in enumerate(shapes):
            inner = stmt if depth == 0 else "let r = %s;" % call.format(x="x", z="z")
            if shape == "lambda" and depth == 0:
                # the failing statement refers to parameters x/z: rename consistently for the lambda body
                inner = stmt
            call, fr = emit_link(src, uid, depth, shape, inner, frames)
            frames += fr
        src.add("fn case_%d() {" % uid)
        src.add("  println(\"before %d\");" % uid)
        line = src.add("  let r = %s;" % call.format(x="one()", z="zero()"))
        src.add("  println(\"after ${r}\");")
        src.add("}")
        frames.append(("case_%d" % uid, line))
        tc.frames = frames
        cases.append(tc)
    src.add("fn one(): Int64 { \"1\".to_int64().get_or_panic() }")
    src.add("fn zero(): Int64 { \"0\".to_int64().get_or_panic() }")
    src.add("fn main() {")
    src.add("  let c = std::argv(0i32).to_int32().get_or_panic();")
    for uid in range(len(cases)):
        line = src.add("  if c == %di32 { case_%d(); }" % (uid, uid))
        cases[uid].frames.append(("main", line))
    src.add("}")
    return src.text(), cases


def specs(quick=True):
    out = []
    kinds = list(KINDS)
    for kind in kinds:
        for s in SHAPES:
            out.append((kind, [s]))
    depth2 = list(itertools.product(SHAPES, repeat=2))
    for kind in (kinds if not quick else ["div0", "add_overflow", "array_get", "elem_field_set", "assert", "fatal"]):
        for a, b in depth2:
            out.append((kind, [a, b]))
    if not quick:
        for kind in ("div0", "array_get", "assert"):
            for a, b, c in itertools.product(SHAPES, repeat=3):
                out.append((kind, [a, b, c]))
    return out
