//! lsmc: exhaustive exploration of the language server's position arithmetic and symbol ranges (C20).
//! The modules of the dora-language-server *binary crate* are mounted unchanged at this crate's root.
#![allow(dead_code, unused_imports)]

#[path = "/repo/dora-language-server/src/position.rs"]
mod position;
#[path = "/repo/dora-language-server/src/server.rs"]
mod server;
#[path = "/repo/dora-language-server/src/formatting.rs"]
mod formatting;
#[path = "/repo/dora-language-server/src/goto_def.rs"]
mod goto_def;
mod document_symbols {
    include!("/repo/dora-language-server/src/document_symbols.rs");
    pub fn verif_scan_single_file(content: std::sync::Arc<String>) -> Vec<lsp_types::DocumentSymbol> {
        scan_single_file(content)
    }
}
mod workspace_symbols {
    include!("/repo/dora-language-server/src/workspace_symbols.rs");
    pub fn verif_scan_project(main: std::path::PathBuf, vfs: dora_frontend::Vfs) -> Vec<lsp_types::WorkspaceSymbol> {
        let mut v = Vec::new();
        scan_project(main, vfs, "", &mut v);
        v
    }
}

#[path = "../../seqmc/src/pool.rs"]
mod pool;
#[path = "../../seqmc/src/textspace.rs"]
mod textspace;

use std::collections::BTreeMap;
use std::sync::Arc;
use std::time::Duration;

use dora_parser::compute_line_starts;
use lsp_types::{DocumentSymbol, Position, Range};
use pool::{guarded, Report};

pub fn emit_and_exit(rep: Report) -> ! {
    let mut o = String::new();
    o.push_str(&format!("{{\n \"evaluations\": {},\n \"counters\": {{", rep.evaluations));
    let mut first = true;
    for (k, v) in &rep.counters {
        if !first {
            o.push_str(", ");
        }
        first = false;
        o.push_str(&format!("{}: {}", esc(k), v));
    }
    o.push_str("},\n \"extra\": {},\n \"samples\": [");
    first = true;
    for s in &rep.samples {
        if !first {
            o.push_str(", ");
        }
        first = false;
        o.push_str(&esc(s));
    }
    o.push_str("],\n");
    match &rep.hang {
        Some(h) => o.push_str(&format!(" \"hang\": {},\n", esc(h))),
        None => o.push_str(" \"hang\": null,\n"),
    }
    o.push_str(" \"findings\": {\n");
    first = true;
    for (k, f) in &rep.findings {
        if !first {
            o.push_str(",\n");
        }
        first = false;
        o.push_str(&format!(
            "  {}: {{\"count\": {}, \"example\": {}, \"detail\": {}}}",
            esc(k),
            f.count,
            esc(&f.example),
            esc(&f.detail.chars().take(1500).collect::<String>())
        ));
    }
    o.push_str("\n }\n}\n");
    match std::env::var("SEQMC_OUT") {
        Ok(p) => std::fs::write(p, o).expect("write report"),
        Err(_) => print!("{}", o),
    }
    std::process::exit(0);
}

fn esc(s: &str) -> String {
    let mut o = String::from("\"");
    for c in s.chars() {
        match c {
            '"' => o.push_str("\\\""),
            '\\' => o.push_str("\\\\"),
            '\n' => o.push_str("\\n"),
            '\r' => o.push_str("\\r"),
            '\t' => o.push_str("\\t"),
            c if (c as u32) < 0x20 => o.push_str(&format!("\\u{:04x}", c as u32)),
            c => o.push(c),
        }
    }
    o.push('"');
    o
}

// ---------------------------------------------------------------- reference model (independent)

/// Line starts by splitting on \n, \r\n, \r -- written independently of dora-parser.
fn ref_line_starts(t: &str) -> Vec<u32> {
    let b = t.as_bytes();
    let mut v = vec![0u32];
    let mut i = 0;
    while i < b.len() {
        if b[i] == b'\r' {
            if i + 1 < b.len() && b[i + 1] == b'\n' {
                i += 2;
            } else {
                i += 1;
            }
            v.push(i as u32);
        } else if b[i] == b'\n' {
            i += 1;
            v.push(i as u32);
        } else {
            i += 1;
        }
    }
    v
}

fn ref_position(t: &str, ls: &[u32], off: u32) -> (u32, u32) {
    let mut line = 0;
    for (i, &s) in ls.iter().enumerate() {
        if s <= off {
            line = i;
        }
    }
    let col = t[ls[line] as usize..off as usize].encode_utf16().count() as u32;
    (line as u32, col)
}

const SYMS: &[&str] = &["a", "ä", "€", "😀", "\n", "\r", " "];

fn text_of(mut k: u64, len: usize) -> String {
    let mut parts = Vec::new();
    for _ in 0..len {
        parts.push(SYMS[(k % SYMS.len() as u64) as usize]);
        k /= SYMS.len() as u64;
    }
    parts.reverse();
    parts.concat()
}

fn pos_le(a: Position, b: Position) -> bool {
    (a.line, a.character) <= (b.line, b.character)
}

fn check_positions(t: &str, rep: &mut Report, all_pairs: bool) {
    let r = guarded(|| {
        let mut problems: Vec<(String, String)> = Vec::new();
        let ls = compute_line_starts(t);
        let rls = ref_line_starts(t);
        if ls != rls {
            problems.push(("line-starts".into(), format!("{:?} vs reference {:?}", ls, rls)));
        }
        let len = t.len() as u32;
        let mut checks = 0u64;
        let mut max_col = 0u32;
        for off in 0..=len {
            if !t.is_char_boundary(off as usize) {
                continue;
            }
            let p = position::utf8_offset_to_utf16_position(t, &ls, off);
            let (rl, rc) = ref_position(t, &rls, off);
            if (p.line, p.character) != (rl, rc) {
                problems.push(("offset-to-position".into(), format!("offset {} -> {:?}, reference ({}, {})", off, p, rl, rc)));
            }
            max_col = max_col.max(p.character);
            let back = position::utf16_position_to_utf8_offset(t, &ls, p);
            if back != off {
                problems.push(("roundtrip".into(), format!("offset {} -> {:?} -> {}", off, p, back)));
            }
            // line/column for diagnostics (dora-parser): 1-based line, byte column
            let (l1, c1) = dora_parser::compute_line_column(&ls, off);
            if l1 != rl + 1 || c1 != off - rls[rl as usize] + 1 {
                problems.push(("line-column".into(), format!("offset {} -> ({}, {})", off, l1, c1)));
            }
            checks += 3;
        }
        // every (line, character) incl. out-of-range ones and positions inside surrogate pairs
        let lines = ls.len() as u32;
        let mut all_pos = Vec::new();
        for line in 0..=lines + 1 {
            for ch in 0..=max_col + 2 {
                let p = Position::new(line, ch);
                let off = position::utf16_position_to_utf8_offset(t, &ls, p);
                checks += 1;
                if off > len || !t.is_char_boundary(off as usize) {
                    problems.push(("position-to-offset-outside".into(), format!("{:?} -> {} (len {})", p, off, len)));
                    continue;
                }
                if line >= lines {
                    if off != len {
                        problems.push(("position-past-last-line".into(), format!("{:?} -> {} expected {}", p, off, len)));
                    }
                } else {
                    let lstart = rls[line as usize];
                    let lend = if (line as usize) + 1 < rls.len() { rls[line as usize + 1] } else { len };
                    if off < lstart || off > lend {
                        problems.push(("position-left-its-line".into(), format!("{:?} -> {} not in {}..={}", p, off, lstart, lend)));
                    }
                    // exact expectation when the column is the column of some boundary offset of that line
                    for o in lstart..=lend {
                        if t.is_char_boundary(o as usize) && ref_position(t, &rls, o) == (line, ch) && off != o {
                            problems.push(("position-to-offset".into(), format!("{:?} -> {} expected {}", p, off, o)));
                        }
                    }
                }
                all_pos.push(p);
            }
        }
        if all_pairs {
            for &a in &all_pos {
                for &b in &all_pos {
                    if pos_le(a, b) {
                        let sp = position::range_to_span(t, &ls, Range { start: a, end: b });
                        checks += 1;
                        if sp.end() > len {
                            problems.push(("range-to-span-outside".into(), format!("{:?}..{:?} -> {}", a, b, sp)));
                        }
                    }
                }
            }
        }
        (problems, checks)
    });
    match r {
        Ok((problems, checks)) => {
            rep.bump("position_checks", checks);
            for (k, d) in problems {
                rep.add(format!("c20:{}", k), t, &d);
            }
        }
        Err(p) => rep.add(format!("c20:{}", p.key()), t, &format!("{} at {}", p.message, p.location)),
    }
}

fn check_symbol(t: &str, s: &DocumentSymbol, parent: Option<&Range>, end: Position, problems: &mut Vec<(String, String)>, n: &mut u64) {
    *n += 1;
    let zero = Position::new(0, 0);
    if !(pos_le(zero, s.range.start) && pos_le(s.range.start, s.range.end) && pos_le(s.range.end, end)) {
        problems.push(("symbol-range-outside-document".into(), format!("{} {:?} end {:?}", s.name, s.range, end)));
    }
    if !(pos_le(s.range.start, s.selection_range.start) && pos_le(s.selection_range.end, s.range.end) && pos_le(s.selection_range.start, s.selection_range.end)) {
        problems.push(("selection-outside-range".into(), format!("{} sel {:?} range {:?}", s.name, s.selection_range, s.range)));
    }
    if let Some(p) = parent {
        if !(pos_le(p.start, s.range.start) && pos_le(s.range.end, p.end)) {
            problems.push(("child-outside-parent".into(), format!("{} {:?} parent {:?}", s.name, s.range, p)));
        }
    }
    if let Some(ch) = &s.children {
        for c in ch {
            check_symbol(t, c, Some(&s.range), end, problems, n);
        }
    }
}

fn check_symbols(t: &str, ex: &str, rep: &mut Report) {
    let r = guarded(|| {
        let syms = document_symbols::verif_scan_single_file(Arc::new(t.to_string()));
        let ls = compute_line_starts(t);
        let end = position::utf8_offset_to_utf16_position(t, &ls, t.len() as u32);
        let mut problems = Vec::new();
        let mut n = 0u64;
        for s in &syms {
            check_symbol(t, s, None, end, &mut problems, &mut n);
        }
        (problems, n)
    });
    match r {
        Ok((problems, n)) => {
            rep.bump("symbols", n);
            if n > 0 {
                rep.bump("texts_with_symbols", 1);
            }
            for (k, d) in problems {
                rep.add(format!("c20:{}", k), ex, &d);
            }
        }
        Err(p) => rep.add(format!("c20:symbols:{}", p.key()), ex, &format!("{} at {}", p.message, p.location)),
    }
}

fn main() {
    let argv: Vec<String> = std::env::args().collect();
    let mut map = BTreeMap::new();
    let mut i = 2;
    while i + 1 < argv.len() {
        map.insert(argv[i].trim_start_matches("--").to_string(), argv[i + 1].clone());
        i += 2;
    }
    let num = |k: &str, d: u64| map.get(k).map(|v| v.parse().unwrap()).unwrap_or(d);
    let threads = std::thread::available_parallelism().map(|n| n.get()).unwrap_or(4);
    pool::install_panic_hook();
    let rep = match argv.get(1).map(|s| s.as_str()) {
        Some("positions") => {
            let maxlen = num("maxlen", 5) as usize;
            let pairs_upto = num("pairs-upto", 3) as usize;
            let mut blocks = Vec::new();
            let mut total = 0u64;
            for len in 0..=maxlen {
                blocks.push((len, total));
                total += (SYMS.len() as u64).pow(len as u32);
            }
            let locate = |i: u64| {
                let bi = match blocks.binary_search_by(|b| b.1.cmp(&i)) {
                    Ok(x) => x,
                    Err(x) => x - 1,
                };
                text_of(i - blocks[bi].1, blocks[bi].0)
            };
            let mut rep = pool::run_space(
                total,
                threads,
                Duration::from_secs(20),
                |i, rep| {
                    let t = locate(i);
                    let n = t.chars().count();
                    if t.contains('\n') || t.contains('\r') || t.chars().any(|c| c.len_utf8() > 1) {
                        rep.bump("texts_nontrivial", 1);
                    }
                    check_positions(&t, rep, n <= pairs_upto);
                },
                |i| locate(i),
            );
            rep.samples = vec![locate(total / 2), locate(total - 1), "a😀\r\nä".to_string()];
            check_positions("a😀\r\nä", &mut rep, true);
            rep
        }
        Some("symbols") => {
            let alpha = textspace::SIGMA;
            let maxlen = num("maxlen", 2) as usize;
            let ctxs: Vec<usize> = ["top", "classbody", "implbody", "traitbody", "enumbody"]
                .iter()
                .map(|n| textspace::CONTEXTS.iter().position(|c| c.0 == *n).unwrap())
                .collect();
            let space = textspace::Space::new(alpha, maxlen, &ctxs, &[0, 2], 0);
            let mut rep = pool::run_space(
                space.total,
                threads,
                Duration::from_secs(20),
                |i, rep| {
                    let (t, _) = space.text(i);
                    check_symbols(&t, &t, rep);
                },
                |i| space.text(i).0,
            );
            // multi-byte names and mixed line endings around declarations
            for t in ["class ä { fn 😀() {} }\r\nfn b() {}\rstruct S(Int64)", "mod m { fn f() {} }\r\n", "enum E { A, B }\n\nimpl E { fn f() {} }"] {
                check_symbols(t, t, &mut rep);
                rep.evaluations += 1;
            }
            rep.samples = vec![space.text(space.total / 2).0, space.text(space.total - 1).0];
            rep
        }
        Some("files") => {
            let list = map.get("list").expect("--list");
            let files: Vec<(String, String)> = std::fs::read_to_string(list)
                .unwrap()
                .lines()
                .filter_map(|p| std::fs::read(p).ok().and_then(|b| String::from_utf8(b).ok()).map(|c| (p.to_string(), c)))
                .collect();
            let mut rep = pool::run_space(
                files.len() as u64,
                threads,
                Duration::from_secs(60),
                |i, rep| {
                    let (p, c) = &files[i as usize];
                    check_symbols(c, p, rep);
                    // positions at every token-ish boundary would be quadratic; check line table + round trip
                    let r = guarded(|| {
                        let ls = compute_line_starts(c);
                        let mut bad = Vec::new();
                        if ls != ref_line_starts(c) {
                            bad.push("line-starts".to_string());
                        }
                        let mut off = 0usize;
                        let mut n = 0u64;
                        while off <= c.len() {
                            if c.is_char_boundary(off) {
                                let pos = position::utf8_offset_to_utf16_position(c, &ls, off as u32);
                                if position::utf16_position_to_utf8_offset(c, &ls, pos) != off as u32 {
                                    bad.push(format!("roundtrip at {}", off));
                                    break;
                                }
                                n += 1;
                            }
                            off += 7;
                        }
                        (bad, n)
                    });
                    match r {
                        Ok((bad, n)) => {
                            rep.bump("position_checks", n);
                            for b in bad {
                                rep.add(format!("c20:file:{}", b.split(' ').next().unwrap()), p, &b);
                            }
                        }
                        Err(pi) => rep.add(format!("c20:{}", pi.key()), p, &pi.message),
                    }
                },
                |i| files[i as usize].0.clone(),
            );
            rep.samples = files.iter().take(3).map(|f| f.0.clone()).collect();
            rep
        }
        _ => {
            eprintln!("usage: lsmc positions|symbols|files");
            std::process::exit(2);
        }
    };
    emit_and_exit(rep);
}
