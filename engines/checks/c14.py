"""C14 -- a trap report names what failed and where.
Every trap kind x callee shape of every chain link x chain depth: the generator knows message, status and the
(function, line) of every frame; both code generators must print exactly that, after delivering stdout."""
import json
import os
import re
import shutil
import sys

import vcommon
sys.path.insert(0, os.path.join(vcommon.VERIF, "engines", "progspace"))
import core  # noqa: E402
import fam_trap  # noqa: E402

FRAME = re.compile(r"(.*) \((.*):(\d+):(\d+)\)")


def judge(case, idx, r):
    """returns list of (problem class, text)"""
    problems = []
    lines = r["err"].splitlines()
    if r["signal"] is not None or r["timeout"]:
        return [("crash", "ended with %s" % core.ending(r))]
    if r["code"] != case.code:
        problems.append(("status", "exit status %s, expected %d" % (r["code"], case.code)))
    if (lines[0] if lines else "") != case.msg:
        problems.append(("message", "first stderr line %r, expected %r" % (lines[:1], case.msg)))
    if r["out"].splitlines() != ["before %d" % idx]:
        problems.append(("stdout", "stdout before the trap was %r" % r["out"]))
    got = [l.strip() for l in lines[1:] if l.strip()]
    # the runtime helpers of fatal_error/unreachable may contribute leading std frames
    exp = list(case.frames)
    while got and got[0].startswith("std::") and not re.fullmatch(exp[0][0] + r" \(.*\)", got[0]):
        got.pop(0)
    for k, (pat, line) in enumerate(exp):
        if k >= len(got):
            problems.append(("missing-frame", "frame %d (%s) missing; trace: %s" % (k, pat, got)))
            break
        m = FRAME.fullmatch(got[k])
        if not m or not re.fullmatch(pat, m.group(1)):
            problems.append(("frame-name", "frame %d is %r, expected function %s" % (k, got[k], pat)))
            break
        if line is not None and int(m.group(3)) != line:
            problems.append(("frame-line", "frame %d is %r, expected line %d" % (k, got[k], line)))
            break
    if len(got) > len(exp):
        problems.append(("extra-frames", "unexpected frames after main: %s" % got[len(exp):]))
    return problems


def main(tier):
    c = vcommon.Check("C14", tier, "exploration")
    bindir = vcommon.build_plain(need_boots=True)
    tc = core.Toolchain(bindir, vcommon.build_fast(need_boots=True))
    scratch = vcommon.scratch_dir("c14")
    try:
        specs = fam_trap.specs(quick=(tier == "quick"))
        chunks = [specs[i:i + 250] for i in range(0, len(specs), 250)]
        collectors = ["copy"] if tier == "quick" else ["copy", None]
        jobs = []
        for ci, chunk in enumerate(chunks):
            text, cases = fam_trap.build_unit(chunk)
            d = os.path.join(scratch, "u%d" % ci)
            os.makedirs(d)
            src = os.path.join(d, "unit.dora")
            open(src, "w").write(text)
            for be in ("cannon", "boots"):
                for gc in collectors:
                    jobs.append((ci, src, cases, be, gc))

        def work(job):
            ci, src, cases, be, gc = job
            exe = src[:-5] + "-%s-%s" % (be, gc or "default")
            ok, err = tc.compile(src, exe, be, gc=gc)
            if not ok:
                return (job, None, err)
            res = []
            for i, case in enumerate(cases):
                res.append(core.run_exe(exe, [i], timeout=60))
            return (job, res, "")
        results = core.parallel(work, jobs, workers=8)
        evals = 0
        traces = {}
        for (ci, src, cases, be, gc), res, err in results:
            if res is None:
                c.violation("c14:compile-failed:%s" % be, "trap unit does not compile with %s: %s" % (be, err[-300:]),
                            {"backend": be, "source": open(src).read(), "stderr": err[-3000:]})
                continue
            for i, (case, r) in enumerate(zip(cases, res)):
                evals += 1
                for cls, text in judge(case, i, r):
                    c.violation("c14:%s:%s:%s:%s" % (cls, case.kind, case.shapes[0], be),
                                "%s [%s, gc=%s]: %s" % (case.name, be, gc or "swiper", text),
                                {"case": case.name, "backend": be, "gc": gc, "arg": i, "source_unit": src, "stderr": r["err"][-3000:],
                                 "expected_frames": case.frames, "program": open(src).read() if len(c.violations) < 3 else "(see first replays)"})
                traces.setdefault((ci, i, gc), {})[be] = r["err"]
        # the two generators must print the same report (columns included)
        for (ci, i, gc), d in traces.items():
            if len(d) == 2 and d["cannon"] != d["boots"]:
                c.violation("c14:generators-differ", "unit %d case %d gc=%s: cannon and boots print different reports" % (ci, i, gc),
                            {"cannon": d["cannon"][-2000:], "boots": d["boots"][-2000:]})
        sample_text, sample_cases = fam_trap.build_unit(specs[:2])
        c.coverage = {
            "evaluations": evals,
            "distinct_nontrivial": len(specs),
            "rule": "case = (trap kind, callee shape of each chain link innermost..outermost); kinds: %s; shapes: %s; "
                    "quick: depth 1 for all kinds and depth 2 for 5 kinds, thorough: depth 2 for all and depth 3 for 3 kinds, x both code "
                    "generators x collectors. The generator records the line of the failing statement and of every call; expected "
                    "frames include trait-object thunks and lambda call shims. distinct_nontrivial = distinct (kind, chain) specs; every "
                    "one traps." % (", ".join(fam_trap.KINDS), ", ".join(fam_trap.SHAPES)),
            "samples": [{"case": x.name, "expected_status": x.code, "expected_message": x.msg, "expected_frames": x.frames} for x in sample_cases],
            "exhaustive": True,
            "units": len(chunks),
            "collectors": [g or "swiper" for g in collectors],
        }
        c.assumptions = ["columns are only compared between the two code generators", "stack-overflow and out-of-memory reports are checked by C13"]
        return c.finish()
    finally:
        shutil.rmtree(scratch, ignore_errors=True)


def replay(path):
    print(json.dumps(json.load(open(path)), indent=1)[:5000])
    return 0
