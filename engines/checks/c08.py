"""C08 -- every AArch64 instruction the in-house assemblers emit is the requested instruction.

Bounded-exhaustive enumeration (no sampling): for every public method of dora_asm::arm64::AssemblerArm64
(regex-parsed from the current source, joined with the spec table engines/encspace/arm64_spec.py) the full
cartesian product of the declared operand domains is executed on the real assembler; the emitted 32-bit
word is compared bit-exactly with llvm-mc's encoding of the requested instruction, disassembled and
re-assembled (round trip); operands that cannot be encoded must be refused (panic).  Sequences
(mov_imm, ldr_mem_*, str_mem_*) and label branches are decoded by llvm-mc and evaluated.  The Dora twin
(pkgs/boots/assembler/arm64.dora) is compared word by word with the Rust assembler on a reduced product.

Environment: VERIF_ARM64_REPO=<dir> checks the dora-asm crate (and boots package) of another tree.
"""
import json
import os
import shutil
import sys
import time

import vcommon
from vcommon import MachineryError

sys.path.insert(0, os.path.join(vcommon.VERIF, "engines", "encspace"))
import arm64_gen as G      # noqa: E402
import arm64_sem as SEM    # noqa: E402
import arm64_twin as TWIN  # noqa: E402

LLVM = "/usr/bin/llvm-mc"
MATTR = "+lse,+v8.1a"


def repo_dir():
    return os.environ.get("VERIF_ARM64_REPO", vcommon.REPO)


def build_driver(repo, parsed, joined):
    d = G.generate(repo, vcommon.BUILD, parsed, joined)
    env = {"CARGO_TARGET_DIR": os.path.join(vcommon.BUILD, "h-arm64drv"), "CARGO_NET_OFFLINE": "true"}
    with vcommon.Lock("cargo-h-arm64drv"):
        p = vcommon.run(["cargo", "build", "--release", "--offline"], env=env, cwd=d)
        if p.returncode != 0:
            raise MachineryError("cargo build of the arm64 driver failed:\n" + p.stderr.decode("utf-8", "replace")[-6000:])
        # the binary is shared between trees: copy it so that a concurrent build for another tree cannot replace it
        src = os.path.join(vcommon.BUILD, "h-arm64drv", "release", "arm64drv")
        dst = os.path.join(d, "arm64drv")
        shutil.copy2(src, dst)
    return dst


def run_driver(binary, plan, report):
    p = vcommon.run([binary, "run", plan, report], timeout=6 * 3600)
    if p.returncode != 0:
        raise MachineryError("arm64 driver failed (%d): %s" % (p.returncode, p.stderr.decode("utf-8", "replace")[-3000:]))
    return json.load(open(report))


def pretty_ops(entry, ops, enums):
    out = {}
    for (pn, ty, _), v in zip(entry["slots"], ops):
        if ty == "Register":
            out[pn] = "REG_ZERO" if v == 31 else "REG_SP" if v == 32 else "R%d" % v
        elif ty == "NeonRegister":
            out[pn] = "F%d" % v
        elif ty in ("Cond", "Extend", "Shift"):
            out[pn] = "%s::%s" % (ty, enums[ty][v])
        elif ty == "u64":
            out[pn] = "0x%x" % (v & ((1 << 64) - 1))
        elif ty == "Label":
            out[pn] = "label bound %+d bytes from the instruction" % v
        else:
            out[pn] = v
    return out


def main(tier):
    c = vcommon.Check("C08", tier, "exploration")
    repo = repo_dir()
    scratch = vcommon.scratch_dir("c08")
    try:
        t0 = time.time()
        parsed = G.parse_source(repo)
        joined = G.join(parsed)
        enums = parsed["enums"]
        by_name = {e["name"]: e for e in joined["covered"]}
        binary = build_driver(repo, parsed, joined)
        t_build = time.time() - t0
        plan = os.path.join(scratch, "plan.txt")
        report = os.path.join(scratch, "report.json")
        only = set(filter(None, os.environ.get("VERIF_C08_ONLY", "").split(","))) or None   # development aid
        G.write_plan(plan, joined, enums, tier, LLVM, MATTR, scratch, vcommon.NCPU, only=only)
        t1 = time.time()
        rep = run_driver(binary, plan, report)
        t_drv = time.time() - t1
        t2 = time.time()
        sstats, sfind, ssamples = SEM.check_all(report + ".seq", enums["Cond"], LLVM, MATTR, scratch, workers=vcommon.NCPU)
        t_sem = time.time() - t2

        # ---- violations
        for key, f in sorted(rep["findings"].items()):
            m = key[4:key.rindex(":")]
            e = by_name.get(m)
            ex = f["examples"][0]
            what = "%s(%s): dora emits %s = `%s`; requested `%s`; reference: %s  (%d cases)" % (
                m, ", ".join("%s=%s" % kv for kv in pretty_ops(e, ex["ops"], enums).items()) if e else ex["ops"],
                ex["word"] or "no word (panic)", ex["disasm"], ex["expected"], ex["llvm"], f["count"])
            c.violation(key, what, {"method": m, "cases": f["count"], "examples": [
                {"operands": pretty_ops(e, x["ops"], enums) if e else x["ops"], "ops": x["ops"], "dora_word": x["word"],
                 "dora_word_disassembly": x["disasm"], "expected_text": x["expected"], "reference": x["llvm"]}
                for x in f["examples"]], "repo": repo})
        for key, f in sorted(sfind.items()):
            m = key[4:key.rindex(":")]
            e = by_name.get(m)
            ex = f["examples"][0]
            what = "%s(%s): %s; emitted %s = `%s`  (%d cases)" % (
                m, ", ".join("%s=%s" % kv for kv in pretty_ops(e, ex["ops"], enums).items()) if e else ex["ops"],
                ex["what"], " ".join(ex["words"]) or "nothing (panic)", "; ".join(str(t) for t in ex["disasm"]), f["count"])
            c.violation(key, what, {"method": m, "cases": f["count"], "examples": [
                {"operands": pretty_ops(e, x["ops"], enums) if e else x["ops"], "ops": x["ops"], "dora_words": x["words"],
                 "disassembly": x["disasm"], "what": x["what"]} for x in f["examples"]], "repo": repo})

        # ---- Dora twin
        t3 = time.time()
        twin = TWIN.run(c, tier, scratch, repo, binary, parsed, joined, LLVM, MATTR, pretty_ops, only=only)
        t_twin = time.time() - t3

        # ---- coverage
        per_method = {}
        evaluations = nontrivial = refusals = refusals_unverified = api_restricted = equivalent = unpred = rt_ok = rt_diff = 0
        complete = True
        samples = []
        notes = {}
        for n, m in rep["methods"].items():
            if m["kind"] != 0:
                continue
            per_method[n] = m["cases"]
            evaluations += m["cases"]
            nontrivial += m["nontrivial"]
            refusals += m["refused"]
            refusals_unverified += m["refused_zr_sp"]
            api_restricted += m["api_restricted"]
            equivalent += m["equivalent"]
            unpred += m["unpredictable"]
            rt_ok += m["roundtrip_ok"]
            rt_diff += m["roundtrip_diff"]
            if m["cases"] + m["dups"] != m["declared"] or m["cases"] == 0:
                complete = False
            if m["equivalent"]:
                notes.setdefault("equivalent_encodings_accepted", {})[n] = {
                    "cases": m["equivalent"], "example": m["equivalent_ex"] and {
                        "operands": pretty_ops(by_name[n], m["equivalent_ex"]["ops"], enums),
                        "dora": m["equivalent_ex"]["disasm"], "requested": m["equivalent_ex"]["expected"]}}
            if m["roundtrip_diff"]:
                notes.setdefault("llvm_roundtrip_differences", {})[n] = {"cases": m["roundtrip_diff"], "example": m["roundtrip_ex"]}
            if m["emitted"] == 0:
                # a table error (or a method that refuses everything) must not pass silently
                c.violation("c08:%s:no-case-accepted" % n, "%s refused every one of %d operand tuples" % (n, m["cases"]),
                            {"method": n, "cases": m["cases"]})
        sem_cases = sem_nontrivial = sem_refused = 0
        for n, s in sstats.items():
            m = rep["methods"].get(n)
            if not m or m["cases"] + m["dups"] != m["declared"] or m["cases"] != s["cases"]:
                complete = False
            per_method[n] = s["cases"]
            sem_cases += s["cases"]
            sem_nontrivial += s["nontrivial"]
            sem_refused += s["refused"]
        declared_missing = [e["name"] for e in joined["covered"] if e["name"] not in per_method]
        if declared_missing:
            complete = False
        picks = ["add_ext", "and_imm", "ldur", "stp_pre", "tbz", "casal", "ubfm_w", "fcvtzs_wd"]
        for n in picks:
            m = rep["methods"].get(n)
            if m and m.get("nontrivial_ex"):
                x = m["nontrivial_ex"]
                samples.append({"method": n, "operands": pretty_ops(by_name[n], x["ops"], enums), "word": x["word"],
                                "disassembly_of_dora_word": x["disasm"], "expected_text": x["expected"]})
        for s in ssamples:
            if s["method"] in ("mov_imm", "ldr_mem_x", "cbz", "tbz", "str_mem_d") and len(samples) < 16 and \
                    not any(x["method"] == s["method"] for x in samples):
                samples.append({"method": s["method"], "operands": pretty_ops(by_name[s["method"]], s["ops"], enums),
                                "words": s["words"], "disassembly_of_dora_words": s["disasm"]})
        c.coverage = {
            "evaluations": evaluations + sem_cases + twin.get("cases", 0),
            "distinct_nontrivial": nontrivial + sem_nontrivial + twin.get("distinct_nontrivial", 0),
            "rule": "case = (public method of AssemblerArm64, operand tuple). Every method's declared operand space is a "
                    "union of cartesian products of explicit value lists -- registers R0..R30 + REG_ZERO + REG_SP, neon "
                    "0..31 + the non-constructible 32, every variant of Cond/Extend/Shift, immediates / offsets / shift "
                    "amounts / bit positions over their whole field (or both ends of it) with the non-encodable "
                    "neighbours, all 5334 (64-bit) and 1302 (32-bit) bitmask immediates with their +-1 neighbours, label "
                    "distances at both ends of every branch range and of the longer fall-back sequence -- and every "
                    "product is enumerated completely (tuples shared by two products of a method run once). quick: one "
                    "register position complete, the others on {0,1,15,16,30}, plus all zr/sp combinations over "
                    "{0,30,zr,sp}, plus complete immediate domains on registers {0,30}; thorough: complete register "
                    "products (33^3, 33^4) with boundary immediates and complete immediate domains with boundary "
                    "registers, up to 1.2e6 tuples per product. Oracle: llvm-mc 14 assembles the requested "
                    "instruction text and the words must be bit-equal; a word that is not bit-equal is disassembled "
                    "and classified; the quick products additionally get the full round trip (disassemble + "
                    "re-assemble every word) in the thorough tier; panic = refusal, demanded for every tuple outside "
                    "the encodable set (spec predicate false or llvm-mc rejects the text). Sequences and label "
                    "branches are decoded by llvm-mc and evaluated by an interpreter (constant / address / branch "
                    "target). Dora twin: same-named methods of arm64.dora on a reduced product, word compared with "
                    "llvm-mc's. non-trivial = accepted case whose word(s) differ from the word(s) of the method's first "
                    "accepted tuple in enumeration order (all operands at the first value of their domains).",
            "samples": samples,
            "exhaustive": bool(complete and twin.get("complete", True)),
            "methods_parsed": len(parsed["methods"]) + len(parsed["others"]),
            "methods_covered": len(joined["covered"]),
            "uncovered": ["%s (%s)" % u for u in joined["uncovered"]],
            "non_instruction": sorted(joined["non_instruction"]),
            "stale_spec_entries": joined["stale"],
            "refusals": refusals + sem_refused,
            "refusals_with_zr_sp_not_cross_checked": refusals_unverified,
            "refusals_narrower_api_zr_sp": api_restricted,
            "single_instruction_cases": evaluations,
            "sequence_and_label_cases": sem_cases,
            "unpredictable_checked_in_decoder_direction": unpred,
            "roundtrip_ok": rt_ok,
            "roundtrip_diff": rt_diff,
            "llvm_lines_assembled": rep["asm_lines"],
            "llvm_words_disassembled": rep["dis_lines"],
            "llvm_runs": rep["llvm_runs"],
            "per_method_cases": per_method,
            "notes": notes,
            "dora_twin": twin,
            "time_build_s": round(t_build, 1), "time_driver_s": round(t_drv, 1), "time_semantic_s": round(t_sem, 1),
            "time_twin_s": round(t_twin, 1),
            "repo": repo,
        }
        if only:
            c.coverage["restricted_to_methods"] = sorted(only)
        if joined["uncovered"]:
            # not a defect of the assembler: reported in the evidence (and the run is not exhaustive)
            c.coverage["exhaustive"] = False
            vcommon.log("C08: public functions without a usable spec entry (listed as `uncovered`): " +
                        ", ".join(n for n, _ in joined["uncovered"]))
        c.assumptions = [
            "llvm-mc 14 (-triple=aarch64 -mattr=%s) is the reference encoder/decoder" % MATTR,
            "the requested instruction of a method is the text template of engines/encspace/arm64_spec.py (hand-written "
            "from the method names and the Arm ARM); a table error shows up as a mismatch on every tuple of a method",
            "driver built with overflow-checks and debug-assertions off (as a release build of dora); a refusal is a panic",
            "methods restricted to boundary register sets in the quick tier differ from the complete product only by "
            "register numbers in positions that are encoded independently",
        ]
        return c.finish()
    finally:
        shutil.rmtree(scratch, ignore_errors=True)


def replay(path):
    obj = json.load(open(path))
    print(json.dumps(obj, indent=1)[:6000])
    m = obj.get("method")
    ex = (obj.get("examples") or [{}])[0]
    if not m or "ops" not in ex:
        return 0
    repo = obj.get("repo") or repo_dir()
    parsed = G.parse_source(repo)
    joined = G.join(parsed)
    joined["covered"] = [e for e in joined["covered"] if e["name"] == m]
    if not joined["covered"]:
        print("method %s no longer exists / is no longer covered" % m)
        return 2
    full = G.join(parsed)
    binary = build_driver(repo, parsed, full)
    scratch = vcommon.scratch_dir("c08r")
    if str(obj.get("key", "")).startswith("c08:twin:"):
        # re-run the twin comparison for this method (quick product)
        class Collect:
            found = []

            def violation(self, key, what, replay_obj=None, replay_name=None):
                self.found.append(key)
                print("  %s :: %s" % (key, what))
                return True
        try:
            col = Collect()
            TWIN.run(col, "quick", scratch, repo, binary, parsed, full, LLVM, MATTR, pretty_ops, only={m})
            print("replay result:", "still differs" if obj["key"] in col.found else "case passes now")
            return 1 if obj["key"] in col.found else 0
        finally:
            shutil.rmtree(scratch, ignore_errors=True)
    try:
        plan = os.path.join(scratch, "plan.txt")
        with open(plan, "w") as f:
            f.write("llvm %s\nmattr %s\nscratch %s\nthreads 1\nchunk 16\nroundtrip 1\n" % (LLVM, MATTR, scratch))
            f.write("job %s %d\n" % (m, len(ex["ops"])))
            for v in ex["ops"]:
                f.write("%d\n" % v)
        rep = run_driver(binary, plan, os.path.join(scratch, "report.json"))
        sstats, sfind, _ = SEM.check_all(os.path.join(scratch, "report.json.seq"), parsed["enums"]["Cond"], LLVM, MATTR, scratch)
        found = dict(rep["findings"])
        found.update(sfind)
        print("replay result:", json.dumps(found, indent=1) if found else "case passes now")
        return 1 if found else 0
    finally:
        shutil.rmtree(scratch, ignore_errors=True)
