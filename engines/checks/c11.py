"""C11 -- match exhaustiveness and reachability are decided exactly.
All pattern matrices up to the row bound over a family of small finite scrutinee types: the real checker's
NON_EXHAUSTIVE_MATCH / USELESS_PATTERN diagnostics (by line and column) against brute force over all values;
every accepted matrix is also compiled by both generators and called with every value and guard mask."""
import json
import os
import re
import shutil
import sys

import vcommon, seq
sys.path.insert(0, os.path.join(vcommon.VERIF, "engines", "progspace"))
import core  # noqa: E402
import fam_match as fm  # noqa: E402

SEP = "\n\x1e\n"
BATCH = 400
LOC = re.compile(r"--> .*:(\d+):(\d+)$")


def parse_diags(msg):
    """[(level, text, line, col)]"""
    out = []
    lines = msg.split("\x1f")
    for i, l in enumerate(lines):
        if l.startswith("error: ") or l.startswith("warning: "):
            m = LOC.match(lines[i + 1]) if i + 1 < len(lines) else None
            if m:
                lvl, text = l.split(": ", 1)
                out.append((lvl, text, int(m.group(1)), int(m.group(2))))
    return out


def describe(f):
    lines = []
    fm.MatchFn(f.idx, f.t, f.rows).emit(lines)
    return "\n".join(lines)


def main(tier):
    c = vcommon.Check("C11", tier, "model_checking")
    b = seq.build_seqmc()
    quick = tier == "quick"
    scratch = vcommon.scratch_dir("c11")
    try:
        spaces = fm.spaces(quick)
        total = 0
        accepted = []          # (space name, type, rows) for the run-time half
        per_space = {}
        nonex = useless = 0
        rt_types = {"Bool", "E", "P", "(Bool,Bool)", "Option[Bool]", "(Bool,Bool)+bind", "K", "N", "Int64", "String", "Char", "Option[E]", "(E,Bool)",
                    "Int64-dense", "Int32-dense", "Int32"}
        for space in spaces:
            name, t = space[0], space[1]
            fns = []
            programs = []
            for rows in fm.matrices(space):
                fns.append(fm.MatchFn(len(fns), t, rows))
            batches = [fns[i:i + BATCH] for i in range(0, len(fns), BATCH)]
            for bi, batch in enumerate(batches):
                programs.append(fm.static_program(batch))
            inp = os.path.join(scratch, "in.txt")
            outp = os.path.join(scratch, "out.v")
            with open(inp, "w") as fh:
                fh.write(SEP.join(programs))
            rep = seq.run_seqmc(b, "verdicts", {"input": inp, "verdict-out": outp, "emit": 0, "all-diags": 1}, timeout=7200)
            seq.absorb(c, rep, "matrices:" + name)
            res = {}
            for line in open(outp):
                i, st, n, msg = line.rstrip("\n").split("\t", 3)
                res[int(i)] = (st, int(n), msg)
            n_acc = 0
            for bi, batch in enumerate(batches):
                st, n, msg = res[bi]
                if st == "panic":
                    continue
                diags = parse_diags(msg)
                by_line = {}
                for lvl, text, line, col in diags:
                    by_line.setdefault(line, []).append((lvl, text, col))
                claimed = set()
                for f in batch:
                    total += 1
                    exh, reports = fm.expected_reports(f.rows, t)
                    got_nonex = False
                    for lvl, text, col in by_line.get(f.match_line, []):
                        claimed.add(f.match_line)
                        if "does not cover all possible values" in text:
                            got_nonex = True
                        else:
                            c.violation("c11:unexpected-diagnostic", "%s: %s" % (name, text), {"function": describe(f), "diagnostic": text})
                    if got_nonex != (not exh):
                        cls = "accepts-non-exhaustive" if not exh else "rejects-exhaustive"
                        c.violation("c11:%s:%s" % (cls, name), "%s: brute force says exhaustive=%s, checker says %s" % (name, exh, not got_nonex),
                                    {"type": fm.tyname(t), "function": describe(f), "brute_force_exhaustive": exh,
                                     "uncovered_values": [fm.valexpr(t, v) for i, v in enumerate(fm.values(t))
                                                          if not any(fm.matches(p, t, v) for p, g in f.rows if not g)][:8]})
                    nonex += 0 if exh else 1
                    for line, k in f.arm_line.items():
                        got = set()
                        for lvl, text, col in by_line.get(line, []):
                            claimed.add(line)
                            if text.startswith("unreachable pattern"):
                                got.add(col)
                            else:
                                c.violation("c11:unexpected-diagnostic", "%s: %s" % (name, text), {"function": describe(f), "diagnostic": text})
                        exp = set(f.alt_cols[(k, path)] for path in reports.get(k, ()))
                        if got != exp:
                            if not exp:
                                cls = "reachable-reported"
                            elif not got:
                                cls = "unreachable-not-reported"
                            else:
                                cls = "wrong-alternative-reported"
                            c.violation("c11:%s:%s" % (cls, name), "%s arm %d: expected unreachable-pattern columns %s, checker reported %s" % (
                                name, k, sorted(exp), sorted(got)), {"type": fm.tyname(t), "function": describe(f), "arm": k,
                                                                     "expected_columns": sorted(exp), "reported_columns": sorted(got)})
                        useless += 1 if exp else 0
                    if exh:
                        n_acc += 1
                        if name in rt_types and (len(f.rows) <= 3):
                            accepted.append((name, t, f.rows))
                for line in by_line:
                    if line not in claimed:
                        raise vcommon.MachineryError("diagnostic at unexpected line %d in %s: %s" % (line, name, by_line[line]))
            per_space[name] = {"patterns": len(space[2]), "max_rows": space[3], "guards": space[4], "matrices": len(fns), "exhaustive": n_acc}
        # ------------------------------------------------------------------- run-time half
        bindir = vcommon.build_plain(need_boots=True)
        tc = core.Toolchain(bindir, vcommon.build_fast(need_boots=True))
        if quick:
            dense = [a for a in accepted if a[0].endswith("-dense")]
            accepted = [a for a in accepted if not a[0].endswith("-dense")][::4] + dense
        per_unit = 1500
        units = []
        for i in range(0, len(accepted), per_unit):
            fns = [fm.MatchFn(j, t, rows) for j, (name, t, rows) in enumerate(accepted[i:i + per_unit])]
            units.append(fns)
        jobs = []
        for ui, fns in enumerate(units):
            d = os.path.join(scratch, "rt%d" % ui)
            os.makedirs(d)
            src = os.path.join(d, "m.dora")
            open(src, "w").write(fm.runtime_program(fns))
            for be in ("cannon", "boots"):
                jobs.append((ui, src, be))

        def work(job):
            ui, src, be = job
            exe = src[:-5] + "-" + be
            ok, err = tc.compile(src, exe, be, gc="copy", timeout=1200)
            if not ok:
                return (job, None, err)
            return (job, core.run_exe(exe, timeout=600), "")
        calls = 0
        for (ui, src, be), r, err in core.parallel(work, jobs, workers=8):
            fns = units[ui]
            if r is None:
                c.violation("c11:compile-failed:%s" % be, "match unit does not compile with %s: %s" % (be, err[-300:]), {"stderr": err[-3000:], "source": open(src).read()[:20000]})
                continue
            out = r["out"].splitlines()
            if r["code"] != 0 or len(out) != len(fns):
                # find the first function whose line is missing: that is the one that fell through or crashed
                k = min(len(out), len(fns) - 1)
                c.violation("c11:run-ends-abnormally:%s" % be, "unit %d [%s] ends with %s after %d of %d functions: %s" % (
                    ui, be, core.ending(r), len(out), len(fns), core.first_err_line(r)),
                    {"backend": be, "function": describe(fns[k]), "stderr": r["err"][-2000:]})
            for f, line in zip(fns, out):
                exp = fm.runtime_expected(f)
                calls += exp.count(",")
                if line != exp:
                    c.violation("c11:wrong-arm:%s" % be, "[%s] arms taken %s, brute force %s" % (be, line[:200], exp[:200]),
                                {"backend": be, "function": describe(f), "values": [fm.valexpr(f.t, v) for v in fm.values(f.t)], "got": line, "expected": exp})
        c.coverage["evaluations"] = total + calls
        c.coverage["distinct_nontrivial"] = total
        c.coverage.update({
            "rule": "per scrutinee type: all patterns up to the nesting depth (wildcard, binding, literal, constructor with sub-patterns, tuple, "
                    "positional and named struct/class patterns, `..` rest, two-way alternatives) -> all matrices of 1..max_rows rows x guard "
                    "placements; static oracle = brute force over all values of the type (exhaustive iff unguarded rows cover every value; "
                    "an arm -- or an alternative inside it -- is unreachable iff every value it matches is matched by earlier unguarded rows "
                    "or earlier alternatives), compared by line and column with the diagnostics of check_program; run-time oracle = first "
                    "row whose pattern and guard hold, for every value x every guard mask, on both code generators, including the values "
                    "bound by binding patterns. Literal types use the three literals plus one other value (patterns only test equality).",
            "samples": [{"type": fm.tyname(spaces[4][1]), "function": describe(fm.MatchFn(0, spaces[4][1], next(iter(fm.matrices(spaces[4])))))}],
            "exhaustive": True,
            "spaces": per_space,
            "non_exhaustive_matrices": nonex,
            "arms_with_unreachable_report": useless,
            "runtime_functions": len(accepted),
            "runtime_calls": calls,
        })
        c.assumptions = ["quick: run-time half on every 4th accepted matrix of the small types"] if quick else []
        return c.finish()
    finally:
        shutil.rmtree(scratch, ignore_errors=True)


def replay(path):
    print(json.dumps(json.load(open(path)), indent=1)[:5000])
    return 0
