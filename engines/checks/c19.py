"""C19 -- distinct functions get distinct, valid linker symbols.
Explicit-state exploration of the name space of dora-symbol (prefix-closed BFS over a 16-symbol alphabet
of alphanumerics, separators, escapes and multi-byte characters), a parametric sweep of the length cap,
plus the global-label sets of emitted assembly (program level)."""
import os
import re
import shutil
import vcommon, seq

RUNTIME_SYMS = ("dora_aot_", "dora_native_")


def program_level(c, bindir, scratch, tier):
    """Compile programs with -S and check the global labels of each .s."""
    import subprocess
    progs = {
        "generic": """
class Foo[T](T)
impl[T] Foo[T] { fn get(): T { self.0 } static fn mk(x: T): Foo[T] { Foo[T](x) } }
trait Tr { fn f(): Int64; }
impl Tr for Int64 { fn f(): Int64 { self } }
impl Tr for Foo[Int64] { fn f(): Int64 { self.0 } }
impl Tr for Foo[Foo[Int64]] { fn f(): Int64 { self.0 .0 } }
fn id[T](x: T): T { x }
fn call[T: Tr](x: T): Int64 { x.f() }
fn main() {
  let a = Foo[Int64]::mk(1); let b = Foo[Foo[Int64]]::mk(a); let c = Foo[(Int64, String)]::mk((1, "x"));
  let d = Foo[Foo[Foo[Foo[(Int64, Foo[String], Foo[(Bool, Float64)])]]]]::mk(Foo[Foo[Foo[(Int64, Foo[String], Foo[(Bool, Float64)])]]]::mk(Foo[Foo[(Int64, Foo[String], Foo[(Bool, Float64)])]]::mk(Foo[(Int64, Foo[String], Foo[(Bool, Float64)])]::mk((1, Foo[String]::mk("s"), Foo[(Bool, Float64)]::mk((true, 1.5)))))));
  let t: Tr = a as Tr; let l = |x: Int64|: Int64 { x + id[Int64](1) };
  println("${call[Int64](3)} ${call[Foo[Int64]](a)} ${call[Foo[Foo[Int64]]](b)} ${t.f()} ${l(2)} ${id[String]("s")} ${c.get().0} ${d.get().get().get().get().0}");
}
""",
        "hello": 'fn main() { println("hi"); }\n',
    }
    files = 0
    labels_total = 0
    for name, src in progs.items():
        p = os.path.join(scratch, name + ".dora")
        open(p, "w").write(src)
        for backend in (["--cannon"], []):
            out = os.path.join(scratch, "%s%s" % (name, "-c" if backend else "-b"))
            r = subprocess.run([os.path.join(bindir, "dora"), "compile", "-S", p, "-o", out] + backend,
                               stdout=subprocess.PIPE, stderr=subprocess.PIPE, timeout=300)
            if r.returncode != 0:
                raise vcommon.MachineryError("compile -S failed for %s: %s" % (name, r.stderr.decode()[-2000:]))
            s = open(out + ".s").read()
            files += 1
            globl = re.findall(r"^\s*\.globl\s+(\S+)", s, re.M)
            defined = re.findall(r"^([A-Za-z_.$][\w.$]*):", s, re.M)
            labels_total += len(globl)
            seen = set()
            for g in globl:
                if g in seen:
                    c.violation("c19:duplicate-global-label", "%s emitted twice in %s" % (g, name), {"label": g, "program": src})
                seen.add(g)
                if not re.fullmatch(r"[A-Za-z0-9_]+", g):
                    c.violation("c19:label-charset", "label %r in %s" % (g, name), {"label": g, "program": src})
                if len(g) > 200:
                    c.violation("c19:label-too-long", "label of %d chars in %s" % (len(g), name), {"label": g, "program": src})
            dd = {}
            for d in defined:
                dd[d] = dd.get(d, 0) + 1
            for d, k in dd.items():
                if k > 1 and not d.startswith(".L") and not d[0].isdigit():
                    c.violation("c19:label-defined-twice", "%s defined %d times in %s" % (d, k, name), {"label": d, "program": src})
    return files, labels_total


def main(tier):
    c = vcommon.Check("C19", tier, "model_checking")
    b = seq.build_seqmc()
    scratch = vcommon.scratch_dir("c19")
    try:
        args = {"maxlen": 4 if tier == "quick" else 5, "cap-len": 5 if tier == "quick" else 6,
                "family": 2000 if tier == "quick" else 20000}
        rep = seq.run_seqmc(b, "names", args)
        seq.absorb(c, rep, "names")
        cn = rep["counters"]
        bindir = vcommon.build_plain(need_boots=True)
        files, labels = program_level(c, bindir, scratch, tier)
        c.coverage = {
            "states": cn["states"],
            "transitions": cn["transitions"],
            "traces_validated_against_impl": cn["states"],
            "evaluations": rep["evaluations"] + labels,
            "distinct_nontrivial": cn["names_needing_escapes"] + cn["cap_shortened"] + cn["cap200_shortened"],
            "rule": "state = name; transition = append one of 16 symbols (a Z 0 5 F _ : [ ] , space $ # < 2-byte 4-byte); "
                    "all names up to the length bound (prefix closed), each mangled by the real dora_symbol::mangle_name; "
                    "injectivity over the whole set, charset, prefix, demangle round trip, purity. Cap sweep: for every cap "
                    "34..40, all suffixes up to the bound over 5 symbols behind common prefixes of 4 lengths; plus the "
                    "production cap 200 with 200-character common prefixes. non-trivial = names needing an escape + names "
                    "that were shortened. Program level: global labels of emitted .s files.",
            "samples": rep["samples"],
            "exhaustive": True,
            "cap_cases": cn["cap_cases"], "cap_shortened": cn["cap_shortened"],
            "cap200_cases": cn["cap200_cases"], "asm_files": files, "asm_global_labels": labels,
        }
        c.assumptions = ["the real implementation is the model: every state is evaluated on dora_symbol itself",
                         "names longer than the bound differ from covered ones only by more symbols of the same classes"]
        return c.finish()
    finally:
        shutil.rmtree(scratch, ignore_errors=True)


def replay(path):
    import json
    print(json.dumps(json.load(open(path)), indent=1)[:3000])
    return 0
