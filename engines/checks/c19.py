"""C19 -- distinct functions get distinct, valid linker symbols.
Explicit-state exploration of the name space of dora-symbol (prefix-closed BFS over a 16-symbol alphabet
of alphanumerics, separators, escapes and multi-byte characters), a parametric sweep of the length cap,
plus the global-label sets of emitted assembly (program level)."""
import os
import re
import shutil
import vcommon, seq

RUNTIME_SYMS = ("dora_aot_", "dora_native_")

COLLISION_PAIRS = """
class Bx { v: Int64 }
trait Source[T] { fn get(): T; }
impl Source[Int64] for Bx { fn get(): Int64 { self.v } }
impl Source[String] for Bx { fn get(): String { "s${self.v}" } }
trait Named { fn name(): String { "default" } fn tag(): Int64; }
class A1
class A2
impl Named for A1 { fn tag(): Int64 { 1 } }
impl Named for A2 { fn tag(): Int64 { 2 } }
mod ma { pub fn f(): Int64 { 10 } pub mod inner { pub fn f(): Int64 { 11 } } }
mod mb { pub fn f(): Int64 { 20 } }
fn f(): Int64 { 30 }
fn gen[T](x: T): T { x }
class G[T] { x: T }
impl[T] G[T] { fn me(): T { self.x } static fn make(x: T): G[T] { G[T](x = x) } }
trait Ext { fn twice(): Int64; }
impl Ext for Int64 { fn twice(): Int64 { self * 2 } }
impl Ext for Int32 { fn twice(): Int64 { self.to_int64() * 3 } }
impl Ext for G[Int64] { fn twice(): Int64 { self.x * 4 } }
impl Ext for G[Int32] { fn twice(): Int64 { self.x.to_int64() * 5 } }
fn very_long_function_name_used_to_reach_the_symbol_length_limit_of_the_object_format_aaaaaaaaaaaaaaaaaaaaaaaaaaaaaaaaaaaaaaaaaaaaaaaaaaaaaaaaaa[A, B](a: A, b: B): B { b }
fn main() {
  let b = Bx(v = 7);
  let s1 = b as Source[Int64];
  let s2 = b as Source[String];
  println("${s1.get()} ${s2.get()}");
  let n1 = A1() as Named; let n2 = A2() as Named;
  println("${n1.name()}${n1.tag()} ${n2.name()}${n2.tag()} ${A1().name()} ${A2().name()}");
  println("${ma::f()} ${ma::inner::f()} ${mb::f()} ${f()}");
  println("${gen[Int64](1)} ${gen[Int32](2i32)} ${gen[(Int64, Int64)]((3, 4)).1} ${gen[(Int64, Int32)]((5, 6i32)).1} ${gen[String]("x")}");
  println("${G[Int64]::make(1).me()} ${G[Int32]::make(2i32).me()} ${G[String]::make("g").me()}");
  println("${1.twice()} ${1i32.twice()} ${G[Int64](x = 1).twice()} ${G[Int32](x = 1i32).twice()}");
  let l1 = |x: Int64|: Int64 { x + 1 }; let l2 = |x: Int64|: Int64 { x + 2 };
  println("${l1(0)} ${l2(0)}");
  // over-long names that share the first ~170 and the last ~70 characters of their symbol and differ in the middle
  let t6 = (1, 2, 3, 4, 5, 6);
  let w1 = very_long_function_name_used_to_reach_the_symbol_length_limit_of_the_object_format_aaaaaaaaaaaaaaaaaaaaaaaaaaaaaaaaaaaaaaaaaaaaaaaaaaaaaaaaaa[Int32, (Int64, Int64, Int64, Int64, Int64, Int64)](1i32, t6);
  let w2 = very_long_function_name_used_to_reach_the_symbol_length_limit_of_the_object_format_aaaaaaaaaaaaaaaaaaaaaaaaaaaaaaaaaaaaaaaaaaaaaaaaaaaaaaaaaa[Int64, (Int64, Int64, Int64, Int64, Int64, Int64)](1, t6);
  let w3 = very_long_function_name_used_to_reach_the_symbol_length_limit_of_the_object_format_aaaaaaaaaaaaaaaaaaaaaaaaaaaaaaaaaaaaaaaaaaaaaaaaaaaaaaaaaa[UInt8, (Int64, Int64, Int64, Int64, Int64, Int64)](1u8, t6);
  println("${w1.0 + w2.1 + w3.2}");
}
"""
COLLISION_PAIRS_OUT = "7 s7\ndefault1 default2 default default\n10 11 20 30\n1 2 4 6 x\n1 2 g\n2 3 4 5\n1 2\n6\n"


def program_level(c, bindir, scratch, tier):
    """Compile programs with -S and check the global labels of each .s."""
    import subprocess
    progs = {
        "generic": """
class Foo[T](T)
impl[T] Foo[T] { fn get(): T { self.0 } static fn mk(x: T): Foo[T] { Foo[T](x) } }
trait Tr { fn f(): Int64; }
impl Tr for Int64 { fn f(): Int64 { self } }
impl Tr for Foo[Int64] { fn f(): Int64 { self.0 } }
impl Tr for Foo[Foo[Int64]] { fn f(): Int64 { self.0 .0 } }
fn id[T](x: T): T { x }
fn call[T: Tr](x: T): Int64 { x.f() }
fn main() {
  let a = Foo[Int64]::mk(1); let b = Foo[Foo[Int64]]::mk(a); let c = Foo[(Int64, String)]::mk((1, "x"));
  let d = Foo[Foo[Foo[Foo[(Int64, Foo[String], Foo[(Bool, Float64)])]]]]::mk(Foo[Foo[Foo[(Int64, Foo[String], Foo[(Bool, Float64)])]]]::mk(Foo[Foo[(Int64, Foo[String], Foo[(Bool, Float64)])]]::mk(Foo[(Int64, Foo[String], Foo[(Bool, Float64)])]::mk((1, Foo[String]::mk("s"), Foo[(Bool, Float64)]::mk((true, 1.5)))))));
  let t: Tr = a as Tr; let l = |x: Int64|: Int64 { x + id[Int64](1) };
  println("${call[Int64](3)} ${call[Foo[Int64]](a)} ${call[Foo[Foo[Int64]]](b)} ${t.f()} ${l(2)} ${id[String]("s")} ${c.get().0} ${d.get().get().get().get().0}");
}
""",
        "hello": 'fn main() { println("hi"); }\n',
        # pairs of callables that differ in exactly ONE name component each: trait type argument of an impl and of a
        # trait-object thunk (one class, two instantiations of a generic trait), impl target of a trait default method,
        # module path, type argument of a generic function / generic class method / static method, impl target of an
        # extension-like trait impl, position of a lambda.  Every callable returns a different value.
        "pairs": COLLISION_PAIRS,
    }
    expected_out = {"pairs": COLLISION_PAIRS_OUT}
    files = 0
    labels_total = 0
    for name, src in progs.items():
        p = os.path.join(scratch, name + ".dora")
        open(p, "w").write(src)
        for backend in (["--cannon"], []):
            out = os.path.join(scratch, "%s%s" % (name, "-c" if backend else "-b"))
            r = subprocess.run([os.path.join(bindir, "dora"), "compile", "-S", p, "-o", out] + backend,
                               stdout=subprocess.PIPE, stderr=subprocess.PIPE, timeout=300)
            if r.returncode != 0:
                raise vcommon.MachineryError("compile -S failed for %s: %s" % (name, r.stderr.decode()[-2000:]))
            if name in expected_out:
                # the same program assembled, linked and run: every callable must be the one that was named
                exe = out + "-exe"
                r2 = subprocess.run([os.path.join(bindir, "dora"), "compile", p, "-o", exe] + backend,
                                    stdout=subprocess.PIPE, stderr=subprocess.PIPE, timeout=600)
                be = "cannon" if backend else "boots"
                if r2.returncode != 0:
                    c.violation("c19:assembler-or-linker-rejects:%s" % be, "the tool chain rejects the symbols of %s [%s]: %s" % (
                        name, be, r2.stderr.decode("utf-8", "replace")[-400:]), {"program": src, "backend": be, "stderr": r2.stderr.decode("utf-8", "replace")[-3000:]})
                else:
                    r3 = subprocess.run([exe], stdout=subprocess.PIPE, stderr=subprocess.PIPE, timeout=120)
                    if r3.returncode != 0 or r3.stdout.decode("utf-8", "replace") != expected_out[name]:
                        c.violation("c19:wrong-callable-bound:%s" % be, "%s [%s] prints %r (exit %d) instead of %r" % (
                            name, be, r3.stdout.decode("utf-8", "replace"), r3.returncode, expected_out[name]), {"program": src, "backend": be})
            s = open(out + ".s").read()
            files += 1
            globl = re.findall(r"^\s*\.globl\s+(\S+)", s, re.M)
            defined = re.findall(r"^([A-Za-z_.$][\w.$]*):", s, re.M)
            labels_total += len(globl)
            seen = set()
            for g in globl:
                if g in seen:
                    c.violation("c19:duplicate-global-label", "%s emitted twice in %s" % (g, name), {"label": g, "program": src})
                seen.add(g)
                if not re.fullmatch(r"[A-Za-z0-9_]+", g):
                    c.violation("c19:label-charset", "label %r in %s" % (g, name), {"label": g, "program": src})
                if len(g) > 200:
                    c.violation("c19:label-too-long", "label of %d chars in %s" % (len(g), name), {"label": g, "program": src})
            dd = {}
            for d in defined:
                dd[d] = dd.get(d, 0) + 1
            for d, k in dd.items():
                if k > 1 and not d.startswith(".L") and not d[0].isdigit():
                    c.violation("c19:label-defined-twice", "%s defined %d times in %s" % (d, k, name), {"label": d, "program": src})
    return files, labels_total


def main(tier):
    c = vcommon.Check("C19", tier, "model_checking")
    b = seq.build_seqmc()
    scratch = vcommon.scratch_dir("c19")
    try:
        args = {"maxlen": 4 if tier == "quick" else 5, "cap-len": 5 if tier == "quick" else 6,
                "family": 2000 if tier == "quick" else 20000}
        rep = seq.run_seqmc(b, "names", args)
        seq.absorb(c, rep, "names")
        cn = rep["counters"]
        bindir = vcommon.build_plain(need_boots=True)
        files, labels = program_level(c, bindir, scratch, tier)
        c.coverage = {
            "states": cn["states"],
            "transitions": cn["transitions"],
            "traces_validated_against_impl": cn["states"],
            "evaluations": rep["evaluations"] + labels,
            "distinct_nontrivial": cn["names_needing_escapes"] + cn["cap_shortened"] + cn["cap200_shortened"],
            "rule": "state = name; transition = append one of 16 symbols (a Z 0 5 F _ : [ ] , space $ # < 2-byte 4-byte); "
                    "all names up to the length bound (prefix closed), each mangled by the real dora_symbol::mangle_name; "
                    "injectivity over the whole set, charset, prefix, demangle round trip, purity. Cap sweep: for every cap "
                    "34..40, all suffixes up to the bound over 5 symbols behind common prefixes of 4 lengths; plus the "
                    "production cap 200 with 200-character common prefixes. non-trivial = names needing an escape + names "
                    "that were shortened. Program level: global labels of emitted .s files.",
            "samples": rep["samples"],
            "exhaustive": True,
            "cap_cases": cn["cap_cases"], "cap_shortened": cn["cap_shortened"],
            "cap200_cases": cn["cap200_cases"], "asm_files": files, "asm_global_labels": labels,
        }
        c.assumptions = ["the real implementation is the model: every state is evaluated on dora_symbol itself",
                         "names longer than the bound differ from covered ones only by more symbols of the same classes"]
        return c.finish()
    finally:
        shutil.rmtree(scratch, ignore_errors=True)


def replay(path):
    import json
    print(json.dumps(json.load(open(path)), indent=1)[:3000])
    return 0
