"""C07 -- the in-house x86-64 assemblers emit, for every operand combination, bytes that an independent decoder
(llvm-mc, LLVM 14) reads back as exactly the requested instruction; label references land on the bound position.

Bounded-exhaustive enumeration (no sampling): every public instruction method of dora-asm's AssemblerX64
(signatures parsed from the current source, joined with the hand-written table engines/encspace/x64_spec.py)
x the full product of its finite operand domains.  The Dora-language twin pkgs/boots/assembler/x64.dora is
driven through generated @Test functions and compared the same way.

env: VERIF_C07_DORA_ASM = dora-asm crate directory to test instead of <repo>/dora-asm
     VERIF_C07_BOOTS    = boots package directory to test instead of <repo>/pkgs/boots
     VERIF_C07_METHODS  = comma separated method names (restrict the run; used by replay)
     VERIF_C07_SKIP_TWIN = 1 to skip the Dora twin
"""
import json
import multiprocessing
import os
import shutil
import subprocess
import sys
import time

import vcommon

sys.path.insert(0, os.path.join(vcommon.VERIF, "engines", "encspace"))
import gen_x64  # noqa: E402
import pipeline  # noqa: E402

MAX_EXAMPLES = 6


class Collector:
    """Groups mismatching cases by narrow key c07:<asm>:<method>:<what differs>."""

    def __init__(self, prefix):
        self.prefix = prefix
        self.groups = {}

    def add_group(self, method, what, count, examples):
        key = "%s:%s:%s" % (self.prefix, method, what)
        g = self.groups.setdefault(key, {"count": 0, "examples": []})
        g["count"] += count
        g["examples"] = sorted(g["examples"] + examples, key=pipeline.case_weight)[:MAX_EXAMPLES]

    def report(self, c, tier, extra=None):
        for key in sorted(self.groups):
            g = self.groups[key]
            ex = g["examples"][0]
            what = "%s(%s) has_avx2=%s emitted %s = `%s`, requested `%s` (llvm: `%s`); %d case(s) of this kind" % (
                ex["method"], ex["operands"], ex.get("has_avx2"), ex["bytes"], ex["decoded"] or "<undecodable>",
                ex["expected_text"], ex.get("reference_decoded", ""), g["count"])
            obj = {"tier": tier, "method": ex["method"], "count": g["count"], "first": ex,
                   "examples": g["examples"]}
            if extra:
                obj.update(extra)
            c.violation(key, what, obj)


def run_rust_side(c, tier, scratch, methods=None):
    t_start = time.time()
    gen = gen_x64.generate()
    drv = gen_x64.build(gen)
    vcommon.log("c07 rust side: driver built at %.1fs" % (time.time() - t_start))
    outdir = os.path.join(scratch, "rs")
    os.makedirs(outdir)
    threads = max(2, min(6, vcommon.NCPU // 3))
    workers = int(os.environ.get("VERIF_C07_WORKERS", max(2, vcommon.NCPU - 2)))
    shard = "100000"
    proc = subprocess.Popen([drv, outdir, tier, str(threads), shard, ",".join(methods) if methods else "-"],
                            stdout=subprocess.PIPE, stderr=subprocess.PIPE)
    summary = None
    pending = []
    results = []
    with multiprocessing.Pool(workers) as pool:
        for line in proc.stdout:
            line = line.decode()
            if line.startswith("SHARD "):
                _, kind, name, n = line.split()
                pending.append(pool.apply_async(pipeline.process_shard,
                                                ((kind, os.path.join(outdir, name), int(n), False),)))
            elif line.startswith("SUMMARY "):
                summary = json.loads(line[8:])
        err = proc.stderr.read().decode("utf-8", "replace")
        rc = proc.wait()
        if rc != 0 or summary is None:
            raise vcommon.MachineryError("x64drv failed (%d): %s" % (rc, err[-3000:]))
        for p in pending:
            results.append(p.get())
    vcommon.log("c07 rust side: %d shards done at %.1fs" % (len(results), time.time() - t_start))
    errors = [r["error"] for r in results if r["error"]]
    if errors:
        raise vcommon.MachineryError("llvm-mc pipeline: " + errors[0])
    coll = Collector("c07:rs")
    compared = 0
    normalized = 0
    samples = []
    for r in results:
        compared += r["n"]
        normalized += r["normalized"]
        for (method, what), g in r["groups"].items():
            coll.add_group(method, what, g["count"], g["examples"])
        samples.extend(r["samples"])
    # violations found by the driver itself (no decoder needed)
    for m, st in sorted(summary.items()):
        if st["illegal_accepted"]:
            c.violation("c07:rs:%s:accepts-illegal-operand" % m,
                        "%s encodes %d operand tuples outside the instruction's legal range instead of refusing: %s"
                        % (m, st["illegal_accepted"], "; ".join(st["notes"][:3])),
                        {"method": m, "stats": st})
        if st["clobber"]:
            c.violation("c07:rs:%s:label-fixup-clobbers" % m,
                        "%s: resolving the label wrote outside the instruction in %d scenarios: %s"
                        % (m, st["clobber"], "; ".join(st["notes"][:3])), {"method": m, "stats": st})
    coll.report(c, tier, {"assembler": "dora-asm/src/x64.rs", "asm_root": gen_x64.asm_root()})
    encoded = sum(st["encoded"] for st in summary.values())
    if compared != encoded:
        raise vcommon.MachineryError("driver encoded %d cases but %d were compared" % (encoded, compared))
    return {
        "gen": gen, "summary": summary, "compared": compared, "normalized": normalized, "samples": samples,
        "cases": sum(st["cases"] for st in summary.values()),
        "refusals": sum(st["refused"] for st in summary.values()),
        "nontrivial": sum(st["nontrivial"] for st in summary.values()),
        "illegal": sum(st["illegal_accepted"] for st in summary.values()),
    }


def pick_samples(samples, k=8):
    """deterministic spread over methods"""
    seen = set()
    out = []
    for s in sorted(samples, key=lambda s: (s["method"], s["operands"])):
        if s["method"] in seen:
            continue
        seen.add(s["method"])
        out.append(s)
    step = max(1, len(out) // k)
    return out[::step][:k]


def main(tier):
    c = vcommon.Check("C07", tier, "exploration")
    scratch = vcommon.scratch_dir("c07")
    only = os.environ.get("VERIF_C07_METHODS")
    methods = [m for m in only.split(",") if m] if only else None
    try:
        rs = run_rust_side(c, tier, scratch, methods)
        gen = rs["gen"]
        summary = rs["summary"]
        twin = None
        if not os.environ.get("VERIF_C07_SKIP_TWIN"):
            import x64_twin
            twin = x64_twin.run(c, tier, scratch, methods, summary)
        covered_names = [n for n, _, _, _ in gen["covered"]]
        not_run = [n for n in covered_names if n not in summary]
        disps = "{0,1,128,-2^31}" if tier == "quick" else "{0,1,-1,127,128,-128,-129,2^31-1,-2^31}"
        cov = {
            "evaluations": rs["cases"] + (twin["cases"] if twin else 0),
            "distinct_nontrivial": rs["nontrivial"] + (twin["nontrivial"] if twin else 0),
            "rule": "every `pub fn` of `impl AssemblerX64` in the current dora-asm/src/x64.rs that has an entry in the spec "
                    "table is called on a fresh assembler for the FULL product of its operand domains (no sampling): "
                    "Register/XmmRegister 0..15; Address = offset(base,d) + reg(base) + array(base,index,scale,d) + "
                    "index(index,scale,d) + rip(d), base/index 0..15 (index rsp expected to be refused), scale 1/2/4/8, "
                    "d in " + disps + "; Immediate = boundary set of its width incl. values just outside the legal "
                    "range (must be refused); all Condition variants; rounding immediates 0..15,127,128,255; has_avx2 "
                    "off and on" + (" (quick: methods with an Address operand only under the setting that is not refused, "
                                    "and methods with >=3 operands use array scale {1,8} x d {0,128})" if tier == "quick" else "") +
                    "; label methods: backward, forward and 2-forward+1-backward references with "
                    "0,1,126,127,128,129,65536 bytes of padding.  A panic is a refusal (counted, skipped).  Oracle: llvm-mc "
                    "decodes exactly the case's bytes (atomic block) and the text must equal llvm-mc's decoding of its own "
                    "assembly of the requested Intel-syntax text (branches/calls: decoded mnemonic and displacement must hit "
                    "the bound position).  distinct_nontrivial = encoded cases whose bytes differ from the bytes of the "
                    "method's all-zero operand tuple (label methods: from the first scenario).",
            "samples": pick_samples(rs["samples"]) + (twin["samples"] if twin else []),
            "exhaustive": not methods and (twin is None or twin["exhaustive"]),
            "methods_in_source": len(covered_names) + len(gen["uncovered"]) + len(gen["non_instruction"]),
            "methods_covered": len([n for n in covered_names if n in summary]),
            "uncovered": ["%s (%s)" % u for u in gen["uncovered"]] + ["%s (not run)" % n for n in not_run if not methods],
            "non_instruction": gen["non_instruction"],
            "spec_entries_without_method": gen["stale"],
            "condition_variants": len(gen["conditions"]),
            "cases_encoded_and_compared": rs["compared"],
            "refusals": rs["refusals"],
            "printer_aliases_normalized": rs["normalized"],
            "illegal_operands_accepted": rs["illegal"],
            "per_method": {m: {"cases": st["cases"], "encoded": st["encoded"], "refused": st["refused"],
                               "has_avx2_settings": st["modes"]} for m, st in sorted(summary.items())},
            "assembler_source": gen["source"],
        }
        if twin:
            cov["dora_twin"] = twin["coverage"]
        c.coverage = cov
        c.assumptions = [
            "llvm-mc (LLVM 14) is the reference: its decoder for our bytes, its assembler+decoder for the requested text",
            "the spec table (method name -> requested instruction) is written from the meaning of the method names",
            "texts are compared verbatim; only llvm comments, the one-bit shift short form and the signed/unsigned "
            "printing of an N-bit immediate are normalised (on both sides)",
            "`[1*reg+d]` without base and `[reg+d]` print identically in LLVM 14 and are not distinguished",
        ]
        return c.finish()
    finally:
        shutil.rmtree(scratch, ignore_errors=True)


class _Probe:
    """stand-in for vcommon.Check during a replay: collects, writes nothing"""

    def __init__(self):
        self.found = []

    def violation(self, key, what, replay_obj=None, replay_name=None):
        self.found.append((key, what))
        return True


def replay(path):
    """Re-runs the whole operand product of the violating method and reports whether the key shows again."""
    obj = json.load(open(path))
    print(json.dumps(obj.get("first", obj), indent=1)[:3000])
    m, key, tier = obj.get("method"), obj.get("key"), obj.get("tier", "quick")
    if not m:
        return 0
    scratch = vcommon.scratch_dir("c07r")
    probe = _Probe()
    try:
        rs = run_rust_side(probe, tier, scratch, [m])
        if key.startswith("c07:dora:"):
            import x64_twin
            x64_twin.run(probe, tier, scratch, [m], rs["summary"])
    finally:
        shutil.rmtree(scratch, ignore_errors=True)
    for k, what in probe.found:
        print("%s %s :: %s" % ("REPRODUCED" if k == key else "also", k, what))
    return 1 if any(k == key for k, _ in probe.found) else 0
