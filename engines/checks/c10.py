"""C10 -- every place a frame can be suspended has a correct-looking stack map.

Bounded-exhaustive static exploration: a declared finite set of programs (hello world, the optimizing compiler's own
image, the repository's runnable corpus, generated family units) is compiled with `dora compile -S` by both code
generators, for x64 and (optimizing generator) arm64, for the collectors; EVERY function of EVERY emitted .s is analysed
(engines/progspace/stackmaps.py):
  * every call to a compiled function, a runtime-entry trampoline, the safepoint or allocation slow path and every
    indirect call has a stack map at its return offset; every stack map sits at the return offset of some call;
  * every slot of every map is 8-aligned and inside the frame as it is at that call (frame pointer - stack pointer,
    computed by a data flow over the function), interior pairs likewise and disjoint from plain slots;
  * code ranges in .dora.functions are disjoint, ordered, one per function symbol; metadata slices partition their tables;
  * location tables strictly increase, lie inside the function on instruction boundaries, inlined ids/parents valid;
  * no call that can collect is reachable from the entry before the first safepoint poll, and every cycle of the
    control-flow graph contains a poll (C04's modelled poll exists in the code).
Replay: `bin/check C10 --replay <json>` recompiles the recorded source with the recorded flags and re-analyses the one
function (or the file-level relations) -- exit 1 + VIOLATION line if the recorded class of problem is still there.
"""
import collections
import hashlib
import json
import os
import shutil
import subprocess
import sys
import time
from concurrent.futures import ProcessPoolExecutor, wait, FIRST_COMPLETED

import vcommon
sys.path.insert(0, os.path.join(vcommon.VERIF, "engines", "progspace"))
import core  # noqa: E402
import corpus  # noqa: E402
import stackmaps as sm  # noqa: E402

HELLO = 'fn main() { println("hi"); }\n'
BOOTS_SRC = os.path.join(vcommon.REPO, "pkgs", "boots", "boots.dora")
BATCH = 8            # small files per worker task (they share one disassembler process)
IMAGE_PARTS = 4      # processes sharing the analysis of one compiler image (3.5k functions, 1M instructions)
KEYS_PER_CLASS = 6   # distinct function symbols that get a key of their own per (class, sub-class, generator, target)


def cfg_name(job):
    return "%s/%s/%s" % (job["backend"], job["target"], job["gc"] or "swiper")


def compile_cmd(dora, job, out):
    cmd = [dora, "compile", "-S", job["src"], "-o", out]
    if job["backend"] == "cannon":
        cmd.append("--cannon")
    if job["gc"]:
        cmd.append("--gc=%s" % job["gc"])
    if job["target"] == "arm64":
        cmd += ["--target", "arm64"]
    cmd += list(job.get("extra", ()))
    return cmd


def compile_job(dora, job, outdir, timeout):
    out = os.path.join(outdir, "j%d" % job["id"])
    env = dict(os.environ)
    env["RUST_BACKTRACE"] = "0"
    env["DORA_FLAGS"] = "--gc-worker 1"
    try:
        p = core.run_group(compile_cmd(dora, job, out), timeout, env=env, cwd=outdir)
    except subprocess.TimeoutExpired:
        return None, "compile timeout (%ds)" % timeout
    if p.returncode != 0 or not os.path.exists(out + ".s"):
        err = (p.stderr.decode("utf-8", "replace") + p.stdout.decode("utf-8", "replace")).strip()
        return None, "exit %s: %s" % (p.returncode, err[-600:])
    return out + ".s", ""


def function_samples(a, T, arch, limit=2):
    """a few analysed functions written out: call sites with callee and the map recorded at the return offset"""
    res = []
    for e in T["functions"]:
        if e.kind != sm.KIND_OPTIMIZED or e.gc_len < 2:
            continue
        f = a.by_sym[e.start[0]][0]
        calls = sm.calls_x64(f) if arch == "x64" else sm.calls_a64(f)
        rel = {}
        for off, typ, target, _ in f.relocs:
            rel[off] = target
        maps = {}
        for pc, os_, ol, is_, il in T["gcpoints"][e.gc_start:e.gc_start + e.gc_len]:
            maps[pc] = {"slots": T["offsets"][os_:os_ + ol], "interior": T["interior"][is_:is_ + il]}
        depth, _, _ = sm.stack_depths(f, arch)
        sites = []
        for off, ret, how, txt in calls[:6]:
            callee = rel.get(off + 1 if arch == "x64" else off, txt) if how == "direct" else txt
            sites.append({"call_at": off, "returns_to": ret, "callee": callee, "frame_bytes": (depth or {}).get(off),
                          "map": maps.get(ret)})
        if any(s["map"] and s["map"]["slots"] for s in sites):
            res.append({"function": f.sym, "code_bytes": len(f.code), "call_sites": sites,
                        "locations": [list(x) for x in T["locations"][e.loc_start:e.loc_start + min(e.loc_len, 4)]]})
        if len(res) >= limit:
            break
    return res


def select(a, only=None, part=None):
    """the functions of a parsed file to analyse: all, the named ones, or part k of n (index % n == k)"""
    file_level = None
    if part is not None:
        k, n = part
        only = set(f.sym for f in a.funcs if f.index % n == k)
        file_level = (k == 0)
    funcs = a.funcs if only is None else [f for f in a.funcs if f.sym in only]
    return only, funcs, file_level


def analyse_parsed(a, arch, only, file_level, want_samples=False):
    """after disassembly: the checks, plus the digests of non-trivial functions and written-out samples"""
    problems, st = sm.analyse(a, arch, only=only, file_level=file_level)
    digests = set()
    samples = []
    try:
        T = sm.tables(a)
    except sm.ParseError:
        T = None
    if T:
        for e in T["functions"]:
            fl = a.by_sym.get(e.start[0])
            if not fl or e.gc_len == 0 or e.gc_start + e.gc_len > len(T["gcpoints"]):
                continue
            if only is not None and e.start[0] not in only:
                continue
            h = hashlib.blake2b(digest_size=8)
            h.update(arch.encode())
            h.update(bytes(fl[0].code))
            for g in T["gcpoints"][e.gc_start:e.gc_start + e.gc_len]:
                h.update(repr((g[0], T["offsets"][g[1]:g[1] + g[2]], T["interior"][g[3]:g[3] + g[4]])).encode())
            digests.add(h.digest())
        if want_samples:
            samples = function_samples(a, T, arch)
    return problems, st, digests, samples


def analyse_file(path, arch, only=None, want_samples=False, part=None, tmpdir=None):
    """part = (k, n): only the functions with index % n == k (big files are analysed by n processes);
    the file-level relations are checked by part 0."""
    a = sm.parse(path)
    only, funcs, file_level = select(a, only, part)
    sm.disassemble(a, arch, funcs, tmpdir=tmpdir)
    return analyse_parsed(a, arch, only, file_level, want_samples)


def _result(job):
    return {"id": job["id"], "skipped": None, "problems": [], "stats": None, "digests": set(), "samples": [], "error": None,
            "t_compile": 0.0, "t_total": 0.0, "asm": None, "cpu_compile": 0.0, "cpu_llvm": 0.0, "cpu_py": 0.0}


def _cpu(c0, c1):
    return ((c1.children_user - c0.children_user) + (c1.children_system - c0.children_system),
            (c1.user - c0.user) + (c1.system - c0.system))


def work(args):
    """a batch of jobs of one target architecture: every file is compiled to assembly and parsed, ONE disassembler
    process decodes the functions of all of them, then every function of every file is analysed; files are dropped.
    A big job (job["parts"] > 1, alone in its batch) is only compiled here; work_part analyses it in `parts` processes.
    Runs in a worker process."""
    dora, batch, outdir = args
    results = []
    parsed = []
    arch = "x64" if batch[0]["target"] == "x64" else "arm64"
    for job in batch:
        t0 = time.time()
        c0 = os.times()
        res = _result(job)
        results.append(res)
        path, err = compile_job(dora, job, outdir, job.get("timeout", 300))
        res["t_compile"] = res["t_total"] = time.time() - t0
        res["cpu_compile"] = _cpu(c0, os.times())[0]
        if path is None:
            res["skipped"] = err
            continue
        if job.get("parts", 1) > 1:
            res["asm"] = path
            continue
        try:
            a = sm.parse(path)
            parsed.append((job, res, a))
        except sm.ParseError as e:
            res["error"] = "cannot read %s: %s" % (os.path.basename(path), e)
        finally:
            try:
                os.remove(path)
            except OSError:
                pass
    if parsed:
        t0 = time.time()
        c0 = os.times()
        try:
            sm.disassemble(None, arch, [f for _, _, a in parsed for f in a.funcs], tmpdir=outdir)
            err = None
        except sm.ParseError as e:
            err = str(e)
        for job, res, a in parsed:
            if err:
                res["error"] = "disassembly failed: " + err
                continue
            try:
                problems, st, digests, samples = analyse_parsed(a, arch, None, None, job.get("sample", False))
                res["problems"] = [(p.cls, p.sub, p.sym, p.text, p.data) for p in problems]
                res["stats"] = st
                res["digests"] = digests
                res["samples"] = samples
            except sm.ParseError as e:
                res["error"] = "analysis failed: %s" % e
        cl, cp = _cpu(c0, os.times())
        dt = time.time() - t0
        for job, res, a in parsed:
            res["cpu_llvm"] = cl / len(parsed)
            res["cpu_py"] = cp / len(parsed)
            res["t_total"] += dt / len(parsed)
    return results


def work_part(args):
    job, path, k, n, outdir = args
    t0 = time.time()
    c0 = os.times()
    res = _result(job)
    res["part"] = k
    try:
        arch = "x64" if job["target"] == "x64" else "arm64"
        problems, st, digests, samples = analyse_file(path, arch, want_samples=job.get("sample", False), part=(k, n), tmpdir=outdir)
        res["problems"] = [(p.cls, p.sub, p.sym, p.text, p.data) for p in problems]
        res["stats"] = st
        res["digests"] = digests
        res["samples"] = samples
    except sm.ParseError as e:
        res["error"] = "cannot read %s: %s" % (os.path.basename(path), e)
    res["cpu_llvm"], res["cpu_py"] = _cpu(c0, os.times())
    res["t_total"] = time.time() - t0
    return [res]


# ---------------------------------------------------------------------------------------------
# the declared program space

def unit_sources(tier):
    """generated family units (lambdas, trait objects, generics, tuples, structs with references, collections, traps)"""
    import fam_call, fam_data, fam_coll, fam_compose, fam_trap, fam_stdlib
    out = []
    per_unit = 60 if tier == "quick" else 150
    # stdlib: calls of the public functions of pkgs/std with boundary arguments -- pulls a wide part of pkgs/std into the
    # artifact (hello world alone reaches 9 functions); a unit of it that does not compile is skipped with its reason
    for name, mod in (("call", fam_call), ("data", fam_data), ("coll", fam_coll), ("compose", fam_compose), ("stdlib", fam_stdlib)):
        cases = mod.cases(quick=True)
        units = core.pack(cases, per_unit=per_unit)
        if tier == "quick":
            units = units[:1]
        for u in units:
            out.append(("unit:%s:%d" % (name, u.uid), u.source(), len(u.cases)))
    specs = fam_trap.specs(quick=True)
    n = 50 if tier == "quick" else 120
    chunks = [specs[i:i + n] for i in range(0, len(specs), n)]
    if tier == "quick":
        chunks = chunks[:1]
    for ci, chunk in enumerate(chunks):
        text, cases = fam_trap.build_unit(chunk)
        out.append(("unit:trap:%d" % ci, text, len(cases)))
    return out


def corpus_sources(tier):
    seen = set()
    srcs = []
    for e in corpus.entries():
        if e.src in seen:
            continue
        seen.add(e.src)
        srcs.append(e.src)
    srcs.sort()
    if tier == "quick":
        # a fixed 4 % of the corpus, rotated by VERIF_SEED; thorough takes every file
        k = vcommon.seed() % 25
        srcs = srcs[k::25]
    return srcs


CONFIGS = (("cannon", "x64"), ("boots", "x64"), ("boots", "arm64"))
# `--cannon --target arm64` is outside the property (arm64: optimizing generator only) and does not produce an arm64
# artifact: the baseline generator emits host (x64) code for the functions next to arm64 trampolines.


def make_jobs(tier, scratch):
    jobs = []

    def add(label, src, backend, target, gc, extra=(), timeout=300, weight=1, sample=False, must=False, family="corpus", parts=1):
        jobs.append({"id": len(jobs), "label": label, "src": src, "backend": backend, "target": target, "gc": gc,
                     "extra": list(extra), "timeout": timeout, "weight": weight, "sample": sample, "must": must, "family": family,
                     "parts": parts})

    quick = tier == "quick"
    all_gcs = [None, "copy"] if quick else [None, "copy", "sweep", "zero"]
    hello = os.path.join(scratch, "hello.dora")
    open(hello, "w").write(HELLO)
    for be, tg in CONFIGS:
        for gc in (None, "copy", "sweep", "zero"):
            add("hello", hello, be, tg, gc, sample=(gc is None), must=True, family="hello")
    # the optimizing compiler itself (3.5k functions incl. the part of pkgs/std it reaches)
    image_gcs = [None] if quick else [None, "copy"]
    for be, tg in CONFIGS:
        if quick and (be, tg) == ("boots", "x64"):
            continue  # quick: the production image (baseline generator) and the arm64 one, which nothing else can examine
        for gc in image_gcs:
            add("boots-image", BOOTS_SRC, be, tg, gc, extra=["--internal-compile-boots"], timeout=1500, weight=100, must=True, family="boots-image", parts=IMAGE_PARTS)
    if not quick:
        for be, tg in CONFIGS:
            add("boots-image-tests", BOOTS_SRC, be, tg, None, extra=["--internal-compile-boots", "--test"], timeout=1500, weight=100, family="boots-image", parts=IMAGE_PARTS)
    # generated units
    for label, text, ncases in unit_sources(tier):
        p = os.path.join(scratch, label.replace(":", "_") + ".dora")
        open(p, "w").write(text)
        std = label.startswith("unit:stdlib")
        for be, tg in CONFIGS:
            for gc in all_gcs:
                if quick and gc == "copy" and ((be, tg) != ("boots", "x64") or std):
                    continue
                if std and gc in ("sweep", "zero"):
                    continue
                add(label, p, be, tg, gc, timeout=900, weight=10, must=not std, family="units")
    # corpus.  The write barrier is the only collector-dependent code: the baseline generator emits it for every
    # collector, the optimizing one for swiper only (dora-compiler/src/aot_compile.rs needs_write_barrier).  So: swiper for
    # every file and configuration; copy for the optimizing generator on every 2nd file; all four collectors for all
    # configurations on every 16th file, where the claim above is also measured (collector_code_equivalence).
    files = corpus_sources(tier)
    for i, src in enumerate(files):
        label = os.path.relpath(src, corpus.REPO) if src.startswith(corpus.REPO) else src
        for be, tg in CONFIGS:
            if quick:
                gcs = [None]
            elif i % 16 == 0:
                gcs = [None, "copy", "sweep", "zero"]
            else:
                gcs = [None, "copy"] if (be == "boots" and i % 2 == 0) else [None]
            for gc in gcs:
                add(label, src, be, tg, gc, sample=(i == 0 and gc is None))
    return jobs, len(files)


def merge_stats(total, st):
    for k, v in st.items():
        if isinstance(v, dict):
            d = total.setdefault(k, {})
            for kk, vv in v.items():
                d[kk] = d.get(kk, 0) + vv
        elif k == "max_frame":
            total[k] = max(total.get(k, 0), v)
        else:
            total[k] = total.get(k, 0) + v


def replay_object(job, cls, sub, sym, text, data):
    try:
        src_text = open(job["src"], errors="replace").read()
    except OSError:
        src_text = None
    if src_text is not None and len(src_text) > 400000:
        src_text = None  # the compiler image: always available under its path
    return {"source_path": job["src"], "source_text": src_text, "label": job["label"], "backend": job["backend"],
            "target": job["target"], "gc": job["gc"], "extra": job["extra"], "symbol": sym, "class": cls, "sub": sub,
            "what": text, "data": data,
            "command": " ".join(compile_cmd("dora", job, "out"))}


def main(tier):
    c = vcommon.Check("C10", tier, "exploration")
    # nothing is linked or executed here: only the compiler host is needed (the toolchain without debug assertions; the
    # code generators themselves are the same sources, and the optimizing one is a Dora program either way)
    fastdir = vcommon.build_fast(need_boots=True)
    dora = os.path.join(fastdir, "dora")
    scratch = vcommon.scratch_dir("c10")
    try:
        if shutil.which("llvm-mc") is None:
            raise vcommon.MachineryError("llvm-mc not found")
        jobs, nfiles = make_jobs(tier, scratch)
        outdir = os.path.join(scratch, "out")
        os.makedirs(outdir)
        order = sorted(jobs, key=lambda j: (-j["weight"], j["id"]))
        results = {}
        t0 = time.time()
        by_id = dict((j["id"], j) for j in jobs)
        # batches: big and medium jobs alone, small ones in groups of BATCH per (generator, target) -- one disassembler
        # process per batch instead of one per file
        batches = []
        groups = {}
        for j in order:
            if j["weight"] > 1:
                batches.append([j])
            else:
                g = groups.setdefault((j["backend"], j["target"]), [])
                g.append(j)
                if len(g) == BATCH:
                    batches.append(list(g))
                    del g[:]
        batches += [g for g in groups.values() if g]
        with ProcessPoolExecutor(max_workers=vcommon.NCPU) as ex:
            # own queue in front of the executor's: the parts of a big file go to its head as soon as the file exists
            todo = collections.deque((work, (dora, b, outdir)) for b in batches)
            pending = set()
            parts_left = {}
            done = 0
            while pending or todo:
                while todo and len(pending) < vcommon.NCPU + 2:
                    fn, arg = todo.popleft()
                    pending.add(ex.submit(fn, arg))
                finished, pending = wait(pending, return_when=FIRST_COMPLETED)
                for fu in finished:
                    for r in fu.result():
                        j = by_id[r["id"]]
                        if j["weight"] >= 100:
                            vcommon.log("  c10: %s [%s] %s: compile %.0fs, total %.0fs, at %.0fs" % (
                                j["label"], cfg_name(j), "part %s" % r["part"] if "part" in r else "compiled", r["t_compile"], r["t_total"], time.time() - t0))
                        if r.get("asm"):
                            # a big file: analysed in parts, each by its own process
                            n = j["parts"]
                            parts_left[j["id"]] = [n, r]
                            r["stats"] = {}
                            for k in range(n):
                                todo.appendleft((work_part, (j, r["asm"], k, n, outdir)))
                            continue
                        if "part" in r:
                            left = parts_left[j["id"]]
                            acc = left[1]
                            left[0] -= 1
                            acc["error"] = acc["error"] or r["error"]
                            if r["stats"]:
                                merge_stats(acc["stats"], r["stats"])
                            acc["problems"] += r["problems"]
                            acc["digests"] |= r["digests"]
                            acc["samples"] += r["samples"]
                            for k in ("t_total", "cpu_llvm", "cpu_py"):
                                acc[k] += r[k]
                            if left[0] > 0:
                                continue
                            try:
                                os.remove(acc["asm"])
                            except OSError:
                                pass
                            acc["asm"] = None
                            r = acc
                        results[r["id"]] = r
                        done += 1
                        if done % 500 == 0:
                            vcommon.log("  c10: %d/%d files analysed (%.0fs)" % (done, len(jobs), time.time() - t0))

        total = {}
        per_cfg = {}
        per_family = {}
        skipped = []
        digests = set()
        samples = []
        found = []   # (cls, sub, backend, target, sym, text, data, job)
        files_ok = 0
        by_prog = {}
        must_failed = []
        timing = {}
        for j in jobs:
            r = results[j["id"]]
            if r["error"]:
                # the .s could not even be read by the analysis: that is a finding about the artifact's structure only
                # if the format is the expected one; treat as machinery failure so that it is never silently dropped
                raise vcommon.MachineryError("%s [%s]: %s" % (j["label"], cfg_name(j), r["error"]))
            if r["skipped"]:
                if j["must"]:
                    must_failed.append("%s [%s] does not compile: %s" % (j["label"], cfg_name(j), r["skipped"][-400:]))
                skipped.append({"file": j["label"], "config": cfg_name(j), "why": r["skipped"][-200:]})
                continue
            files_ok += 1
            tm = timing.setdefault("%s %s/%s" % (j["family"], j["backend"], j["target"]), [0, 0.0, 0.0, 0.0, 0.0, 0.0])
            tm[0] += 1
            tm[1] += r.get("t_compile", 0)
            tm[2] += r.get("t_total", 0) - r.get("t_compile", 0)
            tm[3] += r.get("cpu_compile", 0)
            tm[4] += r.get("cpu_llvm", 0)
            tm[5] += r.get("cpu_py", 0)
            merge_stats(total, r["stats"])
            pc = per_cfg.setdefault(cfg_name(j), {"files": 0, "functions": 0, "call_sites_required": 0, "gcpoints": 0})
            pc["files"] += 1
            for k in ("functions", "call_sites_required", "gcpoints"):
                pc[k] += r["stats"][k]
            pf = per_family.setdefault(j["family"], {"files": 0, "functions": 0})
            pf["files"] += 1
            pf["functions"] += r["stats"]["functions"]
            digests |= r["digests"]
            by_prog.setdefault((j["label"], j["backend"], j["target"]), {})[j["gc"] or "swiper"] = r["digests"]
            for s in r["samples"]:
                if len(samples) < 6:
                    samples.append({"file": j["label"], "config": cfg_name(j), **s})
            for cls, sub, sym, text, data in r["problems"]:
                found.append((cls, sub, j["backend"], j["target"], sym or "-", text, data, j))

        # files that compile with one configuration only: listed, never silently dropped
        # ---- violations: narrow, stable keys --------------------------------------------------------
        groups = {}
        for cls, sub, be, tg, sym, text, data, j in found:
            groups.setdefault((cls, sub, be, tg), {}).setdefault(sym, []).append((text, data, j))
        for (cls, sub, be, tg) in sorted(groups):
            syms = groups[(cls, sub, be, tg)]
            names = sorted(syms)
            n_sites = sum(len(v) for v in syms.values())
            for i, sym in enumerate(names):
                text, data, j = syms[sym][0]
                if i < KEYS_PER_CLASS:
                    key = "c10:%s:%s:%s:%s:%s" % (cls, sub, be, tg, sym)
                else:
                    key = "c10:%s:%s:%s:%s:others" % (cls, sub, be, tg)
                what = "%s [%s, %s]: %s: %s  (%d reports of this class in %d functions)" % (
                    j["label"], cfg_name(j), sym, cls, text, n_sites, len(names))
                c.violation(key, what, replay_object(j, cls, sub, None if sym == "-" else sym, text, data))

        # measured: which collectors lead to the same code + stack maps (only programs compiled for all four)
        equiv = {"programs_x_configurations": 0, "copy=sweep=zero": 0, "swiper=copy": 0}
        for (label, be, tg), d in by_prog.items():
            if len(d) == 4:
                equiv["programs_x_configurations"] += 1
                equiv["copy=sweep=zero"] += int(d["copy"] == d["sweep"] == d["zero"])
                equiv["swiper=copy"] += int(d["swiper"] == d["copy"])
        if must_failed and not c.violations:
            # programs that must compile (hello world, the compiler image, generated units) did not, and nothing that was
            # analysed explains it: the toolchain is broken in a way this check does not judge
            raise vcommon.MachineryError("; ".join(must_failed[:3]))
        for k, (n, tc, ta, cc, cl, cp) in sorted(timing.items()):
            vcommon.log("  c10: %-28s %4d files: wall compile %.0fs analysis %.0fs | cpu compile %.0fs llvm-mc %.0fs python %.0fs" % (k, n, tc, ta, cc, cl, cp))
        evaluations = (total.get("functions", 0) + total.get("call_sites_required", 0) + total.get("call_sites_optional", 0)
                       + total.get("gcpoints", 0) + total.get("locations", 0))
        c.coverage = {
            "evaluations": evaluations,
            "distinct_nontrivial": len(digests),
            "rule": "space = every function of every .s emitted for: hello world; the optimizing compiler's image (pkgs/boots + the "
                    "part of pkgs/std it reaches%s); %s of test/rt (%d files); generated units of the families call, data, coll, compose, trap, stdlib "
                    "(lambdas, trait objects, generics, tuples, structs with references, collections, every trap kind, the public functions of pkgs/std) x {cannon x64, boots x64, "
                    "boots arm64} x collectors %s (corpus: swiper%s). Every function of every file is disassembled (llvm-mc, linear sweep "
                    "cross-checked against the call relocations) and checked; nothing is sampled inside a file. evaluations = functions + call "
                    "sites + stack maps + location entries examined. distinct_nontrivial = distinct (architecture, code bytes, stack maps) of "
                    "functions that own at least one stack map, counted by hash over all files." % (
                        "" if tier == "quick" else "; also its --test image", "a fixed 4 % (rotated by VERIF_SEED)" if tier == "quick" else "every file",
                        nfiles, "swiper, copy" if tier == "quick" else "swiper, copy, sweep, zero",
                        " only in quick" if tier == "quick" else ", copy for the optimizing generator on every 2nd file, all four collectors for all configurations on every 16th file"),
            "samples": samples,
            "exhaustive": True,
            "programs": nfiles,
            "files_analysed": files_ok,
            "files_skipped": len(skipped),
            "skipped": skipped[:60],
            "required_programs_that_did_not_compile": must_failed[:10],
            "skipped_why": "compile -S failed for this file/configuration (programs that are expected not to compile, need extra packages, or hit a "
                           "compiler limit); the property speaks about emitted artifacts only",
            "per_configuration": per_cfg,
            "collector_code_equivalence": equiv,
            "per_family": per_family,
            "reports_before_grouping": len(found),
        }
        for k, v in total.items():
            c.coverage[k] = v
        c.assumptions = [
            "llvm-mc decodes x64/aarch64 the way the processor does; the linear sweep is validated per function against the call relocations "
            "(every relocated call must be a decoded call and vice versa) and against undecodable bytes",
            "calls that cannot return into the frame (trap, stack-overflow, unreachable, fatal-error trampolines) and the write-barrier slow "
            "path (cannot collect) may or may not carry a map; counted under call_sites_optional / optional_with_map",
            "a map that is present but lists too few slots looks correct here; that is C03's subject",
            "stack-passed arguments listed by the optimizing generator at fp+16.. are accepted only when the function itself reads that slot",
            "`--cannon --target arm64` is not an arm64 artifact (host code next to arm64 trampolines) and is outside the property",
        ]
        return c.finish()
    finally:
        shutil.rmtree(scratch, ignore_errors=True)


def replay(path):
    r = json.load(open(path))
    fastdir = vcommon.build_fast(need_boots=True)
    scratch = vcommon.scratch_dir("c10r")
    try:
        src = r["source_path"]
        if r.get("source_text") is not None and (not os.path.exists(src) or src.startswith(os.environ.get("VERIF_SCRATCH", "/var/tmp"))):
            src = os.path.join(scratch, "replay.dora")
            open(src, "w").write(r["source_text"])
        job = {"id": 0, "src": src, "backend": r["backend"], "target": r["target"], "gc": r["gc"], "extra": r.get("extra", [])}
        print("replaying: %s" % " ".join(compile_cmd("dora", job, "out")))
        asm, err = compile_job(os.path.join(fastdir, "dora"), job, scratch, 1500)
        if asm is None:
            print("compile failed: " + err)
            return 2
        arch = "x64" if r["target"] == "x64" else "arm64"
        sym = r.get("symbol")
        file_level = sym is None or r["class"] in ("function-table", "code-range", "metadata-slices", "metadata-malformed")
        problems, st, _, _ = analyse_file(asm, arch, only=None if file_level else {sym}, tmpdir=scratch)
        same = [p for p in problems if p.cls == r["class"] and (sym is None or p.sym == sym)]
        print("function %s: %d problem(s) now, %d of class %s" % (sym, len(problems), len(same), r["class"]))
        for p in same[:10]:
            print("  %s/%s %s: %s" % (p.cls, p.sub, p.sym, p.text))
        if same:
            print("VIOLATION property=C10 replay=%s" % path)
            print("  key=%s :: %s" % (r.get("key"), same[0].text))
            return 1
        print("no longer reproduces")
        return 0
    finally:
        shutil.rmtree(scratch, ignore_errors=True)
