"""C03 -- garbage collection is invisible to programs and reclaims garbage.

Four enumerations, all on real executables produced by the tool chain under test:
 A  object-graph enumerator (written in Dora, engines/progspace/fam_gcgraph.py): every graph of n nodes x every
    root subset x collection plans, per carrier (how references are stored) x root mode (where roots live) x
    code generator x collector x run-time configuration; self-checking + checksum recomputed here in Python.
 B  collection-point enumeration (the crash-point analogue): for allocation-heavy programs, a forced minor /
    full collection is injected before the k-th allocation for EVERY k (and every pair k1<k2 for the smaller
    ones), through the cfg-gated hook in Gc::alloc; output and status must equal the undisturbed run.
 C  configuration matrix over the runnable corpus: collector x stress mode x TLAB x workers x heap sizes x
    code generator; all configurations of a program must agree with each other and with its directives.
 D  reclamation: programs whose live data stays tiny while they allocate many times the heap must finish.
"""
import json
import os
import shutil
import sys
import time

import vcommon
sys.path.insert(0, os.path.join(vcommon.VERIF, "engines", "progspace"))
import core  # noqa: E402
import corpus  # noqa: E402
import fam_gcgraph  # noqa: E402
import fam_gcprogs  # noqa: E402

# The debug-assertion runtime re-protects every page of the young generation / from-space at each collection
# (two system calls per page), so enumeration runs use the smallest heaps the collectors accept; larger heaps,
# more workers and the defaults are exercised on small code ranges.
SMALL = "--max-heap-size 4M --gc-young-size 256K --gc-worker 1"


def gname(gc):
    return gc or "swiper"


def merge_flags(base, own):
    """run-time options may be given only once: the program's own `//= runtime-args` win over the configuration's"""
    import shlex
    order = []
    vals = {}
    for text in (base, own):
        toks = shlex.split(text)
        i = 0
        while i < len(toks):
            t = toks[i]
            if "=" in t:
                k, v = t.split("=", 1)
            elif i + 1 < len(toks) and not toks[i + 1].startswith("--"):
                k, v = t, toks[i + 1]
                i += 1
            else:
                k, v = t, None
            if k not in vals:
                order.append(k)
            vals[k] = v
            i += 1
    return " ".join(k if vals[k] is None else "%s %s" % (k, vals[k]) for k in order)


# ------------------------------------------------------------------------------------------------
# reference checksum of the graph enumerator (pure integer computation, mirrors fam_gcgraph.MAIN)

def expected_reach(n, code, roots):
    seen = [bool((roots >> i) & 1) for i in range(n)]
    changed = True
    while changed:
        changed = False
        for i in range(n):
            if seen[i]:
                for s in range(2):
                    d = (code // (n + 1) ** (2 * i + s)) % (n + 1)
                    if d > 0 and not seen[d - 1]:
                        seen[d - 1] = True
                        changed = True
    return sum(1 << i for i in range(n) if seen[i])


def ref_output(n, lo, hi, allplans):
    hi = min(hi, fam_gcgraph.total_codes(n))
    nplans = 3 ** (n + 2)
    graphs = 0
    checksum = 0
    collections = 0

    def plan_collections(plan):
        k = 0
        p = plan
        for _ in range(n + 2):
            if p % 3:
                k += 1
            p //= 3
        return k + 1   # + the final gc(2 - plan % 2); the forced minors of phase 2 are not counted by the program
    alt = 0
    for i in range(n + 2):
        alt = alt * 3 + 1 + i % 2
    plans = list(range(nplans)) if allplans else [0, (nplans - 1) // 2, nplans - 1, alt]
    for code in range(lo, hi):
        for roots in range(1, 2 ** n):
            r = expected_reach(n, code, roots)
            for plan in plans:
                checksum = (checksum * 31 + r + 1) % 1000000007
                graphs += 1
                collections += plan_collections(plan)
    return "graphs=%d checksum=%d collections=%d fails=0" % (graphs, checksum, collections)


# ------------------------------------------------------------------------------------------------

class Phase:
    def __init__(self, c):
        self.c = c
        self.evals = 0
        self.distinct = 0
        self.slow = []


def compile_all(tc, items, workers=None, libdirs=None):
    """items: list of (key, src, backend, gc) -> {key: exe or None}, errors.
    With libdirs = {label: runtime lib dir} every item is compiled once and linked per label;
    the result maps key -> {label: exe}."""
    def work(it):
        key, src, be, gc = it
        exe = os.path.splitext(src)[0] + "-%s-%s" % (be, gname(gc))
        if libdirs:
            outs = {d: exe + "-" + label for label, d in libdirs.items()}
            ok, err = tc.compile_link_many(src, outs, be, gc=gc, timeout=900)
            return key, ({label: exe + "-" + label for label in libdirs} if ok else None), err
        ok, err = tc.compile(src, exe, be, gc=gc, timeout=900)
        return key, (exe if ok else None), err
    out = {}
    errs = {}
    for key, exe, err in core.parallel(work, items, workers=workers):
        out[key] = exe
        if exe is None:
            errs[key] = err
    return out, errs


def run_checked(exe, args, flags, env=None, timeout=300):
    return core.run_exe(exe, args, flags=flags, timeout=timeout, env=env)   # run_exe retries a timed-out run once with 5x the limit


# ------------------------------------------------------------------------------------------------
# Phase A

def phase_graphs(c, tc, scratch, tier, libdirs):
    quick = tier == "quick"
    d = os.path.join(scratch, "graphs")
    os.makedirs(d)
    combos = [(car, rm) for car in fam_gcgraph.CARRIERS for rm in fam_gcgraph.ROOTMODES]
    if quick:
        # every carrier with roots in locals (stack maps), plus the class carrier with roots in an array and in globals
        combos = [(car, rm) for car, rm in combos if rm == "locals" or car == "class"]
    srcs = {}
    for car, rm in combos:
        p = os.path.join(d, "%s-%s.dora" % (car, rm))
        open(p, "w").write(fam_gcgraph.source(car, rm))
        srcs[(car, rm)] = p
    items = []
    for (car, rm), p in srcs.items():
        for be in ("cannon", "boots"):
            gcs = ["copy", None, "sweep"]
            if (car, rm) == ("class", "array"):
                gcs.append("zero")
            for gc in gcs:
                items.append(((car, rm, be, gc), p, be, gc))
    t0 = time.time()
    exes, errs = compile_all(tc, items, libdirs=libdirs)
    vcommon.log("graph enumerators: %d compilations in %.1fs" % (len(items), time.time() - t0))
    for key, err in errs.items():
        c.violation("c03:graph-compile-failed:%s:%s" % (key[0], key[2]), "graph enumerator %s does not compile: %s" % (key, err[-300:]),
                    {"key": list(map(str, key)), "stderr": err[-3000:], "source": open(srcs[(key[0], key[1])]).read()})
    # Two runtimes.  "debug": debug assertions on -- from-space / young pages are protected after every collection, so a
    # stale reference faults at once, but every collection costs system calls.  "fast": the release runtime, used with
    # --gc-verify (the collector's own heap verifier) for the bulk of the moving-collector enumeration.
    runs = []
    total3 = fam_gcgraph.total_codes(3)
    for key, pair in exes.items():
        if pair is None:
            continue
        car, rm, be, gc = key
        dbg, fst = pair["debug"], pair["fast"]
        if gc == "zero":
            runs.append((key, dbg, (2, 0, 81, 0), "--max-heap-size 512M", "debug"))
            continue
        if gc == "sweep":
            # the non-moving collector makes no system calls per collection: everything on the debug runtime
            runs.append((key, dbg, (1, 0, 4, 1), SMALL, "debug"))
            runs.append((key, dbg, (2, 0, 81, 1), SMALL, "debug"))
            runs.append((key, dbg, (2, 0, 27, 0), SMALL + " --disable-tlab --gc-verify", "debug"))
            runs.append((key, dbg, (2, 27, 54, 0), SMALL + " --gc-stress", "debug"))
            if rm == "locals" or not quick:
                for sh in range(4):
                    runs.append((key, dbg, (3, sh * 1024, (sh + 1) * 1024, 0), SMALL, "debug"))
            if not quick and car == "class" and rm == "locals":
                for sh in range(64):
                    runs.append((key, dbg, (3, sh * 64, (sh + 1) * 64, 1), SMALL, "debug"))
            continue
        if gc == "copy":
            runs.append((key, dbg, (1, 0, 4, 1), SMALL, "debug"))
            runs.append((key, dbg, (2, 0, 81, 0), SMALL, "debug"))
            runs.append((key, dbg, (2, 0, 9 if quick else 27, 0), SMALL + " --gc-stress --disable-tlab", "debug"))
            runs.append((key, fst, (2, 0, 81, 1), SMALL + " --gc-verify", "fast"))
            runs.append((key, fst, (2, 27, 54, 0), SMALL + " --gc-stress-minor", "fast"))
            for sh in range(4):
                runs.append((key, fst, (3, sh * 1024, (sh + 1) * 1024, 0), SMALL, "fast"))
            if not quick:
                for sh in range(16):
                    runs.append((key, dbg, (3, sh * 256, (sh + 1) * 256, 0), SMALL, "debug"))
                if car == "class" and rm == "locals":
                    for sh in range(64):
                        runs.append((key, fst, (3, sh * 64, (sh + 1) * 64, 1), SMALL, "fast"))
            continue
        # the generational collector.  Its collections cost a few futex hand-offs and page operations each and do not
        # speed up when run in parallel on this machine (~7 000 collections/s machine-wide), which bounds the quick tier.
        full2 = (not quick) or (car == "class" and rm == "locals")
        runs.append((key, fst, (1, 0, 4, 1), SMALL + " --gc-verify", "fast"))
        runs.append((key, fst, (2, 0, 81 if full2 else 18, 0 if quick else 1), SMALL + " --gc-verify", "fast"))
        runs.append((key, fst, (2, 27, 30 if quick else 54, 0), SMALL + " --gc-stress --gc-verify", "fast"))
        runs.append((key, fst, (2, 30, 32 if quick else 54, 0), SMALL + " --gc-stress-minor --disable-tlab --gc-verify", "fast"))
        runs.append((key, dbg, (1, 0, 4, 0), SMALL, "debug"))
        runs.append((key, dbg, (2, 0, 3 if quick else 81, 0), SMALL, "debug"))
        if (rm == "locals" and (car == "class" or not quick)) or not quick:
            runs.append((key, fst, (2, 54, 57, 0), "--max-heap-size 32M --gc-young-size 2M --gc-worker 2 --gc-verify", "fast"))
            runs.append((key, fst, (2, 60, 63, 0), "--max-heap-size 8M --gc-young-size 1M --gc-worker 1 --gc-stress-minor", "fast"))
            runs.append((key, fst, (1, 0, 1, 0), "--gc-worker 8", "fast"))
            runs.append((key, dbg, (2, 63, 64, 0), SMALL + " --gc-stress --gc-verify", "debug"))
        if not quick and car in ("class", "nested") and rm == "locals":
            for sh in range(16):
                runs.append((key, fst, (3, sh * 256, (sh + 1) * 256, 0), SMALL + " --gc-verify", "fast"))
    refs = {}

    def work(run):
        key, exe, args, flags, rtname = run
        if args not in refs:
            refs[args] = ref_output(*args)
        t0 = time.time()
        r = run_checked(exe, args, flags, timeout=600)
        r["secs"] = time.time() - t0
        return run, r
    results = core.parallel(work, runs)
    cost = {}
    for (key, exe, args, flags, rtname), r in results:
        k = "%s/%s n=%d %s" % (gname(key[3]), rtname, args[0], flags.replace(SMALL, "SMALL"))
        cost[k] = round(cost.get(k, 0) + r["secs"], 1)
    vcommon.log("graph-run seconds by kind: " + json.dumps(dict(sorted(cost.items(), key=lambda kv: -kv[1])[:12])))
    graphs = 0
    shapes = set()
    for (key, exe, args, flags, rtname), r in results:
        car, rm, be, gc = key
        want = refs[args]
        got = r["out"].strip().splitlines()[-1:] or [""]
        ok = (not r["timeout"]) and r["signal"] is None and r["code"] == 0 and got[0] == want
        try:
            graphs += int(want.split()[0].split("=")[1])
        except Exception:
            pass
        shapes.add((car, rm, be, gname(gc), args[0], flags, rtname))
        if not ok:
            what = "%s / %r, expected %r" % (core.ending(r), r["out"].strip()[-300:], want)
            c.violation("c03:graphs:%s:%s:%s:%s" % (car, rm, be, gname(gc)),
                        "graph enumerator carrier=%s roots=%s [%s, gc=%s, %s runtime, flags=%s] n=%d codes %d..%d: %s %s" % (
                            car, rm, be, gname(gc), rtname, flags, args[0], args[1], args[2], what, core.first_err_line(r)),
                        {"phase": "graphs", "carrier": car, "rootmode": rm, "backend": be, "gc": gc, "args": list(args), "flags": flags,
                         "runtime": rtname,
                         "stdout": r["out"][-2000:], "stderr": r["err"][-3000:], "expected": want})
    return {"runs": len(runs), "graphs_checked": graphs, "configurations": len(shapes),
            "carriers": list(fam_gcgraph.CARRIERS), "rootmodes": list(fam_gcgraph.ROOTMODES)}


# ------------------------------------------------------------------------------------------------
# Phase B

def phase_inject(c, tc_inj, scratch, tier):
    quick = tier == "quick"
    d = os.path.join(scratch, "inject")
    os.makedirs(d)
    progs = fam_gcprogs.all_programs()
    if quick:
        progs = {k: v for k, v in progs.items() if k in ("list", "values", "old2young", "enums")}
    items = []
    srcs = {}
    collectors = ["copy", None, "sweep"]
    for name, text in progs.items():
        p = os.path.join(d, name + ".dora")
        open(p, "w").write(text)
        srcs[name] = p
        for be in ("cannon", "boots"):
            for gc in collectors:
                items.append(((name, be, gc), p, be, gc))
    exes, errs = compile_all(tc_inj, items)
    for key, err in errs.items():
        c.violation("c03:inject-compile-failed:%s:%s" % (key[0], key[1]), "%s does not compile: %s" % (key, err[-300:]),
                    {"key": list(map(str, key)), "stderr": err[-3000:], "source": progs[key[0]]})
    base_flags = "--disable-tlab --gc-verify " + SMALL
    # baselines: allocation count and undisturbed output
    def base(key):
        exe = exes[key]
        cnt = exe + ".count"
        r = run_checked(exe, [], base_flags, env={"DORA_VERIF_ALLOC_COUNT": cnt})
        n = None
        if os.path.exists(cnt):
            n = int(open(cnt).read().strip())
        r2 = run_checked(exe, [], SMALL)      # TLAB on, no verification
        return key, r, n, r2
    keys = [k for k, e in exes.items() if e]
    bases = {}
    ref_out = {}
    for key, r, n, r2 in core.parallel(base, keys):
        name, be, gc = key
        bases[key] = (r, n)
        for rr, label in ((r, "tlab off"), (r2, "tlab on")):
            if rr["timeout"] or rr["signal"] is not None or rr["code"] != 0:
                c.violation("c03:inject-baseline:%s:%s:%s" % (name, be, gname(gc)), "%s [%s, gc=%s, %s] ends with %s %s" % (
                    name, be, gname(gc), label, core.ending(rr), core.first_err_line(rr)),
                    {"phase": "inject", "program": name, "backend": be, "gc": gc, "source": progs[name], "stderr": rr["err"][-3000:]})
            else:
                ref_out.setdefault(name, {}).setdefault(rr["out"], []).append((be, gname(gc), label))
    for name, outs in ref_out.items():
        if len(outs) > 1:
            c.violation("c03:inject-configs-disagree:%s" % name, "%s prints different results under different collectors/generators: %s" % (
                name, {k[:60]: v[:3] for k, v in outs.items()}), {"phase": "inject", "program": name, "source": progs[name],
                                                                   "outputs": {k: v for k, v in outs.items()}})
    jobs = []
    pair_limit = 16 if quick else 40
    for key in keys:
        r, n = bases[key]
        if n is None or r["code"] != 0:
            continue
        for k in range(1, n + 1):
            for kind in ("minor", "full"):
                jobs.append((key, "%d:%s" % (k, kind)))
        if n <= pair_limit:
            for k1 in range(1, n + 1):
                for k2 in range(k1 + 1, n + 1):
                    jobs.append((key, "%d:minor,%d:minor" % (k1, k2)))
                    if not quick:
                        jobs.append((key, "%d:minor,%d:full" % (k1, k2)))
        elif not quick:
            # two minors promote: for larger programs the second point is enumerated at a fixed distance
            for k1 in range(1, n):
                for dist in (1, 2, 7):
                    if k1 + dist <= n:
                        jobs.append((key, "%d:minor,%d:minor" % (k1, k1 + dist)))

    def work(job):
        key, spec = job
        r = run_checked(exes[key], [], base_flags, env={"DORA_VERIF_GC_AT": spec}, timeout=120)
        return job, r
    t0 = time.time()
    results = core.parallel(work, jobs)
    points = 0
    for (key, spec), r in results:
        name, be, gc = key
        r0, n = bases[key]
        points += 1
        if r["timeout"] or r["signal"] is not None or r["code"] != r0["code"] or r["out"] != r0["out"]:
            kinds = "+".join(x.split(":")[1] for x in spec.split(","))
            c.violation("c03:collection-point:%s:%s:%s:%s" % (name, be, gname(gc), kinds),
                        "%s [%s, gc=%s]: a %s collection before allocation %s of %d changes the run: %s %r instead of %r (%s)" % (
                            name, be, gname(gc), kinds, spec, n, core.ending(r), r["out"].strip()[-120:], r0["out"].strip()[-120:],
                            core.first_err_line(r)),
                        {"phase": "inject", "program": name, "backend": be, "gc": gc, "spec": spec, "flags": base_flags,
                         "source": progs[name], "stdout": r["out"][-2000:], "stderr": r["err"][-3000:], "expected_stdout": r0["out"]})
    return {"programs": len(progs), "executables": len(keys), "collection_points_enumerated": points,
            "allocations_per_executable": {"%s/%s/%s" % (k[0], k[1], gname(k[2])): bases[k][1] for k in keys},
            "pairs_for_executables_with_at_most": pair_limit, "seconds": round(time.time() - t0, 1)}


# ------------------------------------------------------------------------------------------------
# Phase C

HEAP_SENSITIVE = ("oom", "stack", "heap", "snapshot", "large", "memory")


def corpus_entries(tier):
    out = []
    for e in corpus.entries():
        if e.ignore or e.flaky or e.nondet or e.args:
            continue
        if e.expect_fail and e.expect_code in (106, 107):
            continue
        if any(a.startswith("--gc") and "=" in a for a in e.compile_args) and False:
            continue
        if any(x in e.rel for x in ("/bench/", "/snapshot/", "/whiteboard/", "/io/", "/thread/")):
            continue
        if "force_collect" in e.text or "/gc/" in e.rel or "/swiper/" in e.rel:
            e.gcish = True
        else:
            e.gcish = False
        out.append(e)
    gcish = [e for e in out if e.gcish]
    rest = [e for e in out if not e.gcish]
    if tier == "quick":
        stride = 200
        rest = rest[vcommon.seed() % stride::stride]
        gcish = gcish[vcommon.seed() % 10::10]
    else:
        rest = rest[::4]
    return gcish + rest


def phase_corpus(c, tc, scratch, tier):
    quick = tier == "quick"
    ents = corpus_entries(tier)
    d = os.path.join(scratch, "corpus")
    os.makedirs(d)
    items = []
    for i, e in enumerate(ents):
        src = os.path.join(d, "p%d.dora" % i)
        shutil.copy(e.src, src)
        extra_gc = [a for a in e.compile_args if a.startswith("--gc")]
        other = [a for a in e.compile_args if not a.startswith("--gc") and a not in ("--boots", "--cannon")]
        e.skip = bool(other)
        if e.skip:
            continue
        for be in ("cannon", "boots"):
            if e.only_config == "boots" and be == "cannon":
                continue
            for gc in (["copy", None] if quick else ["zero", "copy", "sweep", None]):
                items.append(((i, be, gc), src, be, gc))
    exes, errs = compile_all(tc, items)
    nocompile = 0
    for key, err in errs.items():
        nocompile += 1   # whether corpus programs compile is C02/C05's subject
    flagsets = {
        "copy": [SMALL, SMALL + " --gc-stress --disable-tlab", SMALL + " --gc-verify"],
        "sweep": [SMALL, SMALL + " --gc-stress", SMALL + " --disable-tlab --gc-verify"],
        "zero": ["--max-heap-size 512M"],
        "swiper": [SMALL, SMALL + " --gc-stress --gc-verify", SMALL + " --gc-stress-minor --disable-tlab --gc-verify",
                   "--max-heap-size 16M --gc-young-size 1M --gc-worker 2"] + ([] if quick else ["--gc-worker 8 --gc-verify"]),
    }
    runs = []
    for key, exe in exes.items():
        if exe is None:
            continue
        i, be, gc = key
        e = ents[i]
        own = " ".join(a for a in e.runtime_args)
        for fl in flagsets[gname(gc)]:
            runs.append((key, exe, merge_flags(fl, own)))

    def work(run):
        key, exe, flags = run
        r = core.run_exe(exe, [], flags=flags, timeout=60 if quick else 180, cwd=vcommon.REPO)
        return run, r
    results = core.parallel(work, runs)
    by_prog = {}
    slow = []
    for (key, exe, flags), r in results:
        i, be, gc = key
        if r["timeout"]:
            slow.append("%s [%s %s %s]" % (ents[i].rel, be, gname(gc), flags))
            continue
        by_prog.setdefault(i, []).append((be, gname(gc), flags, r))
    evals = 0
    for i, lst in by_prog.items():
        e = ents[i]
        evals += len(lst)
        # reference behaviour: directives + majority is NOT used; all configurations must agree pairwise
        groups = {}
        for be, g, flags, r in lst:
            if r["signal"] is not None or "panicked at" in r["err"]:
                c.violation("c03:corpus-crash:%s:%s" % (be, g), "%s [%s, gc=%s, %s] crashed: %s %s" % (e.rel, be, g, flags, core.ending(r), core.first_err_line(r)),
                            {"phase": "corpus", "file": e.rel, "backend": be, "gc": g, "flags": flags, "stderr": r["err"][-3000:]})
                continue
            groups.setdefault((r["out"], r["code"]), []).append((be, g, flags))
        if len(groups) > 1:
            desc = sorted(groups.items(), key=lambda kv: -len(kv[1]))
            minority = desc[-1]
            c.violation("c03:corpus-differs:%s:%s" % (minority[1][0][0], minority[1][0][1]),
                        "%s: output/status depends on the collector configuration: %s give exit %s %r, %d other configurations give exit %s %r" % (
                            e.rel, minority[1][:2], minority[0][1], minority[0][0][-80:], len(desc[0][1]), desc[0][0][1], desc[0][0][0][-80:]),
                        {"phase": "corpus", "file": e.rel, "groups": [{"out": k[0][-500:], "code": k[1], "configs": v} for k, v in desc]})
        elif groups:
            (out, code), _ = next(iter(groups.items()))
            want = e.expect_code if e.expect_fail else 0
            if e.expect_fail and want is None:
                want = code
            if code != want or (e.stdout is not None and out != e.stdout):
                c.violation("c03:corpus-directive:%s" % e.rel, "%s: all configurations give exit %s, the test's directives say %s" % (e.rel, code, want),
                            {"phase": "corpus", "file": e.rel, "code": code, "stdout": out[-500:]})
    return {"programs": len(by_prog), "runs": evals, "not_compiled": nocompile, "inconclusive_slow": slow[:40],
            "inconclusive_slow_count": len(slow)}


# ------------------------------------------------------------------------------------------------
# Phase D

RECLAIM = r"""
use std::string::Stringable;
class Box { a: Int64, b: Int64 }
fn main() {
  let elems = std::argv(0i32).to_int64().get_or_panic();
  let rounds = std::argv(1i32).to_int64().get_or_panic();
  let live = Vec[Array[Int64]]::new();
  let mut i = 0;
  let mut sum = 0;
  while i < rounds {
    let a = Array[Int64]::fill(elems, i);
    let b = Box(a = i, b = a.size());
    if i % 64 == 0 { if live.size() >= 4 { live.clear(); } live.push(a); }
    sum = sum + a(elems - 1) + b.b;
    i = i + 1;
  }
  println("done ${sum} ${live.size() > 0}");
}
"""


def phase_reclaim(c, tc, scratch, tier):
    quick = tier == "quick"
    d = os.path.join(scratch, "reclaim")
    os.makedirs(d)
    src = os.path.join(d, "reclaim.dora")
    open(src, "w").write(RECLAIM)
    items = [((be, gc), src, be, gc) for be in ("cannon", "boots") for gc in ("copy", "sweep", None)]
    exes, errs = compile_all(tc, items)
    for key, err in errs.items():
        c.violation("c03:reclaim-compile-failed:%s" % key[0], "reclamation program does not compile: %s" % err[-300:], {"stderr": err[-2000:]})
    # element counts around the TLAB-object and large-object thresholds (bytes = 8 * elems + header)
    sizes = [1, 16, 255, 1020, 2040, 2046, 2047, 2048, 2050, 4094, 4096, 8190, 16380, 16383, 16384, 16390, 40000]
    if quick:
        sizes = [1, 2046, 2048, 16383, 16384]
    runs = []
    for key, exe in exes.items():
        if exe is None:
            continue
        for elems in sizes:
            total_bytes = 24 * (1 << 20) * (8 if not quick else 3)     # >= 3x the 24M heap
            rounds = max(200, total_bytes // (8 * elems + 16))
            rounds = min(rounds, 400000 if quick else 2000000)
            for flags in ("--max-heap-size 24M --gc-worker 1", "--max-heap-size 24M --gc-young-size 2M --gc-worker 2") if key[1] is None else ("--max-heap-size 24M",):
                runs.append((key, exe, elems, rounds, flags))

    def work(run):
        key, exe, elems, rounds, flags = run
        return run, run_checked(exe, [elems, rounds], flags, timeout=300)
    n = 0
    for (key, exe, elems, rounds, flags), r in core.parallel(work, runs):
        n += 1
        exp_sum = sum((i + elems) for i in range(rounds)) if rounds < 3000000 else None
        ok = r["code"] == 0 and r["out"].startswith("done ") and (exp_sum is None or r["out"].split()[1] == str(exp_sum))
        if not ok:
            c.violation("c03:reclaim:%s:%s" % (key[0], gname(key[1])),
                        "allocating %d arrays of %d words with <= 4 live [%s, gc=%s, %s]: %s %r %s" % (
                            rounds, elems, key[0], gname(key[1]), flags, core.ending(r), r["out"][-80:], core.first_err_line(r)),
                        {"phase": "reclaim", "backend": key[0], "gc": key[1], "elems": elems, "rounds": rounds, "flags": flags,
                         "source": RECLAIM, "stderr": r["err"][-2000:]})
    return {"runs": n, "array_lengths": sizes}



# ------------------------------------------------------------------------------------------------
# Phase E: objects exactly at / around every size threshold of the allocators and collectors

def phase_thresholds(c, tc, scratch, tier, libdirs):
    quick = tier == "quick"
    d = os.path.join(scratch, "thresholds")
    os.makedirs(d)
    src_text, expected, lens = fam_gcprogs.threshold_program(vcommon.REPO)
    src = os.path.join(d, "thresholds.dora")
    open(src, "w").write(src_text)
    items = [((be, gc), src, be, gc) for be in ("cannon", "boots") for gc in ("copy", None, "sweep")]
    exes, errs = compile_all(tc, items, libdirs=libdirs)
    for key, err in errs.items():
        c.violation("c03:thresholds-compile-failed:%s" % key[0], "threshold-array program does not compile: %s" % err[-300:],
                    {"stderr": err[-2000:], "source": src_text})
    base = "--max-heap-size 16M --gc-young-size 1M --gc-worker 1"
    flagsets = [base + " --gc-verify", base + " --disable-tlab --gc-verify"]
    if not quick:
        flagsets += ["--max-heap-size 32M --gc-young-size 4M --gc-worker 2 --gc-verify", base + " --gc-stress-minor"]
    runs = []
    for key, pair in exes.items():
        if pair is None:
            continue
        for fl in flagsets:
            runs.append((key, pair["debug"], fl, "debug"))
        runs.append((key, pair["fast"], "--max-heap-size 32M --gc-young-size 4M --gc-worker 2 --gc-verify", "fast"))

    def work(run):
        key, exe, fl, rt = run
        return run, core.run_exe(exe, [], flags=fl, timeout=600)
    n = 0
    for (key, exe, fl, rt), r in core.parallel(work, runs):
        n += 1
        if r["timeout"] or r["signal"] is not None or r["code"] != 0 or r["out"] != expected:
            got = r["out"].splitlines()
            want = expected.splitlines()
            first = next((i for i in range(len(want)) if i >= len(got) or got[i] != want[i]), None)
            what = "line %s: got %r, expected %r" % (first, got[first] if first is not None and first < len(got) else None,
                                                      want[first] if first is not None else None)
            c.violation("c03:thresholds:%s:%s" % (key[0], gname(key[1])),
                        "arrays at the size thresholds [%s, gc=%s, %s runtime, %s]: %s; %s %s" % (
                            key[0], gname(key[1]), rt, fl, core.ending(r), what, core.first_err_line(r)),
                        {"phase": "thresholds", "backend": key[0], "gc": key[1], "flags": fl, "runtime": rt, "source": src_text,
                         "stdout": r["out"][-1500:], "stderr": r["err"][-3000:], "expected": expected})
    return {"runs": n, "array_lengths": lens, "thresholds_bytes": fam_gcprogs.thresholds(vcommon.REPO)[0]}

# ------------------------------------------------------------------------------------------------

def main(tier):
    c = vcommon.Check("C03", tier, "fault_enumeration")
    plain = vcommon.build_plain(need_boots=True)
    fast = vcommon.build_fast(need_boots=True)
    inject = vcommon.build_inject()
    tc = core.Toolchain(plain, fast)
    tc_inj = core.Toolchain(inject, fast)
    scratch = vcommon.scratch_dir("c03")
    only = os.environ.get("VERIF_C03_PHASES", "ABCDE")
    try:
        times = {}

        def timed(name, fn, *args):
            t0 = time.time()
            r = fn(*args)
            times[name] = round(time.time() - t0, 1)
            vcommon.log("C03 phase %s: %.1fs" % (name, times[name]))
            return r
        a = timed("graphs", phase_graphs, c, tc, scratch, tier, {"debug": plain, "fast": fast}) if "A" in only else {}
        b = timed("collection-points", phase_inject, c, tc_inj, scratch, tier) if "B" in only else {}
        cc = timed("corpus", phase_corpus, c, tc, scratch, tier) if "C" in only else {}
        dd = timed("reclaim", phase_reclaim, c, tc, scratch, tier) if "D" in only else {}
        ee = timed("thresholds", phase_thresholds, c, tc, scratch, tier, {"debug": plain, "fast": fast}) if "E" in only else {}
        evals = a.get("graphs_checked", 0) + b.get("collection_points_enumerated", 0) + cc.get("runs", 0) + dd.get("runs", 0) + \
            ee.get("runs", 0) * len(ee.get("array_lengths", []))
        c.coverage = {
            "evaluations": evals,
            "distinct_nontrivial": a.get("configurations", 0) + b.get("collection_points_enumerated", 0) + cc.get("programs", 0),
            "rule": "evaluations = object graphs built-and-verified under collection plans + injected collection points + corpus runs + "
                    "reclamation runs. distinct = graph-enumerator configurations (carrier x root mode x generator x collector x n x flags) + "
                    "distinct (executable, collection point[s]) pairs + corpus programs; a collection point is non-trivial because a forced "
                    "collection really runs at that allocation (the hook counts Gc::alloc calls with TLABs disabled).",
            "samples": [{"graph_run": "carrier=class roots=locals gc=copy n=3 codes 0..256 four plans", "expected": ref_output(3, 0, 4, 0)},
                        {"collection_point": "program 'tree' [boots, swiper] DORA_VERIF_GC_AT=17:minor,23:minor"},
                        {"corpus": "test/rt programs x collectors x stress/TLAB/worker/heap flag sets"}],
            "exhaustive": True,
            "graphs": a, "collection_points": b, "corpus": cc, "reclamation": dd, "threshold_arrays": ee, "phase_seconds": times,
        }
        c.assumptions = ["programs run single-threaded: schedules of multi-threaded allocators are outside this check (stop-the-world protocol: C04; "
                         "parallel termination: C12)",
                         "a corpus run that exceeds the time limit under a stress mode is listed as inconclusive, not judged",
                         "the injection hook only adds a forced collection in Gc::alloc; compiled code and collectors are unmodified"]
        return c.finish()
    finally:
        shutil.rmtree(scratch, ignore_errors=True)


def replay(path):
    r = json.load(open(path))
    print(json.dumps({k: v for k, v in r.items() if k not in ("source",)}, indent=1)[:5000])
    if r.get("phase") != "inject":
        return 0
    fast = vcommon.build_fast(need_boots=True)
    inject = vcommon.build_inject()
    tc = core.Toolchain(inject, fast)
    scratch = vcommon.scratch_dir("c03r")
    try:
        src = os.path.join(scratch, "p.dora")
        open(src, "w").write(r["source"])
        ok, err = tc.compile(src, os.path.join(scratch, "p"), r["backend"], gc=r["gc"])
        if not ok:
            print("does not compile:", err[-500:])
            return 2
        a = core.run_exe(os.path.join(scratch, "p"), [], flags=r["flags"])
        b = core.run_exe(os.path.join(scratch, "p"), [], flags=r["flags"], env={"DORA_VERIF_GC_AT": r["spec"]})
        b2 = core.run_exe(os.path.join(scratch, "p"), [], flags=r["flags"], env={"DORA_VERIF_GC_AT": r["spec"]})
        print("undisturbed:", core.ending(a), a["out"].strip()[-200:])
        print("injected   :", core.ending(b), b["out"].strip()[-200:], core.first_err_line(b))
        if (core.ending(b), b["out"]) != (core.ending(b2), b2["out"]):
            print("replay is not deterministic")
        if (core.ending(a), a["out"]) != (core.ending(b), b["out"]):
            print("VIOLATION property=C03 replay=%s" % path)
            return 1
        return 0
    finally:
        shutil.rmtree(scratch, ignore_errors=True)
