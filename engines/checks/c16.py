"""C16 -- the syntax tree loses nothing of the text.
Bounded-exhaustive: every string over the lexeme alphabet up to a length bound in 12 syntactic
contexts x separator styles, every repository file, every single-token edit of the smaller files;
oracle = byte round trip, node-length sums, span tiling, error spans inside the text, re-parse."""
import shutil
import vcommon, seq


def main(tier):
    c = vcommon.Check("C16", tier, "exploration")
    b = seq.build_seqmc()
    scratch = vcommon.scratch_dir("c16")
    try:
        flist, nfiles = seq.dora_file_list(scratch)
        parts = []
        if tier == "quick":
            parts.append(("text", {"oracle": "c16", "alphabet": "sigma", "maxlen": 3, "seps": "0,2,5"}))
            # every line-ending style (LF, CRLF, lone CR, tab) at the shorter bound
            parts.append(("text", {"oracle": "c16", "alphabet": "sigma", "maxlen": 2, "seps": "1,3,4"}))
            parts.append(("text", {"oracle": "c16", "alphabet": "delims", "maxlen": 5, "seps": "0,5"}))
            parts.append(("files", {"oracle": "c16", "list": flist, "edit-max-tokens": 200}))
        else:
            parts.append(("text", {"oracle": "c16", "alphabet": "sigma", "maxlen": 3, "seps": "0,1,2,3,4,5"}))
            parts.append(("text", {"oracle": "c16", "alphabet": "core", "maxlen": 4, "minlen": 4, "seps": "0,2,5"}))
            parts.append(("text", {"oracle": "c16", "alphabet": "delims", "maxlen": 6, "seps": "0,5"}))
            parts.append(("files", {"oracle": "c16", "list": flist, "edit-max-tokens": 1500}))
        evals = 0
        nontrivial = 0
        tokens = 0
        samples = []
        spaces = []
        for sub, args in parts:
            rep = seq.run_seqmc(b, sub, args)
            seq.absorb(c, rep, "%s %s" % (sub, args.get("alphabet", "files")))
            evals += seq.evals_of(rep)
            nontrivial += rep["counters"].get("texts_with_errors", 0)
            tokens += rep["counters"].get("tokens_walked", 0)
            samples += rep["samples"][:3]
            spaces.append({"cmd": rep["_cmd"].replace(scratch, "<scratch>"), "evaluations": rep["evaluations"],
                           "counters": rep["counters"], "extra": rep["extra"]})
        c.coverage = {
            "evaluations": evals,
            "distinct_nontrivial": nontrivial,
            "rule": "every string over the lexeme alphabet (one lexeme per token kind, lexer-error shapes, multi-byte "
                    "characters) up to the length bound, embedded in each of 12 syntactic contexts and joined by each "
                    "separator style (space, LF, CRLF, CR, TAB, none); every .dora file of the repository and every "
                    "single-token edit (delete/duplicate/swap/replace by 14 recovery symbols/truncate) of files up to "
                    "the token bound. Texts are enumerated without repetition; non-trivial = text with >= 1 parse "
                    "error, i.e. an error-recovery path built part of the tree.",
            "samples": samples,
            "exhaustive": True,
            "tokens_walked": tokens,
            "repo_files": nfiles,
            "spaces": spaces,
        }
        c.assumptions = ["the re-parse clause is checked as determinism of the parser on the reproduced (identical) text",
                         "texts longer than the bounds are covered only through repository files and their edits"]
        return c.finish()
    finally:
        shutil.rmtree(scratch, ignore_errors=True)


def replay(path):
    import json, subprocess
    r = json.load(open(path))
    b = seq.build_seqmc()
    ex = r["example"]
    print("replaying", r["key"], "on", repr(ex)[:200])
    print("original command:", r["cmd"])
    if ex.startswith("/"):
        print("file-based case; re-run the original command to reproduce")
        return 0
    open("/var/tmp/verif-replay.dora", "w").write(ex)
    p = subprocess.run([b, "dump", "--file", "/var/tmp/verif-replay.dora"])
    return 1 if p.returncode != 0 else 0
