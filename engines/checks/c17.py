"""C17 -- formatting never changes a program and is stable.
Every repository file x line widths, layout mutants (comment at every token boundary, line split/join at
every boundary) of the smaller files, and every error-free text of the bounded lexeme space; oracle =
output re-parses, canonical code-token sequence preserved, comment multiset preserved, idempotence."""
import shutil
import vcommon, seq


def main(tier):
    c = vcommon.Check("C17", tier, "exploration")
    b = seq.build_seqmc()
    scratch = vcommon.scratch_dir("c17")
    try:
        flist, nfiles = seq.dora_file_list(scratch)
        if tier == "quick":
            parts = [
                ("files", {"oracle": "c17", "list": flist, "widths": "20,90", "edit-max-tokens": 150, "edit-widths": "20,90"}),
                ("text", {"oracle": "c17", "alphabet": "sigma", "maxlen": 3, "widths": "1,20,90"}),
            ]
        else:
            parts = [
                ("files", {"oracle": "c17", "list": flist, "widths": "1,20,40,80,90,120,1000000",
                           "edit-max-tokens": 1500, "edit-widths": "20,90"}),
                ("text", {"oracle": "c17", "alphabet": "sigma", "maxlen": 3, "widths": "1,20,90", "seps": "0,1"}),
                ("text", {"oracle": "c17", "alphabet": "core", "maxlen": 4, "minlen": 4, "widths": "1,40"}),
            ]
        evals = 0
        fmt_runs = 0
        samples = []
        spaces = []
        for sub, args in parts:
            rep = seq.run_seqmc(b, sub, args, timeout=6 * 3600)
            # parser panics belong to C06/C16; everything tagged c17: is ours
            seq.absorb(c, rep, "%s %s" % (sub, args.get("alphabet", "files")), only_prefix=("c17:",))
            evals += seq.evals_of(rep)
            cn = rep["counters"]
            fmt_runs += cn.get("format_runs", 0)
            samples += rep["samples"][:3]
            spaces.append({"cmd": rep["_cmd"].replace(scratch, "<scratch>"), "evaluations": seq.evals_of(rep),
                           "counters": cn, "extra": rep["extra"]})
        c.coverage = {
            "evaluations": evals,
            "distinct_nontrivial": fmt_runs,
            "rule": "inputs: every repository .dora file; for files up to the token bound every layout mutant (a block "
                    "comment, a line comment, a line break inserted at every token boundary; every line joined with its "
                    "successor); every string of the lexeme space up to the bound. Non-trivial = (input that parses "
                    "without errors, width) pairs actually formatted; each checked for: no panic, output parses, canonical "
                    "code-token sequence equal (modulo trailing commas before closers, the comma after a block-bodied "
                    "match arm, order inside use groups / runs of use declarations / modifier lists), comment multiset "
                    "equal, format(format(x)) == format(x).",
            "samples": samples,
            "exhaustive": True,
            "repo_files": nfiles,
            "spaces": spaces,
        }
        c.assumptions = ["behavioural equivalence of formatted programs follows from token-sequence preservation; "
                         "the canonical form treats use-declaration and modifier order as insignificant, as the "
                         "formatter's own unit tests prescribe"]
        return c.finish()
    finally:
        shutil.rmtree(scratch, ignore_errors=True)


def replay(path):
    import json
    print(json.dumps(json.load(open(path)), indent=1)[:3000])
    return 0
