"""C01 -- compiled programs behave exactly as the language semantics prescribe.
Enumerated program families (finite products, built completely) x {baseline, optimizing} code generator,
each case compared with a Python reference evaluator."""
import os
import shutil
import sys
import time

import vcommon
sys.path.insert(0, os.path.join(vcommon.VERIF, "engines", "progspace"))
import core  # noqa: E402


def families(tier):
    import fam_arith
    fams = [("arith", fam_arith.cases(quick=(tier == "quick")))]
    for modname in ("fam_order", "fam_ctrl", "fam_data", "fam_coll", "fam_call", "fam_compose", "fam_atomic"):
        try:
            mod = __import__(modname)
        except ModuleNotFoundError:
            continue
        fams.append((modname[4:], mod.cases(quick=(tier == "quick"))))
    return fams


def check_units(c, tc, scratch, units, backends=("cannon", "boots"), flags=None, gc=None):
    """Builds and runs units; compares with expectations.  Returns (cases run, per-backend counts)."""
    builder = core.Builder(tc, scratch)
    jobs = [(u, b) for u in units for b in backends]

    def work(job):
        u, b = job
        exe, err = builder.build(u, b, gc=gc)
        if exe is None:
            return (u, b, None, err)
        return (u, b, core.run_unit(exe, u, flags=flags), "")
    results = core.parallel(work, jobs)
    evals = 0
    for u, b, obs, err in results:
        if obs is None:
            # well-typed-by-construction programs must compile: that is part of C01/C05
            c.violation("compile-failed:%s" % b, "unit %d (%s ...) does not compile with %s: %s" % (
                u.uid, u.cases[0].name, b, err[-400:]), {"backend": b, "source": u.source(), "stderr": err[-3000:]},
                replay_name="unit%d-%s.json" % (u.uid, b))
            continue
        for i, case in enumerate(u.cases):
            o = obs.get(i)
            evals += 1
            if o is None:
                c.violation("no-result:%s:%s" % (case.family, b), "case %s produced no result" % case.name,
                            {"case": case.name, "backend": b, "body": case.body})
                continue
            want_end = "exit:%s" % case.expect_end
            if case.expect_end is None:
                continue  # differential-only case (C02 compares the two generators)
            ok = (o.end == want_end) and o.out == case.expect_out
            if ok and case.expect_end in core.TRAPS:
                ok = o.errline == core.TRAPS[case.expect_end]
            if not ok:
                opname = case.name.split("(")[0]
                c.violation("c01:%s:%s:%s" % (case.family, opname, b),
                            "%s [%s]: expected %s %s, got %s %s (%s)" % (case.name, b, case.expect_out, want_end, o.out, o.end, o.errline),
                            {"case": case.name, "backend": b, "decls": case.decls, "body": case.body,
                             "expected": [case.expect_out, want_end], "observed": [o.out, o.end, o.errline], "stderr": o.err})
    return evals


def main(tier):
    c = vcommon.Check("C01", tier, "exploration")
    bindir = vcommon.build_plain(need_boots=True)
    fastdir = vcommon.build_fast(need_boots=True)
    tc = core.Toolchain(bindir, fastdir)
    tc_debug = core.Toolchain(bindir)
    scratch = vcommon.scratch_dir("c01")
    try:
        fams = families(tier)
        allcases = []
        counts = {}
        for name, cs in fams:
            counts[name] = len(cs)
            allcases += cs
        units = core.pack(allcases, per_unit=800)
        # the copying collector starts 4x faster than the default one; collector independence is C03's subject
        evals = check_units(c, tc, scratch, units, gc="copy")
        if tier == "thorough":
            # the debug-assertion compiler (graph verifier of the optimizing generator on) and the default collector
            evals += check_units(c, tc_debug, scratch, units[:: 6], gc=None)
        traps = sum(1 for x in allcases if x.expect_end != 0)
        samples = [{"case": x.name, "body": x.body, "expected": [x.expect_out, x.expect_end]} for x in
                   (allcases[0], allcases[len(allcases) // 3], allcases[len(allcases) // 2], allcases[-1])]
        c.coverage = {
            "evaluations": evals,
            "distinct_nontrivial": len(set(x.name for x in allcases)),
            "rule": "every case of every family (finite product of operators x boundary operands x operand provenance, "
                    "expression shapes, statement lists, carrier types ...) is generated, compiled by BOTH code generators and "
                    "executed; distinct = distinct case names (operator, operands, mode); every case is non-trivial in that its "
                    "expected output/trap comes from the reference evaluator, not from the implementation.",
            "samples": samples,
            "exhaustive": True,
            "programs": len(units),
            "cases_per_family": counts,
            "cases_expected_to_trap": traps,
            "backends": ["cannon", "boots"],
        }
        c.assumptions = ["the reference evaluator encodes the semantics stated in the property and pinned by pkgs/std and test/rt "
                         "(truncating division, arithmetic >>, logical >>>, traps 101/109/110/103, MIN.abs() == MIN)",
                         "NaN results are only observed through is_nan(); float->int conversions only for in-range values"]
        return c.finish()
    finally:
        shutil.rmtree(scratch, ignore_errors=True)


def replay(path):
    import json
    r = json.load(open(path))
    print(json.dumps(r, indent=1)[:4000])
    return 0
