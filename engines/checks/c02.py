"""C02 -- both code generators agree and every run ends in a defined way.
(a) stdlib sweep: every public std function/method with sweepable parameters x canonical receivers x hostile
arguments; (b) every runnable program of test/rt with its directives; (c) integer-literal mutants of those
programs that the compiler still accepts.  Oracle: same stdout / exit status / first stderr line for the
baseline and the optimizing generator, and a defined ending (no signal, no runtime panic, no corruption)."""
import json
import os
import re
import shutil
import subprocess
import sys

import vcommon
sys.path.insert(0, os.path.join(vcommon.VERIF, "engines", "progspace"))
import core  # noqa: E402
import corpus  # noqa: E402
import fam_stdlib  # noqa: E402

ERRLOC = re.compile(r"^error: .*\n--> .*?:(\d+):(\d+)$", re.M)
INT_LIT = re.compile(r"(?<![\w.'\"])(\d[\d_]*)(i32|i64|u8)?(?![\w.'\"])")
MUT_VALUES = {"": ["0", "9223372036854775807", "(-9223372036854775807 - 1)", "2305843009213693953", "4294967296", "64", "-1"],
              "i64": ["0i64", "9223372036854775807i64", "2305843009213693953i64", "-1i64"],
              "i32": ["0i32", "2147483647i32", "(-2147483647i32 - 1i32)", "32i32", "-1i32"],
              "u8": ["0u8", "255u8", "128u8"]}


def frontend_ok(tc, src):
    cmd = [os.path.join(tc.fastdir, "dora"), "compile", "-c", src, "-o", src + ".pkg"]
    p = subprocess.run(cmd, stdout=subprocess.PIPE, stderr=subprocess.PIPE, timeout=300, env=dict(os.environ, RUST_BACKTRACE="0"))
    out = p.stderr.decode("utf-8", "replace") + p.stdout.decode("utf-8", "replace")
    try:
        os.remove(src + ".pkg")
    except OSError:
        pass
    return p.returncode == 0, out


def filter_accepted(tc, cases, scratch, tag):
    """drops the cases the front end rejects (the property quantifies over accepted programs); iterates because the
    compiler stops reporting after the first batch of errors"""
    dropped = 0
    rounds = 0
    while True:
        unit = core.Unit(0, cases)
        src = os.path.join(scratch, "filter-%s.dora" % tag)
        text = unit.source()
        open(src, "w").write(text)
        ok, out = frontend_ok(tc, src)
        if ok:
            return cases, dropped
        lines = sorted(set(int(m.group(1)) for m in ERRLOC.finditer(out)))
        if not lines:
            raise vcommon.MachineryError("front end failed without locations:\n" + out[-2000:])
        # map line -> case
        starts = []
        for i, l in enumerate(text.splitlines(), 1):
            m = re.match(r"fn case_(\d+)\(\)", l)
            if m:
                starts.append((i, int(m.group(1))))
        bad = set()
        import bisect
        keys = [s for s, _ in starts]
        for ln in lines:
            k = bisect.bisect_right(keys, ln) - 1
            if k < 0:
                raise vcommon.MachineryError("front-end error in the prelude:\n" + out[:3000])
            bad.add(starts[k][1])
        if not bad:
            raise vcommon.MachineryError("cannot attribute front-end errors:\n" + out[:2000])
        cases = [c for i, c in enumerate(cases) if i not in bad]
        dropped += len(bad)
        rounds += 1
        if rounds > 200:
            raise vcommon.MachineryError("filtering does not converge")


def compare_obs(c, what, name, oc, ob, replay):
    """the two-generator differential + defined-ending oracle for one case"""
    for be, o in (("cannon", oc), ("boots", ob)):
        r = {"timeout": o.end == "timeout", "signal": 1 if o.end.startswith("signal") else None, "err": o.err or o.errline,
             "code": int(o.end[5:]) if o.end.startswith("exit:") else None}
        if o.end == "timeout":
            continue
        if o.end.startswith("signal") or "panicked at" in (o.err or ""):
            cls = "signal" if o.end.startswith("signal") else "runtime-panic"
            c.violation("c02:%s:%s:%s" % (cls, what, keyof(name)), "%s [%s] ends with %s %s" % (name, be, o.end, o.errline[:160]),
                        dict(replay, backend=be, ending=o.end, stderr=(o.err or "")[-1500:]))
            return
        if r["code"] in core.TRAPS and o.errline != core.TRAPS[r["code"]]:
            c.violation("c02:trap-message:%s:%s" % (what, keyof(name)), "%s [%s] status %d with first stderr line %r" % (name, be, r["code"], o.errline),
                        dict(replay, backend=be))
            return
    if oc.end == "timeout" and ob.end == "timeout":
        return "slow"
    if oc.key() != ob.key():
        c.violation("c02:generators-differ:%s:%s" % (what, keyof(name)),
                    "%s: cannon %s %r %s | boots %s %r %s" % (name, oc.end, oc.errline[:60], oc.out[-2:], ob.end, ob.errline[:60], ob.out[-2:]),
                    dict(replay, cannon={"out": oc.out[-20:], "end": oc.end, "err": oc.errline}, boots={"out": ob.out[-20:], "end": ob.end, "err": ob.errline}))
    return None


def keyof(name):
    """stable key: the function / file, without argument values"""
    m = re.match(r"std:([^(]*)\(", name)
    if m:
        return m.group(1)
    return name


def run_pair(tc, builder, unit, gc="copy"):
    res = {}
    for be in ("cannon", "boots"):
        exe, err = builder.build(unit, be, gc=gc)
        if exe is None:
            return None, (be, err)
        res[be] = core.run_unit_resuming(exe, unit, timeout=60)
    return res, None


def main(tier):
    c = vcommon.Check("C02", tier, "exploration")
    quick = tier == "quick"
    bindir = vcommon.build_plain(need_boots=True)
    tc = core.Toolchain(bindir, vcommon.build_fast(need_boots=True))
    scratch = vcommon.scratch_dir("c02")
    evals = 0
    slow = []
    try:
        # ---------------------------------------------------------------- (a) stdlib sweep
        import time
        t0 = time.time()
        cases = fam_stdlib.cases(quick)
        generated = len(cases)
        # filter in chunks (keeps each front-end run small) in parallel
        chunks = [cases[i:i + 1500] for i in range(0, len(cases), 1500)]
        filt = core.parallel(lambda a: filter_accepted(tc, a[1], scratch, "s%d" % a[0]), list(enumerate(chunks)), workers=8)
        cases = [x for cs, _ in filt for x in cs]
        rejected = sum(d for _, d in filt)
        vcommon.log('c02: filtered %d cases in %.0fs' % (len(cases), time.time() - t0))
        units = core.pack(cases, per_unit=600)
        builder = core.Builder(tc, scratch)
        results = core.parallel(lambda u: (u, run_pair(tc, builder, u)), units, workers=8)
        vcommon.log('c02: stdlib units run at %.0fs' % (time.time() - t0))
        per_fn = {}
        endings = {}
        for u, (res, fail) in results:
            if res is None:
                be, err = fail
                c.violation("c02:compile-failed:%s:stdlib" % be, "stdlib sweep unit does not compile with %s: %s" % (be, err[-300:]),
                            {"backend": be, "stderr": err[-3000:], "source": u.source()[:30000]})
                continue
            for i, case in enumerate(u.cases):
                oc, ob = res["cannon"].get(i), res["boots"].get(i)
                if oc is None or ob is None or oc.end == "not-run" or ob.end == "not-run":
                    raise vcommon.MachineryError("case %s did not run" % case.name)
                evals += 2
                per_fn[keyof(case.name)] = per_fn.get(keyof(case.name), 0) + 1
                endings[oc.end] = endings.get(oc.end, 0) + 1
                r = compare_obs(c, "stdlib", case.name, oc, ob, {"case": case.name, "body": case.body, "prelude": "fam_stdlib.HELPERS + show functions"})
                if r == "slow":
                    slow.append(case.name)
        # ---------------------------------------------------------------- (b) corpus, (c) literal mutants
        ents = [e for e in corpus.entries() if not e.ignore and not e.flaky and not e.nondet and "/io/" not in e.rel]
        excluded = [e.rel for e in corpus.entries() if e.ignore or e.flaky or e.nondet or "/io/" in e.rel]
        if quick:
            ents = ents[::24]
        jobs = []
        for ei, e in enumerate(ents):
            jobs.append((ei, e, None))
        # literal mutants: positions x boundary values, capped per file
        per_file = 1 if quick else 8
        mutants = 0
        for ei, e in enumerate(ents):
            if e.src != e.path or e.expect_fail:
                continue
            lits = [m for m in INT_LIT.finditer(e.text) if not line_is_directive(e.text, m.start())]
            picks = []
            for k, m in enumerate(lits):
                vals = MUT_VALUES.get(m.group(2) or "", [])
                for v in vals:
                    picks.append((m, v))
            # fixed stride subsample down to the cap (reported); all positions x values when below the cap
            if len(picks) > per_file:
                step = len(picks) / float(per_file)
                picks = [picks[int(j * step)] for j in range(per_file)]
            for m, v in picks:
                text = e.text[:m.start()] + v + e.text[m.end():]
                jobs.append((ei, e, (m.start(), v, text)))
                mutants += 1

        def work(job):
            tj = time.time()
            r = work2(job)
            if time.time() - tj > 15:
                vcommon.log('c02: slow job %.0fs %s %s' % (time.time() - tj, job[1].rel, job[2][:2] if job[2] else ''))
            return r

        def work2(job):
            ei, e, mut = job
            d = os.path.join(scratch, "c%d_%s" % (ei, "m%d_%d" % (mut[0], abs(hash(mut[1])) % 9973) if mut else "o"))
            os.makedirs(d, exist_ok=True)
            src = e.src
            if mut:
                src = os.path.join(d, os.path.basename(e.src))
                open(src, "w").write(mut[2])
                ok, out = frontend_ok(tc, src)
                if not ok:
                    return (job, "rejected", None)
            obs = {}
            for be in ("cannon", "boots"):
                if e.only_config and e.only_config != be:
                    continue
                gc = None
                extra = []
                for a in e.compile_args:
                    if a.startswith("--gc="):
                        gc = a[5:]
                    else:
                        extra.append(a)
                exe = os.path.join(d, "exe-" + be)
                if extra:
                    ok, err = tc.compile_direct(src, exe, be, gc=gc, extra=extra)
                else:
                    ok, err = tc.compile(src, exe, be, gc=gc)
                if not ok:
                    obs[be] = ("compile-failed", err)
                    continue
                flags = " ".join(e.runtime_args) or None
                r = core.run_exe(exe, e.args, flags=flags, timeout=(20 if mut else max(60, e.timeout)), cwd=os.path.dirname(e.src))
                obs[be] = core.Observation(r["out"].splitlines(), core.ending(r), core.first_err_line(r), r["err"][-1500:])
                try:
                    os.remove(exe)
                except OSError:
                    pass
            return (job, "ran", obs)
        vcommon.log('c02: corpus jobs=%d start at %.0fs' % (len(jobs), time.time() - t0))
        ran_files = ran_mut = rejected_mut = 0
        for (ei, e, mut), status, obs in core.parallel(work, jobs, workers=16):
            if status == "rejected":
                rejected_mut += 1
                continue
            name = e.rel + (" with literal at offset %d := %s" % (mut[0], mut[1]) if mut else "")
            rp = {"file": e.rel, "mutation": [mut[0], mut[1]] if mut else None, "args": e.args, "runtime_args": e.runtime_args, "compile_args": e.compile_args}
            failed = [be for be, o in obs.items() if isinstance(o, tuple)]
            if failed:
                be = failed[0]
                err = obs[be][1]
                if mut and ("out of memory" in err or "compile timeout" in err):
                    continue
                c.violation("c02:compile-failed:%s:%s" % (be, e.rel), "%s accepted by the front end but %s fails: %s" % (name, be, err[-200:]),
                            dict(rp, stderr=err[-3000:]))
                continue
            if mut:
                ran_mut += 1
            else:
                ran_files += 1
            evals += len(obs)
            if len(obs) == 2:
                r = compare_obs(c, "mutant" if mut else "corpus", e.rel, obs["cannon"], obs["boots"], rp)
                if r == "slow":
                    slow.append(name)
            else:
                o = list(obs.values())[0]
                compare_obs(c, "corpus", e.rel, o, o, rp)
            if not mut:
                # the file's own expectation (exit status, recorded stdout) is an additional oracle
                for be, o in obs.items():
                    code = int(o.end[5:]) if o.end.startswith("exit:") else None
                    if e.expect_fail:
                        if code == 0 or (e.expect_code is not None and code != e.expect_code):
                            c.violation("c02:corpus-expectation:%s" % e.rel, "%s [%s] ends with %s, its directive expects %s" % (
                                e.rel, be, o.end, e.expect_code or "failure"), rp)
                    elif o.end != "timeout":
                        if code != 0:
                            c.violation("c02:corpus-expectation:%s" % e.rel, "%s [%s] ends with %s %r, expected success" % (e.rel, be, o.end, o.errline[:100]), rp)
                        elif e.stdout is not None and "\n".join(o.out).strip() != e.stdout.strip():
                            c.violation("c02:corpus-stdout:%s" % e.rel, "%s [%s] stdout differs from the recorded .stdout file" % (e.rel, be), rp)
        vcommon.log('c02: corpus done at %.0fs' % (time.time() - t0))
        c.coverage = {
            "evaluations": evals,
            "distinct_nontrivial": len(cases) + ran_files + ran_mut,
            "rule": "(a) signatures extracted from pkgs/std (%d public functions/methods, generic owners instantiated with Int64, String, UInt8, "
                    "(Int64, Int64)) x canonical receivers x the product of boundary values per parameter (Int64: 0, +-1, 63..65, 2^31, 2^32, "
                    "2^60, 2^61+1, max, min ...; Float: +-0, NaN, +-inf, 2^31, 2^63; Char incl. 4-byte and U+10FFFF; String incl. multibyte "
                    "and 140 000 bytes), kept iff the front end accepts the call; result and receiver are printed after the call. (b) every "
                    "test/rt program with its //= directives (compile/runtime args, argv), except ignored/flaky ones and those using time, "
                    "randomness, threads, sockets/files. (c) integer-literal mutants: every literal position x boundary values of its suffix "
                    "type, subsampled by a fixed stride to the cap per file, kept iff the front end accepts. Oracle: identical stdout/status/"
                    "first stderr line for cannon and boots; ending is exit, or a documented trap with its message; never a signal or panic. "
                    "distinct_nontrivial = accepted sweep calls + corpus programs + accepted mutants."
                    % fam_stdlib.cases.signatures,
            "samples": [{"case": cases[0].name}, {"case": cases[len(cases) // 2].name}, {"file": ents[0].rel}],
            "exhaustive": True,
            "stdlib_calls_generated": generated,
            "stdlib_calls_rejected_by_front_end": rejected,
            "stdlib_functions_swept": len(per_fn),
            "stdlib_signatures_not_swept": len(set(s for s, _ in fam_stdlib.cases.skipped)),
            "stdlib_endings": endings,
            "corpus_files": ran_files,
            "corpus_excluded": len(excluded),
            "mutants_run": ran_mut,
            "mutants_rejected_by_front_end": rejected_mut,
            "mutant_cap_per_file": per_file,
            "slow_both_generators": slow[:40],
        }
        c.assumptions = ["a run that exceeds the time limit on BOTH generators is listed under slow_both_generators and not judged",
                         "quick: every 24th corpus file, 1 mutant per file; thorough: all files, 8 mutants per file (cap reported)"]
        return c.finish()
    finally:
        shutil.rmtree(scratch, ignore_errors=True)


def line_is_directive(text, pos):
    ls = text.rfind("\n", 0, pos) + 1
    return text[ls:ls + 2] == "//"


def replay(path):
    print(json.dumps(json.load(open(path)), indent=1)[:5000])
    return 0
